"""Mutant corpus for ./check --selftest.

Every entry edits a scratch copy of /repo/slimta (never /repo itself).
expect = 'fire:<rule>'  the check must exit 1 and name that rule
expect = 'silent'       behaviour-preserving rewrite: the check must exit 0
Edits are exact-substring replacements that must match `count` (default 1)
times; a pattern that no longer matches is reported as STALE, not as a pass.
"""

MUTANTS = []


def M(id, prop, expect, *edits):
    MUTANTS.append({'id': id, 'prop': prop, 'expect': expect,
                    'edits': [dict(file=f, find=a, replace=b, count=c)
                              for f, a, b, c in edits]})


SRV = 'slimta/smtp/server.py'
RC = 'slimta/relay/smtp/client.py'

# ---------------------------------------------------------------- C14
M('c14-banner-no-timeout', 'C14', 'fire:T1',
  (RC, '''        with Timeout(self.command_timeout):
            banner = self.client.get_banner()''',
   '''        banner = self.client.get_banner()''', 1))
M('c14-flush-after-with', 'C14', 'fire:T1',
  (RC, '''                header_data, message_data)
            self.client._flush_pipeline()''',
   '''                header_data, message_data)
        self.client._flush_pipeline()''', 1))
M('c14-data-timeout-per-recv', 'C14', 'fire:T2',
  (SRV, '''        with Timeout(self.data_timeout):
            try:
                data = reader.recv()''',
   '''        if True:
            try:
                data = reader.recv()''', 1),
  ('slimta/smtp/datareader.py', '''        piece = self.io.raw_recv()''',
   '''        from gevent import Timeout
        with Timeout(10):
            piece = self.io.raw_recv()''', 1))
M('c14-handle-no-timeout-arm', 'C14', 'fire:T4',
  (SRV, '''            except Timeout:
                timed_out.send(self.io)
                self.io.flush_send()
                raise ConnectionLost()''',
   '''            except ZeroDivisionError:
                timed_out.send(self.io)
                self.io.flush_send()
                raise ConnectionLost()''', 1))
M('c14-timeout-arm-continues', 'C14', 'fire:T4',
  (SRV, '''                timed_out.send(self.io)
                self.io.flush_send()
                raise ConnectionLost()''',
   '''                timed_out.send(self.io)
                self.io.flush_send()
                command, arg = None, None''', 1))
M('c14-pipe-timeout-permanent', 'C14', 'fire:T3',
  ('slimta/relay/pipe.py', '''            reply = Reply('450', '4.4.2 ' + msg)
            raise TransientRelayError(msg, reply)''',
   '''            reply = Reply('550', '5.4.2 ' + msg)
            raise PermanentRelayError(msg, reply)''', 1))
M('c14-run-timeout-arm-dropped', 'C14', 'fire:T3',
  (RC, '''        except Timeout:
            if not result.ready():
                reply = Reply(command=self.current_command,
                              address=self.address).copy(timed_out)
                relay_error = SmtpRelayError.factory(reply)
                result.set_exception(relay_error)
''', '', 1))
M('c14-twin-timeout-hoisted', 'C14', 'silent',
  (RC, '''        with Timeout(self.command_timeout):
            banner = self.client.get_banner()''',
   '''        banner = self.client.get_banner()''', 1),
  (RC, '''            self._banner()
            self._ehlo()
        else:
            self._banner()''', '''            with Timeout(self.command_timeout):
                self._banner()
            self._ehlo()
        else:
            with Timeout(self.command_timeout):
                self._banner()''', 1))
M('c14-twin-recv-helper', 'C14', 'silent',
  (SRV, '''        with Timeout(self.command_timeout):
            return self.io.recv_command()''',
   '''        with Timeout(self.command_timeout):
            return self._recv_command_inner()

    def _recv_command_inner(self):
        return self.io.recv_command()''', 1))

# ---------------------------------------------------------------- C07
M('c07-rcpt-no-mailfrom-guard', 'C07', 'fire:R7.1',
  (SRV, '''        if not self.have_mailfrom:
            bad_sequence.send(self.io)
            return

        params = self._gather_params(arg[end+1:])

        reply = Reply('250', '2.1.5 Recipient''',
   '''        params = self._gather_params(arg[end+1:])

        reply = Reply('250', '2.1.5 Recipient''', 1))
M('c07-data-no-rcpt-guard', 'C07', 'fire:R7.1',
  (SRV, '''        if not self.have_mailfrom or not self.have_rcptto:''',
   '''        if not self.have_mailfrom:''', 1))
M('c07-mail-second-allowed', 'C07', 'fire:R7.1',
  (SRV, '''        if self.have_mailfrom:
            bad_sequence.send(self.io)
            return

''', '', 1))
M('c07-ehlo-before-banner', 'C07', 'fire:R7.1',
  (SRV, '''    def _command_EHLO(self, ehlo_as):
        if not self.bannered:
            bad_sequence.send(self.io)
            return
        elif not ehlo_as:''', '''    def _command_EHLO(self, ehlo_as):
        if not ehlo_as:''', 1))
M('c07-mailfrom-any-code', 'C07', 'fire:R7.2',
  (SRV, '''        self.have_mailfrom = self.have_mailfrom or (reply.code == '250')''',
   '''        self.have_mailfrom = True''', 1))
M('c07-authed-any-code', 'C07', 'fire:R7.2',
  (SRV, '''        if reply.code == '235':
            self.authed = True''', '''        self.authed = True''', 1))
M('c07-rset-double-reply', 'C07', 'fire:R7.3',
  (SRV, '''        if reply.code == '250':
            self.have_mailfrom = None
            self.have_rcptto = None

    def _command_NOOP''', '''        if reply.code == '250':
            self.have_mailfrom = None
            self.have_rcptto = None
            reply.send(self.io)

    def _command_NOOP''', 1))
M('c07-badseq-no-reply', 'C07', 'fire:R7.3',
  (SRV, '''        if not self.have_mailfrom or not self.have_rcptto:
            bad_sequence.send(self.io)
            return''', '''        if not self.have_mailfrom or not self.have_rcptto:
            return''', 1))
M('c07-noop-no-close-check', 'C07', 'fire:R7.4',
  (SRV, '''        self._call_custom_handler('NOOP', reply)
        reply.send(self.io)
        self._check_close_code(reply)''',
   '''        self._call_custom_handler('NOOP', reply)
        reply.send(self.io)''', 1))
M('c07-close-code-421-only', 'C07', 'fire:R7.4',
  (SRV, '''        if reply.code in ('221', '421'):''',
   '''        if reply.code in ('421',):''', 1))
M('c07-rset-keeps-rcptto', 'C07', 'fire:R7.5',
  (SRV, '''        if reply.code == '250':
            self.have_mailfrom = None
            self.have_rcptto = None

    def _command_NOOP''', '''        if reply.code == '250':
            self.have_mailfrom = None

    def _command_NOOP''', 1))
M('c07-data-keeps-transaction', 'C07', 'fire:R7.5',
  (SRV, '''        self.io.flush_send()

        self.have_mailfrom = None
        self.have_rcptto = None
''', '''        self.io.flush_send()
''', 1))
M('c07-helo-keeps-transaction', 'C07', 'fire:R7.5',
  (SRV, '''        if reply.code == '250':
            self.have_mailfrom = None
            self.have_rcptto = None
            self.ehlo_as = ehlo_as
            self.extensions.reset()''', '''        if reply.code == '250':
            self.ehlo_as = ehlo_as
            self.extensions.reset()''', 1))
M('c07-edge-rcpt-any-code', 'C07', 'fire:R7.5',
  ('slimta/edge/smtp.py', '''        if reply.code == '250':
            assert self.envelope is not None
            self.envelope.recipients.append(address)''',
   '''        if self.envelope is not None:
            self.envelope.recipients.append(address)''', 1))
M('c07-edge-rset-keeps-envelope', 'C07', 'fire:R7.5',
  ('slimta/edge/smtp.py', '''    def RSET(self, reply):
        self.envelope = None''', '''    def RSET(self, reply):
        pass''', 1))
M('c07-mail-arg-unguarded', 'C07', 'fire:R7.6',
  (SRV, '''    def _command_MAIL(self, arg):
        if not arg:
            bad_arguments.send(self.io)
            return
''', '''    def _command_MAIL(self, arg):
''', 1))
M('c07-unknown-for-all', 'C07', 'fire:R7.7',
  (SRV, '''                    if command:
                        self._handle_command(command, arg)
                    else:
                        unknown_command.send(self.io)''',
   '''                    if command:
                        self._handle_command(command, arg)
                    unknown_command.send(self.io)''', 1))
M('c07-twin-nested-guards', 'C07', 'silent',
  (SRV, '''        if not self.have_mailfrom or not self.have_rcptto:
            bad_sequence.send(self.io)
            return

        reply = Reply('354', 'Start mail input; end with <CRLF>.<CRLF>')
        self._call_custom_handler('DATA', reply)
        reply.send(self.io, flush=True)
        self._check_close_code(reply)

        if reply.code == '354':
            self._get_message_data()''',
   '''        if self.have_mailfrom:
            if self.have_rcptto:
                reply = Reply('354', 'Start mail input; end with <CRLF>.<CRLF>')
                self._call_custom_handler('DATA', reply)
                reply.send(self.io, flush=True)
                self._check_close_code(reply)
                if reply.code != '354':
                    return
                self._get_message_data()
                return
        bad_sequence.send(self.io)''', 1))
M('c07-twin-reset-helper', 'C07', 'silent',
  (SRV, '''        if reply.code == '250':
            self.have_mailfrom = None
            self.have_rcptto = None

    def _command_NOOP''', '''        if reply.code == '250':
            self._reset_transaction()

    def _reset_transaction(self):
        self.have_mailfrom = None
        self.have_rcptto = None

    def _command_NOOP''', 1))

# ---------------------------------------------------------------- C08
IOF = 'slimta/smtp/io.py'
AUTH = 'slimta/smtp/auth.py'
M('c08-server-buffer-kept', 'C08', 'fire:R8.1',
  (IOF, '''            self.socket = context.wrap_socket(self.socket, server_side=True)
            # Anything buffered was received before encryption: discard it.
            self.recv_buffer = b\'\'''',
   '''            self.socket = context.wrap_socket(self.socket, server_side=True)''', 1))
M('c08-client-buffer-kept', 'C08', 'fire:R8.1',
  (IOF, '''                                              server_hostname=hostname)
            # Anything buffered was received before encryption: discard it.
            self.recv_buffer = b\'\'''',
   '''                                              server_hostname=hostname)''', 1))
M('c08-ehlo-survives-tls', 'C08', 'fire:R8.2',
  (SRV, '''            self.ehlo_as = None
            self.have_mailfrom = None''', '''            self.have_mailfrom = None''', 1))
M('c08-starttls-still-offered', 'C08', 'fire:R8.2',
  (SRV, '''            self.extensions.drop('STARTTLS')''', '''            pass''', 1))
M('c08-auth-twice', 'C08', 'fire:R8.3',
  (SRV, '''if not self.ehlo_as or self.authed or self.have_mailfrom:''',
   '''if not self.ehlo_as or self.have_mailfrom:''', 1))
M('c08-auth-in-transaction', 'C08', 'fire:R8.3',
  (SRV, '''if not self.ehlo_as or self.authed or self.have_mailfrom:''',
   '''if not self.ehlo_as or self.authed:''', 1))
M('c08-auth-bare-crash', 'C08', 'fire:R8.4',
  (SRV, '''        if not arg:
            bad_arguments.send(self.io)
            return
        auth = self.extensions.getparam('AUTH')''',
   '''        auth = self.extensions.getparam('AUTH')''', 1))
M('c08-insecure-check-removed', 'C08', 'fire:R8.5',
  (AUTH, '''            if insecure and not self.io.encrypted:
                raise InsecureMechanismError()''', '', 1))
M('c08-insecure-dead-attribute', 'C08', 'fire:R8.5',
  (AUTH, '''            insecure = getattr(mechanism, 'insecure',
                               mechanism.name in (b'PLAIN', b'LOGIN'))''',
   '''            insecure = getattr(mechanism, 'insecure', False)''', 1))
M('c08-insecure-login-forgotten', 'C08', 'fire:R8.5',
  (AUTH, '''mechanism.name in (b'PLAIN', b'LOGIN'))''',
   '''mechanism.name in (b'PLAIN',))''', 1))
M('c08-session-auth-any-code', 'C08', 'fire:R8.6',
  ('slimta/edge/smtp.py', '''        if reply.code == '235':
            self.auth = (creds.authcid, creds.authzid)''',
   '''        self.auth = (creds.authcid, creds.authzid)''', 1))
M('c08-valueerror-arm-dropped', 'C08', 'fire:R8.7',
  (SRV, '''        except ValueError:
            bad_arguments.send(self.io)
            return
        except ServerAuthError as e:''', '''        except ServerAuthError as e:''', 1))
M('c08-twin-guard-inverted-form', 'C08', 'silent',
  (AUTH, '''            if insecure and not self.io.encrypted:
                raise InsecureMechanismError()''',
   '''            if insecure:
                if self.io.encrypted:
                    pass
                else:
                    raise InsecureMechanismError()''', 1))
M('c08-twin-clear-before-return', 'C08', 'silent',
  (IOF, '''            self.socket = context.wrap_socket(self.socket, server_side=True)
            # Anything buffered was received before encryption: discard it.
            self.recv_buffer = b\'\'
            return True''', '''            self.socket = context.wrap_socket(self.socket, server_side=True)
            self._drop_plaintext()
            return True''', 1),
  (IOF, '''    def buffered_recv(self):''', '''    def _drop_plaintext(self):
        self.recv_buffer = b\'\'

    def buffered_recv(self):''', 1))

# ---------------------------------------------------------------- C19
PL = 'slimta/relay/pool.py'
DQ = 'slimta/util/deque.py'
LC = 'slimta/relay/smtp/lmtpclient.py'
HT = 'slimta/relay/http.py'
M('c19-bound-ignored', 'C19', 'fire:L1',
  (PL, '''        if not self.pool_size or len(self.pool) < self.pool_size:
            self._add_client()''', '''        self._add_client()''', 1))
M('c19-bound-off-by-one', 'C19', 'fire:L1',
  (PL, '''len(self.pool) < self.pool_size:''',
   '''len(self.pool) <= self.pool_size:''', 1))
M('c19-idle-scan-dropped', 'C19', 'fire:L1',
  (PL, '''        for client in self.pool:
            if client.idle:
                return
''', '', 1))
M('c19-respawn-into-nonempty-pool', 'C19', 'fire:L1',
  (PL, '''        if len(self.queue) > 0 and not self.pool:''',
   '''        if len(self.queue) > 0:''', 1))
M('c19-no-respawn', 'C19', 'fire:L2',
  (PL, '''        self.pool.remove(client)
        if len(self.queue) > 0 and not self.pool:
            self._add_client()''', '''        self.pool.remove(client)''', 1))
M('c19-client-not-linked', 'C19', 'fire:L2',
  (PL, '''        client.link(self._remove_client)
''', '', 1))
M('c19-http-handler-swallows', 'C19', 'fire:L3',
  (HT, '''                    result.set_exception(TransientRelayError(msg))
                raise''', '''                    pass
                raise''', 1))
M('c19-smtp-generic-arm-dropped', 'C19', 'fire:L3',
  (RC, '''        except Exception as e:
            if not result.ready():
                result.set_exception(e)
            reraise = False
            raise
''', '', 1))
M('c19-smtp-sockerr-not-resolved', 'C19', 'fire:L3',
  (RC, '''                              address=self.address).copy(connection_failed)
                relay_error = SmtpRelayError.factory(reply)
                result.set_exception(relay_error)''',
   '''                              address=self.address).copy(connection_failed)
                relay_error = SmtpRelayError.factory(reply)''', 1))
M('c19-appendleft-no-release', 'C19', 'fire:L4',
  (DQ, '''        ret = super(BlockingDeque, self).appendleft(*args, **kwargs)
        self.sema.release()
        return ret''', '''        ret = super(BlockingDeque, self).appendleft(*args, **kwargs)
        return ret''', 1))
M('c19-pop-after-mutation', 'C19', 'fire:L4',
  (DQ, '''    def popleft(self, *args, **kwargs):
        self.sema.acquire()
        return super(BlockingDeque, self).popleft(*args, **kwargs)''',
   '''    def popleft(self, *args, **kwargs):
        ret = super(BlockingDeque, self).popleft(*args, **kwargs)
        self.sema.acquire()
        return ret''', 1))
M('c19-remove-acquire-first', 'C19', 'fire:L4',
  (DQ, '''        ret = super(BlockingDeque, self).remove(*args, **kwargs)
        self.sema.acquire()
        return ret''', '''        self.sema.acquire()
        return super(BlockingDeque, self).remove(*args, **kwargs)''', 1))
M('c19-insert-on-queue', 'C19', 'fire:L4',
  (RC, '''                    self.queue.appendleft((result, envelope))''',
   '''                    self.queue.insert(0, (result, envelope))''', 1))
M('c19-no-rset-after-failure', 'C19', 'fire:L5',
  (RC, '''        except SmtpRelayError as e:
            result.set_exception(e)
            self._rset()
        else:''', '''        except SmtpRelayError as e:
            result.set_exception(e)
        else:''', 1))
M('c19-lmtp-no-rset-on-rcpt-errors', 'C19', 'fire:L5',
  (LC, '''        if had_errors:
            self._rset()''', '''        pass''', 1))
M('c19-requeue-then-continue', 'C19', 'fire:L6',
  (RC, '''                    self.queue.appendleft((result, envelope))
                    break''', '''                    self.queue.appendleft((result, envelope))''', 1))
M('c19-twin-bound-early-return', 'C19', 'silent',
  (PL, '''        if not self.pool_size or len(self.pool) < self.pool_size:
            self._add_client()''', '''        if self.pool_size and len(self.pool) >= self.pool_size:
            return
        self._add_client()''', 1))

# ---------------------------------------------------------------- C11
PP = 'slimta/relay/pipe.py'
SR = 'slimta/relay/smtp/__init__.py'
MX = 'slimta/relay/smtp/mx.py'
M('c11-pipe-returns-error', 'C11', 'fire:N1',
  (PP, '''        if error is not None:
            raise error
        return None''', '''        return error''', 1))
M('c11-http-sets-exception-object', 'C11', 'fire:N1',
  (HT, '''            result.set_exception(exc)''', '''            result.set(exc)''', 1))
M('c11-banner-unchecked', 'C11', 'fire:N2',
  (RC, '''        if banner.is_error():
            raise SmtpRelayError.factory(banner)''', '''        pass''', 1))
M('c11-data-reply-unchecked', 'C11', 'fire:N2',
  (RC, '''        if data.is_error():
            raise SmtpRelayError.factory(data)''', '', 1))
M('c11-mailfrom-discarded', 'C11', 'fire:N2',
  (RC, '''            mailfrom = self.client.mailfrom(sender, auth=False)
        if mailfrom and mailfrom.is_error():
            raise SmtpRelayError.factory(mailfrom)
        return mailfrom''', '''            self.client.mailfrom(sender, auth=False)
        return Reply('250', 'ok')''', 1))
M('c11-set-in-error-arm', 'C11', 'fire:N3',
  (RC, '''        except SmtpRelayError as e:
            result.set_exception(e)
            self._rset()
        else:''', '''        except SmtpRelayError as e:
            msg_result = None
            self._rset()
        if True:''', 1))
M('c11-rejected-rcpt-not-recorded', 'C11', 'fire:N3',
  (RC, '''            if rcpt_reply.is_error():
                rcpt_results[rcpt] = SmtpRelayError.factory(rcpt_reply)''',
   '''            pass''', 1))
M('c11-lmtp-error-as-success', 'C11', 'fire:N3',
  (LC, '''            if reply.is_error():
                rcpt_results[rcpt] = SmtpRelayError.factory(reply)
                had_errors = True
            else:
                rcpt_results[rcpt] = reply''', '''            rcpt_results[rcpt] = reply''', 1))
M('c11-overwrite-failures', 'C11', 'fire:N3',
  (RC, '''                if value is None:
                    rcpt_results[key] = msg_result''',
   '''                rcpt_results[key] = msg_result''', 1))
M('c11-http-any-status-ok', 'C11', 'fire:N3',
  (HT, '''        if status.startswith('2'):
            result.set(smtp_reply)
        else:''', '''        if smtp_reply is None or not smtp_reply.is_error():
            result.set(smtp_reply)
        else:''', 1))
M('c11-pipe-ignores-status', 'C11', 'fire:N3',
  (PP, '''        if p.returncode != 0:
            # raise_error()''', '''        if stderr:
            # raise_error()''', 1))
M('c11-factory-inverted', 'C11', 'fire:N4',
  (SR, '''        if reply.code[0] == '5':''', '''        if reply.code[0] == '4':''', 1))
M('c11-dns-error-permanent', 'C11', 'fire:N4',
  (MX, '''                msg = 'DNS lookup failed'
                reply = Reply('451', '4.4.3 '+msg)
                raise TransientRelayError(msg, reply)''',
   '''                msg = 'DNS lookup failed'
                reply = Reply('551', '5.4.3 '+msg)
                raise PermanentRelayError(msg, reply)''', 1))
M('c11-maildrop-tempfail-permanent', 'C11', 'fire:N4',
  (PP, '''            error_msg = stderr[10:].rstrip()
        if status == self.EX_TEMPFAIL:''', '''            error_msg = stderr[10:].rstrip()
        if status != self.EX_TEMPFAIL:''', 1))
M('c11-smtperror-arm-dropped', 'C11', 'fire:N5',
  (RC, '''        except SmtpError as e:
            if not result.ready():
                reply = self._get_error_reply(e)
                relay_error = SmtpRelayError.factory(reply)
                result.set_exception(relay_error)
''', '''        except SmtpError as e:
            pass
''', 1))
M('c11-bytes-not-decoded', 'C11', 'fire:N6',
  (PP, '''            if isinstance(stdout, bytes):
                stdout = stdout.decode('utf-8', 'replace')
            if isinstance(stderr, bytes):
                stderr = stderr.decode('utf-8', 'replace')
''', '', 1))
M('c11-twin-check-inline', 'C11', 'silent',
  (RC, '''        if banner.is_error():
            raise SmtpRelayError.factory(banner)''',
   '''        self._raise_if_error(banner)

    def _raise_if_error(self, reply):
        if reply.is_error():
            raise SmtpRelayError.factory(reply)''', 1))

# ---------------------------------------------------------------- C01
Q = 'slimta/queue/__init__.py'
DS = 'slimta/diskstorage/__init__.py'
RS = 'slimta/redisstorage/__init__.py'
M('c01-transient-arm-removes', 'C01', 'fire:R1.1',
  (Q, '''        except TransientRelayError as e:
            self._pool_spawn('store', self._retry_later, id, envelope, e.reply)''',
   '''        except TransientRelayError as e:
            self._remove(id)''', 1))
M('c01-catchall-arm-dropped', 'C01', 'fire:R1.1',
  (Q, '''        except Exception as e:
            logging.log_exception(__name__)
            reply = Reply('450', '4.0.0 Unhandled delivery error: '+str(e))
            self._pool_spawn('store', self._retry_later, id, envelope, reply)
            raise
''', '', 1))
M('c01-catchall-swallows', 'C01', 'fire:R1.1',
  (Q, '''            reply = Reply('450', '4.0.0 Unhandled delivery error: '+str(e))
            self._pool_spawn('store', self._retry_later, id, envelope, reply)
            raise''', '''            raise''', 1))
M('c01-sequence-result-removed', 'C01', 'fire:R1.1',
  (Q, '''            elif isinstance(results, collections.abc.Sequence):
                # Not dict(): ``slimta.queue.dict`` shadows the builtin here.
                results = {rcpt: res for rcpt, res
                           in zip(envelope.recipients, results)}
                self._handle_partial_relay(id, envelope, attempts, results)
''', '', 1))
M('c01-perm-arm-retries-and-fails', 'C01', 'fire:R1.1',
  (Q, '''        except PermanentRelayError as e:
            self._perm_fail(id, envelope, e.reply)''',
   '''        except PermanentRelayError as e:
            self._perm_fail(id, envelope, e.reply)
            self._pool_spawn('store', self._retry_later, id, envelope, e.reply)''', 1))
M('c01-partial-removes-with-tempfails', 'C01', 'fire:R1.2',
  (Q, '''            self._retry_later(id, fail_env, replies, delivered)
        else:
            self.store.remove(id)''', '''            self._retry_later(id, fail_env, replies, delivered)
        self.store.remove(id)''', 1))
M('c01-remove-from-dequeue', 'C01', 'fire:R1.2',
  (Q, '''        except KeyError:
            return
        if id not in self.active_ids:''', '''        except KeyError:
            return
        if not envelope.recipients:
            self._remove(id)
            return
        if id not in self.active_ids:''', 1))
M('c01-exhaustion-no-bounce', 'C01', 'fire:R1.3',
  (Q, '''            for reply, group_env in self._split_by_reply(envelope, replies):
                reply.message += ' (Too many retries)'
                self._perm_fail(None, group_env, reply)
            self._remove(id)
            return False''', '''            self._remove(id)
            return False''', 1))
M('c01-retry-not-rescheduled', 'C01', 'fire:R1.3',
  (Q, '''                self.active_ids.discard(id)
                self._add_queued((when, id))
            return True''', '''                self.active_ids.discard(id)
            return True''', 1))
M('c01-retry-removes-anyway', 'C01', 'fire:R1.3',
  (Q, '''                self._add_queued((when, id))
            return True''', '''                self._add_queued((when, id))
            self._remove(id)
            return True''', 1))
M('c01-blackhole-returns-error', 'C01', 'fire:R1.4',
  ('slimta/relay/blackhole.py', '''        return Reply('250', msg)''',
   '''        from slimta.relay import TransientRelayError
        if attempts > 3:
            return TransientRelayError(msg)
        return Reply('250', msg)''', 1))
M('c01-transient-marked-delivered', 'C01', 'fire:R1.7',
  (Q, '''            elif isinstance(rcpt_res, TransientRelayError):
                tempfails.append((rcpt, rcpt_res.reply))''',
   '''            elif isinstance(rcpt_res, TransientRelayError):
                delivered.add(envelope.recipients.index(rcpt))
                tempfails.append((rcpt, rcpt_res.reply))''', 1))
M('c01-everything-else-delivered', 'C01', 'fire:R1.7',
  (Q, '''            if rcpt_res is None or isinstance(rcpt_res, Reply):
                delivered.add(envelope.recipients.index(rcpt))''',
   '''            if not isinstance(rcpt_res, Exception):
                delivered.add(envelope.recipients.index(rcpt))''', 1))
M('c01-twin-dispatch-early-returns', 'C01', 'silent',
  (Q, '''            if isinstance(results, collections.abc.Mapping):
                self._handle_partial_relay(id, envelope, attempts, results)
            elif isinstance(results, collections.abc.Sequence):
                # Not dict(): ``slimta.queue.dict`` shadows the builtin here.
                results = {rcpt: res for rcpt, res
                           in zip(envelope.recipients, results)}
                self._handle_partial_relay(id, envelope, attempts, results)
            else:
                self._remove(id)''', '''            if isinstance(results, collections.abc.Mapping):
                self._handle_partial_relay(id, envelope, attempts, results)
                return
            if isinstance(results, collections.abc.Sequence):
                results = {rcpt: res for rcpt, res
                           in zip(envelope.recipients, results)}
                self._handle_partial_relay(id, envelope, attempts, results)
                return
            self._remove(id)''', 1))

# ---------------------------------------------------------------- C03
M('c03-enqueue-no-inflight-test', 'C03', 'fire:R3.1',
  (Q, '''                if self.relay and id not in self.active_ids:''',
   '''                if self.relay:''', 1))
M('c03-dequeue-no-inflight-test', 'C03', 'fire:R3.1',
  (Q, '''        if id not in self.active_ids:
            self.active_ids.add(id)
            self._pool_spawn('relay', self._attempt, id, envelope, attempts)''',
   '''        self.active_ids.add(id)
        self._pool_spawn('relay', self._attempt, id, envelope, attempts)''', 1))
M('c03-dequeue-get-between', 'C03', 'fire:R3.1',
  (Q, '''        try:
            envelope, attempts = self.store.get(id)
        except KeyError:
            return
        if id not in self.active_ids:
            self.active_ids.add(id)''', '''        if id not in self.active_ids:
            try:
                envelope, attempts = self.store.get(id)
            except KeyError:
                return
            self.active_ids.add(id)''', 1))
M('c03-dequeue-mark-missing', 'C03', 'fire:R3.1',
  (Q, '''        if id not in self.active_ids:
            self.active_ids.add(id)
            self._pool_spawn('relay', self._attempt, id, envelope, attempts)''',
   '''        if id not in self.active_ids:
            self._pool_spawn('relay', self._attempt, id, envelope, attempts)''', 1))
M('c03-add-queued-ignores-active', 'C03', 'fire:R3.2',
  (Q, '''        if id not in self.queued_ids | self.active_ids:''',
   '''        if id not in self.queued_ids:''', 1))
M('c03-load-appends-directly', 'C03', 'fire:R3.2',
  (Q, '''        for entry in self.store.load():
            self._add_queued(entry)''', '''        for entry in self.store.load():
            self.queued.append(entry)''', 1))
M('c03-marks-after-requeue', 'C03', 'fire:R3.3',
  (Q, '''            try:
                if delivered is not None:
                    # Persist the settled recipients before the message can
                    # be dequeued for its next attempt.
                    self.store.set_recipients_delivered(id, delivered)
            finally:
                self.active_ids.discard(id)
                self._add_queued((when, id))''', '''            self.active_ids.discard(id)
            self._add_queued((when, id))
            if delivered is not None:
                self.store.set_recipients_delivered(id, delivered)''', 1))
M('c03-disk-get-forgets-marks', 'C03', 'fire:R3.5',
  (DS, '''        delivered_rcpts = meta.get('delivered_indexes', [])
        self._remove_delivered_rcpts(env, delivered_rcpts)
        return env, meta['attempts']''', '''        return env, meta['attempts']''', 1))
M('c03-redis-get-forgets-marks', 'C03', 'fire:R3.5',
  (RS, '''            self._remove_delivered_rcpts(envelope, delivered_indexes)''',
   '''            pass''', 1))
M('c03-ascending-deletion', 'C03', 'fire:R3.5',
  (Q, '''        for index in sorted(rcpt_indexes, reverse=True):''',
   '''        for index in sorted(rcpt_indexes):''', 1))
M('c03-twin-separate-membership-tests', 'C03', 'silent',
  (Q, '''        if id not in self.queued_ids | self.active_ids:''',
   '''        if id not in self.queued_ids and id not in self.active_ids:''', 1))

# ---------------------------------------------------------------- C12
M('c12-wait-under-lock', 'C12', 'fire:Q1',
  (Q, '''                self._check_ready(now)
            finally:
                self.queued_lock.release()
            # Wait without holding the lock, so that flush() never has to
            # wait for the scheduler to wake up.
            self._wait_ready(now)''', '''                self._check_ready(now)
                self._wait_ready(now)
            finally:
                self.queued_lock.release()''', 1))
M('c12-flush-keeps-ids', 'C12', 'fire:Q2',
  (Q, '''            self.queued = []
            self.queued_ids = set()''', '''            self.queued = []''', 1))
M('c12-check-ready-keeps-ids', 'C12', 'fire:Q2',
  (Q, '''            self.queued = self.queued[last_i:]
            self.queued_ids = set([id for _, id in self.queued])''',
   '''            self.queued = self.queued[last_i:]''', 1))
M('c12-add-queued-no-wake', 'C12', 'fire:Q3',
  (Q, '''            self.queued_ids.add(id)
            self.wake.set()''', '''            self.queued_ids.add(id)''', 1))
M('c12-wait-store-drops-entries', 'C12', 'fire:Q3',
  (Q, '''                for entry in self.store.wait():
                    self._add_queued(entry)''', '''                for entry in self.store.wait():
                    if entry[0] > time.time():
                        self._add_queued(entry)''', 1))
M('c12-requeue-before-unmark', 'C12', 'fire:Q4',
  (Q, '''                self.active_ids.discard(id)
                self._add_queued((when, id))''', '''                self._add_queued((when, id))
                self.active_ids.discard(id)''', 1))
M('c12-scan-continues-past-not-due', 'C12', 'fire:Q6',
  (Q, '''                last_i = i+1
            else:
                break''', '''                last_i = i+1
            else:
                continue''', 1))
M('c12-wait-unbounded', 'C12', 'fire:Q6',
  (Q, '''            self.wake.wait(first_timestamp-now)''',
   '''            self.wake.wait()''', 1))
# ---------------------------------------------------------------- C13
BO = 'slimta/bounce/__init__.py'
M('c13-bounce-null-sender', 'C13', 'fire:B1',
  (Q, '''        if envelope.sender:  # Can't bounce to null-sender.
            self._pool_spawn('bounce', self._bounce, envelope, reply)''',
   '''        self._pool_spawn('bounce', self._bounce, envelope, reply)''', 1))
M('c13-bounce-from-retry', 'C13', 'fire:B1',
  (Q, '''            when = time.time() + wait
            self.store.set_timestamp(id, when)''', '''            when = time.time() + wait
            if attempts > 5:
                self._bounce(envelope, replies)
            self.store.set_timestamp(id, when)''', 1))
M('c13-bounce-has-sender', 'C13', 'fire:B2',
  (BO, '''    #: this should usually be an empty string.
    sender = \'\'
''', '''    #: this should usually be an empty string.
    sender = 'MAILER-DAEMON@localhost'
''', 1))
M('c13-bounce-to-recipients', 'C13', 'fire:B2',
  (BO, '''recipients=[envelope.sender])''', '''recipients=envelope.recipients)''', 1))
M('c13-always-new-group', 'C13', 'fire:B3',
  (Q, '''            for reply, group_env in groups:
                if replies[i] == reply:
                    group_env.recipients.append(rcpt)
                    break
            else:
                group_env = envelope.copy([rcpt])
                groups.append((replies[i], group_env))''',
   '''            group_env = envelope.copy([rcpt])
            groups.append((replies[i], group_env))''', 1))
M('c13-no-break-after-match', 'C13', 'fire:B3',
  (Q, '''                    group_env.recipients.append(rcpt)
                    break''', '''                    group_env.recipients.append(rcpt)''', 1))
M('c13-partial-bounces-once', 'C13', 'fire:B3',
  (Q, '''            for reply, group_env in self._split_by_reply(fail_env, replies):
                self._perm_fail(None, group_env, reply)''',
   '''            groups = self._split_by_reply(fail_env, replies)
            self._perm_fail(None, groups[0][1], groups[0][0])''', 1))
M('c13-bounce-enqueued-on-self', 'C13', 'fire:B4',
  (Q, '''            return self.bounce_queue.enqueue(bounce)''',
   '''            return self.enqueue(bounce)''', 1))
M('c13-twin-guard-early-return', 'C13', 'silent',
  (Q, '''        if envelope.sender:  # Can't bounce to null-sender.
            self._pool_spawn('bounce', self._bounce, envelope, reply)''',
   '''        if not envelope.sender:
            return
        self._pool_spawn('bounce', self._bounce, envelope, reply)''', 1))

# ---------------------------------------------------------------- C02
ES = 'slimta/edge/smtp.py'
EW = 'slimta/edge/wsgi.py'
PQ = 'slimta/queue/proxy.py'
M('c02-smtp-first-result-only', 'C02', 'fire:R2.1',
  (ES, '''        for _, result in results:
            if isinstance(result, QueueError):''', '''        for result in [results[0][1]]:
            if isinstance(result, QueueError):''', 1))
M('c02-wsgi-first-result-only', 'C02', 'fire:R2.1',
  (EW, '''        for _, result in results:
            if isinstance(result, QueueError):
                default_reply = Reply('451', '4.3.0 Error queuing message')
                reply = getattr(result, 'reply', default_reply)
                raise _build_http_response(reply)
            elif isinstance(result, RelayError):
                relay_reply = result.reply
                raise _build_http_response(relay_reply)''',
   '''        result = results[0][1]
        if isinstance(result, QueueError):
            default_reply = Reply('451', '4.3.0 Error queuing message')
            reply = getattr(result, 'reply', default_reply)
            raise _build_http_response(reply)
        elif isinstance(result, RelayError):
            relay_reply = result.reply
            raise _build_http_response(relay_reply)''', 1))
M('c02-smtp-relayerror-ignored', 'C02', 'fire:R2.1',
  (ES, '''            elif isinstance(result, RelayError):
                relay_reply = result.reply
                reply.copy(relay_reply)
                break
''', '', 1))
M('c02-imap-no-join', 'C02', 'fire:R2.2',
  (Q, '''        for thread in threads:
            thread.join()
            ret.append(thread.exception or thread.value)''',
   '''        for thread in threads:
            ret.append(thread.exception or thread.value)''', 1))
M('c02-imap-stop-at-first-error', 'C02', 'fire:R2.2',
  (Q, '''            thread.join()
            ret.append(thread.exception or thread.value)''',
   '''            thread.join()
            ret.append(thread.exception or thread.value)
            if thread.exception:
                break''', 1))
M('c02-enqueue-spawns-writes', 'C02', 'fire:R2.2',
  (Q, '''        ids = self._pool_imap('store', self.store.write, envelopes,
                              repeat(now))''', '''        ids = [self._pool_spawn('store', self.store.write, env, now)
               for env in envelopes]''', 1))
M('c02-reply-before-handler', 'C02', 'fire:R2.3',
  (SRV, '''        self._call_custom_handler('HAVE_DATA', reply, data, err)

        self.io.send_reply(reply)
        self.io.flush_send()''', '''        self.io.send_reply(reply)
        self.io.flush_send()
        self._call_custom_handler('HAVE_DATA', reply, data, err)''', 1))
M('c02-proxy-ignores-result', 'C02', 'fire:R2.4',
  (PQ, '''            results = self.relay._attempt(envelope, 0)''',
   '''            self.relay._attempt(envelope, 0)
            results = None''', 1))
M('c02-proxy-no-entry-test', 'C02', 'fire:R2.4',
  (PQ, '''            for rcpt_result in results:
                if isinstance(rcpt_result, RelayError):
                    return [(envelope, rcpt_result)]''', '''            pass''', 1))
M('c02-twin-any-scan', 'C02', 'silent',
  (ES, '''            elif isinstance(result, RelayError):
                relay_reply = result.reply
                reply.copy(relay_reply)
                break''', '''            if isinstance(result, RelayError):
                reply.copy(result.reply)
                break''', 1))

# ---------------------------------------------------------------- C05 / C09
DR = 'slimta/smtp/datareader.py'
M('c09-eod-truthiness', 'C09', 'fire:G4',
  (DR, '''        if self.EOD is None:
            # Check for the End-Of-Data marker.''', '''        if not self.EOD:
            # Check for the End-Of-Data marker.''', 1))
M('c05-eod-truthiness-return', 'C05', 'fire:R5.1',
  (DR, '''        return self.EOD is None''', '''        return not self.EOD''', 1))
M('c05-undot-outside-guard', 'C05', 'fire:R5.1',
  (DR, '''            elif line[0:1] == b'.':  # line[0] is an integer
                line = line[1:]
                self.lines[i] = line''', '''        if line[0:1] == b'.' and self.EOD != i:
            line = line[1:]
            self.lines[i] = line''', 1))
M('c05-return-all-keeps-eod-line', 'C05', 'fire:R5.3',
  (DR, '''        after_data_lines = self.lines[self.EOD+1:]''',
   '''        after_data_lines = self.lines[self.EOD:]''', 1))
M('c05-return-all-drops-leftover', 'C05', 'fire:R5.3',
  (DR, '''        self.io.recv_buffer = b''.join(after_data_lines)
''', '', 1))
M('c05-buffer-not-cleared', 'C05', 'fire:R5.3',
  (DR, '''        buffered = self.io.recv_buffer
        self.io.recv_buffer = b\'\'
        self.add_lines(buffered)''', '''        buffered = self.io.recv_buffer
        self.add_lines(buffered)''', 1))
M('c05-buffer-not-taken', 'C05', 'fire:R5.3',
  (DR, '''        self.from_recv_buffer()
        while self.recv_piece():''', '''        while self.recv_piece():''', 1))
M('c09-second-socket-reader', 'C09', 'fire:G1',
  (DR, '''        piece = self.io.raw_recv()''',
   '''        piece = self.io.socket.recv(4096)''', 1))
M('c09-auth-reads-raw', 'C09', 'fire:G1',
  ('slimta/smtp/auth.py', '''            response = self.io.recv_line()''',
   '''            response = self.io.raw_recv().rstrip()''', 1))
M('c09-recv-line-consumes-partial', 'C09', 'fire:G2',
  (IOF, '''            match = line_pattern.match(input)
            if match:
                self.recv_buffer = input[match.end(0):]
                return match.group(1)
            self.buffered_recv()''', '''            match = line_pattern.match(input)
            if match:
                self.recv_buffer = input[match.end(0):]
                return match.group(1)
            if len(input) > 1000:
                self.recv_buffer = input[1000:]
                return input[:1000]
            self.buffered_recv()''', 1))
M('c09-line-pattern-no-newline', 'C09', 'fire:G2',
  (IOF, '''line_pattern = re.compile(br'(.*?)\\r?\\n')''',
   '''line_pattern = re.compile(br'(.*?)\\r?\\n?')''', 1))
M('c09-toobig-session-continues', 'C09', 'fire:G5',
  (SRV, '''        if err is not None:
            # The reader gave up in the middle of the message. What is left
            # of it on the wire must not be read as commands.
            raise StopIteration()
''', '', 1))
M('c09-twin-eod-helper', 'C09', 'silent',
  (DR, '''        if self.EOD is not None:
            return False

        piece = self.io.raw_recv()''', '''        if self._seen_eod():
            return False

        piece = self.io.raw_recv()''', 1),
  (DR, '''    def return_all(self):''', '''    def _seen_eod(self):
        return self.EOD is not None

    def return_all(self):''', 1))

# ---------------------------------------------------------------- C04
M('c04-write-final-path-directly', 'C04', 'fire:R4.1',
  (DS, '''        final_path = os.path.join(self.meta_dir, id+'.meta')
        AioFile(final_path, self.tmp_dir).pickle_dump(meta)''',
   '''        final_path = os.path.join(self.meta_dir, id+'.meta')
        with open(final_path, 'wb') as f:
            f.write(pickle.dumps(meta, pickle.HIGHEST_PROTOCOL))''', 1))
M('c04-rename-before-writes', 'C04', 'fire:R4.1',
  (DS, '''        try:
            while True:
                ret = self._write_piece(fd, data_view, data_len, offset)
                offset += ret
                if offset >= data_len:
                    break
            os.rename(filename, self.path)''', '''        try:
            os.rename(filename, self.path)
            while True:
                ret = self._write_piece(fd, data_view, data_len, offset)
                offset += ret
                if offset >= data_len:
                    break''', 1))
M('c04-rename-in-finally', 'C04', 'fire:R4.1',
  (DS, '''            os.rename(filename, self.path)
        finally:
            os.close(fd)''', '''        finally:
            os.rename(filename, self.path)
            os.close(fd)''', 1))
M('c04-single-short-write', 'C04', 'fire:R4.1',
  (DS, '''            while True:
                ret = self._write_piece(fd, data_view, data_len, offset)
                offset += ret
                if offset >= data_len:
                    break
            os.rename''', '''            ret = self._write_piece(fd, data_view, data_len, offset)
            offset += ret
            os.rename''', 1))
M('c04-tempfile-in-final-dir', 'C04', 'fire:R4.1',
  (DS, '''        fd, filename = mkstemp(dir=self.tmp_dir)''',
   '''        fd, filename = mkstemp(dir=os.path.dirname(self.path))''', 1))
M('c04-meta-before-env', 'C04', 'fire:R4.2',
  (DS, '''                self.ops.write_env(id, envelope)
                self.ops.write_meta(id, meta)''', '''                self.ops.write_meta(id, meta)
                self.ops.write_env(id, envelope)''', 1))
M('c04-id-returned-before-meta', 'C04', 'fire:R4.2',
  (DS, '''                self.ops.write_env(id, envelope)
                self.ops.write_meta(id, meta)
                log.write(id, envelope)
                return id''', '''                self.ops.write_env(id, envelope)
                gevent.spawn(self.ops.write_meta, id, meta)
                log.write(id, envelope)
                return id''', 1))
M('c04-load-no-per-id-try', 'C04', 'fire:R4.4',
  (DS, '''            try:
                meta = self.ops.read_meta(id)
                yield (meta['timestamp'], id)
            except OSError:
                logging.log_exception(__name__, queue_id=id)''',
   '''            meta = self.ops.read_meta(id)
            yield (meta['timestamp'], id)''', 1))
M('c04-load-handler-reraises', 'C04', 'fire:R4.4',
  (DS, '''            except OSError:
                logging.log_exception(__name__, queue_id=id)''',
   '''            except OSError:
                logging.log_exception(__name__, queue_id=id)
                raise''', 1))
M('c04-remove-keeps-env', 'C04', 'fire:R4.5',
  (DS, '''        self.ops.delete_env(id)
        self.ops.delete_meta(id)
        log.remove(id)''', '''        self.ops.delete_meta(id)
        log.remove(id)''', 1))
M('c04-delete-not-tolerant', 'C04', 'fire:R4.5',
  (DS, '''        env_path = os.path.join(self.env_dir, id+'.env')
        try:
            os.remove(env_path)
        except OSError:
            pass''', '''        env_path = os.path.join(self.env_dir, id+'.env')
        os.remove(env_path)''', 1))
M('c04-twin-load-helper', 'C04', 'silent',
  (DS, '''            try:
                meta = self.ops.read_meta(id)
                yield (meta['timestamp'], id)
            except OSError:
                logging.log_exception(__name__, queue_id=id)''',
   '''            try:
                meta = self.ops.read_meta(id)
            except (IOError, OSError):
                logging.log_exception(__name__, queue_id=id)
                continue
            yield (meta['timestamp'], id)''', 1))

# ---------------------------------------------------------------- C10
CL = 'slimta/smtp/client.py'
M('c10-pop-from-back', 'C10', 'fire:F1',
  (CL, '''                reply = self.reply_queue.pop(0)''',
   '''                reply = self.reply_queue.pop()''', 1))
M('c10-relay-touches-queue', 'C10', 'fire:F1',
  (RC, '''        self.client._flush_pipeline()''',
   '''        self.client._flush_pipeline()
        del self.client.reply_queue[:]''', 1))
M('c10-rcptto-no-reply-queued', 'C10', 'fire:F2',
  (CL, '''        rcptto = Reply(command=b'RCPT')
        self.reply_queue.append(rcptto)

        command = b''.join((b'RCPT TO:<', self._encode(address), b'>'))''',
   '''        rcptto = Reply(command=b'RCPT')

        command = b''.join((b'RCPT TO:<', self._encode(address), b'>'))''', 1))
M('c10-mailfrom-double-append', 'C10', 'fire:F2',
  (CL, '''        if auth is not None and 'AUTH' in self.extensions:
            authed = b'<>' if auth is False else self._xtext(auth)
            command += b' AUTH=' + authed''', '''        if auth is not None and 'AUTH' in self.extensions:
            authed = b'<>' if auth is False else self._xtext(auth)
            command += b' AUTH=' + authed
            self.reply_queue.append(mailfrom)''', 1))
M('c10-lmtp-reply-for-rejected-rcpt', 'C10', 'fire:F2',
  (CL, '''        for address, rcptto_reply in self.rcpttos:
            if rcptto_reply.code.startswith('2'):
                data_reply = Reply(command=b'[SEND_DATA]')
                self.reply_queue.append(data_reply)
                ret.append((address, data_reply))
        self.rcpttos = []

        data_sender = DataSender(*data)''', '''        for address, rcptto_reply in self.rcpttos:
            data_reply = Reply(command=b'[SEND_DATA]')
            self.reply_queue.append(data_reply)
            ret.append((address, data_reply))
        self.rcpttos = []

        data_sender = DataSender(*data)''', 1))
M('c10-custom-command-no-flush', 'C10', 'fire:F3',
  (CL, '''        self.io.send_command(command)

        self._flush_pipeline()

        return custom''', '''        self.io.send_command(command)

        return custom''', 1))
M('c10-rcptto-never-flushes', 'C10', 'fire:F3',
  (CL, '''        command = b''.join((b'RCPT TO:<', self._encode(address), b'>'))
        self.io.send_command(command)

        if 'PIPELINING' not in self.extensions:
            self._flush_pipeline()''', '''        command = b''.join((b'RCPT TO:<', self._encode(address), b'>'))
        self.io.send_command(command)''', 1))
M('c10-auth-without-flush', 'C10', 'fire:F3',
  (CL, '''        self._flush_pipeline()
        if 'AUTH' not in self.extensions:''', '''        if 'AUTH' not in self.extensions:''', 1))
M('c10-drain-reads-twice', 'C10', 'fire:F4',
  (CL, '''            reply.recv(self.io)
            if reply.is_error():
                self.last_error = reply''', '''            reply.recv(self.io)
            if reply.code == '250' and reply.message.endswith('-'):
                reply.recv(self.io)
            if reply.is_error():
                self.last_error = reply''', 1))
M('c10-drain-before-flush', 'C10', 'fire:F4',
  (CL, '''    def _flush_pipeline(self):
        self.io.flush_send()
        while True:''', '''    def _flush_pipeline(self):
        while True:''', 1))
M('c10-lmtp-rset-keeps-rcpttos', 'C10', 'fire:F5',
  (CL, '''        reply = super(LmtpClient, self).rset()
        self.rcpttos = []
        return reply''', '''        reply = super(LmtpClient, self).rset()
        return reply''', 1))
M('c10-lmtp-senddata-keeps-rcpttos', 'C10', 'fire:F5',
  (CL, '''                ret.append((address, data_reply))
        self.rcpttos = []

        data_sender = DataSender(*data)''', '''                ret.append((address, data_reply))

        data_sender = DataSender(*data)''', 1))
M('c10-twin-flush-helper', 'C10', 'silent',
  (CL, '''        self.io.send_command(command)

        self._flush_pipeline()

        return custom''', '''        self.io.send_command(command)
        self._sync()
        return custom

    def _sync(self):
        self._flush_pipeline()''', 1))

# ---------------------------------------------------------------- C18
PX = 'slimta/util/proxyproto.py'
M('c18-recv-into-no-count', 'C18', 'fire:V1',
  (PX, '''            read_n = sock.recv_into(where, try_read)''',
   '''            read_n = sock.recv_into(where)''', 1))
M('c18-line-buffer-too-big', 'C18', 'fire:V1',
  (PX, '''        buf = bytearray(107)''', '''        buf = bytearray(1024)''', 1))
M('c18-initial-uses-recv', 'C18', 'fire:V1',
  (PX, '''            where = memoryview(buf)[len(read):]  # type: ignore
            read_n = sock.recv_into(where, 8-len(read))
            assert read_n, 'Received EOF during proxy protocol header'
            read_view = memoryview(buf)[0:len(read)+read_n]  # type: ignore
            read = read_view.tobytes()
        return read

    @classmethod
    def mixin(cls, edge):
        """Dynamically mix-in the :class:`ProxyProtocol` class''',
   '''            read += sock.recv(4096)
        return read

    @classmethod
    def mixin(cls, edge):
        """Dynamically mix-in the :class:`ProxyProtocol` class''', 1))
M('c18-v2-fixed-header-32', 'C18', 'fire:V1',
  (PX, '''            data = cls.__read_pp_data(sock, 16, initial)''',
   '''            data = cls.__read_pp_data(sock, 32, initial)''', 1))
M('c18-nul-address-escapes', 'C18', 'fire:V2',
  (PX, '''        except (ValueError, socket.error):
            # ValueError covers UnicodeDecodeError and embedded null bytes.''',
   '''        except (UnicodeDecodeError, socket.error):''', 1))
M('c18-port-valueerror-escapes', 'C18', 'fire:V2',
  (PX, '''        try:
            port_num = int(port_string)
        except ValueError:
            msg = 'Invalid proxy protocol {0} port format'.format(which)
            raise AssertionError(msg)''', '''        port_num = int(port_string)''', 1))
M('c18-struct-error-escapes', 'C18', 'fire:V2',
  (PX, '''        except struct.error:
            raise AssertionError('Invalid proxy protocol data')''',
   '''        except ZeroDivisionError:
            raise AssertionError('Invalid proxy protocol data')''', 1))
M('c18-invalid-header-drops-connection', 'C18', 'fire:V3',
  (PX, '''        except AssertionError as exc:
            log.proxyproto_invalid(sock, exc)
            src_addr = invalid_pp_source_address
        else:
            log.proxyproto_success(sock, src_addr)
        super_obj = super(ProxyProtocolV1, self)''', '''        except AssertionError as exc:
            log.proxyproto_invalid(sock, exc)
            return
        else:
            log.proxyproto_success(sock, src_addr)
        super_obj = super(ProxyProtocolV1, self)''', 1))
M('c18-local-connection-handled', 'C18', 'fire:V3',
  (PX, '''        except LocalConnection:
            log.proxyproto_local(sock)
            return
        except AssertionError as exc:
            log.proxyproto_invalid(sock, exc)
            src_addr = invalid_pp_source_address
        else:
            log.proxyproto_success(sock, src_addr)
        super_obj = super(ProxyProtocolV2, self)''', '''        except LocalConnection:
            log.proxyproto_local(sock)
            src_addr = unknown_pp_source_address
        except AssertionError as exc:
            log.proxyproto_invalid(sock, exc)
            src_addr = invalid_pp_source_address
        else:
            log.proxyproto_success(sock, src_addr)
        super_obj = super(ProxyProtocolV2, self)''', 1))
M('c18-signature-prefix-mismatch', 'C18', 'fire:V3',
  (PX, '''            elif initial == b'\\r\\n\\r\\n\\x00\\r\\nQ':''',
   '''            elif initial == b'\\r\\n\\r\\n\\x00\\r\\nq':''', 1))

# ---------------------------------------------------------------- C15
CS = 'slimta/cloudstorage/__init__.py'
AWS = 'slimta/cloudstorage/aws.py'
QD = 'slimta/queue/dict.py'
M('c15-redis-no-remove', 'C15', 'fire:I1',
  (RS, '''    def remove(self, id):
        self.redis.delete(self._get_key(id))
        log.remove(id)

''', '', 1))
M('c15-dict-increment-returns-old', 'C15', 'fire:I2',
  (QD, '''        log.update_meta(id, attempts=new_attempts)
        return new_attempts''', '''        log.update_meta(id, attempts=new_attempts)
        return meta''', 1))
M('c15-disk-increment-no-return', 'C15', 'fire:I2',
  (DS, '''        log.update_meta(id, attempts=new_attempts)
        return new_attempts''', '''        log.update_meta(id, attempts=new_attempts)''', 1))
M('c15-dict-get-envelope-only', 'C15', 'fire:I2',
  (QD, '''        return self.env_db[id], meta['attempts']''',
   '''        return self.env_db[id]''', 1))
M('c15-aws-unpacks-dict', 'C15', 'fire:I2',
  (AWS, '''            meta = self.get_message_meta(id)
            yield (meta['timestamp'], id)''', '''            timestamp, attempts = self.get_message_meta(id)
            yield (timestamp, id)''', 1))
M('c15-cloud-attempts-subscript', 'C15', 'fire:I3',
  (CS, '''        new_attempts = meta.get('attempts', 0) + 1''',
   '''        new_attempts = meta['attempts'] + 1''', 1))
M('c15-dict-no-collision-test', 'C15', 'fire:I4',
  (QD, '''            if id not in self.env_db:
                self.env_db[id] = envelope
                self.meta_db[id] = {'timestamp': timestamp, 'attempts': 0}
                log.write(id, envelope)
                return id''', '''            self.env_db[id] = envelope
            self.meta_db[id] = {'timestamp': timestamp, 'attempts': 0}
            log.write(id, envelope)
            return id''', 1))
M('c15-disk-no-collision-test', 'C15', 'fire:I4',
  (DS, '''            if not self.ops.check_exists(id):
                self.ops.write_env(id, envelope)''', '''            if True:
                self.ops.write_env(id, envelope)''', 1))
M('c15-cloud-get-forgets-marks', 'C15', 'fire:I6',
  (CS, '''        delivered_rcpts = meta.get('delivered_indexes', [])
        self._remove_delivered_rcpts(envelope, delivered_rcpts)
        return envelope, meta.get('attempts', 0)''',
   '''        return envelope, meta.get('attempts', 0)''', 1))

# ---------------------------------------------------------------- C16
SP = 'slimta/policy/split.py'
HD = 'slimta/policy/headers.py'
FW = 'slimta/policy/forward.py'
ENV = 'slimta/envelope/__init__.py'
M('c16-split-skips-first', 'C16', 'fire:P1',
  (SP, '''        for rcpt in envelope.recipients:
            new_env = envelope.copy([rcpt])
            ret.append(new_env)''', '''        for rcpt in envelope.recipients:
            if rcpt == envelope.recipients[0] and ret:
                continue
            new_env = envelope.copy([rcpt])
            ret.append(new_env)''', 1))
M('c16-domain-bad-rcpt-dropped', 'C16', 'fire:P1',
  (SP, '''            except ValueError:
                bad_rcpts.append(rcpt)''', '''            except ValueError:
                pass''', 1))
M('c16-domain-no-bad-rcpt-copies', 'C16', 'fire:P1',
  (SP, '''        for bad_rcpt in bad_rcpts:
            self._append_envelope_copy(envelope, ret, [bad_rcpt])
''', '', 1))
M('c16-split-keeps-original-too-often', 'C16', 'fire:P1',
  (SP, '''        if len(envelope.recipients) <= 1:
            return''', '''        if len(envelope.recipients) <= 2:
            return''', 1))
M('c16-shallow-copy', 'C16', 'fire:P2',
  (ENV, '''        new_env = copy.deepcopy(self)''', '''        new_env = copy.copy(self)''', 1))
M('c16-shared-rcpt-list', 'C16', 'fire:P2',
  (SP, '''        ret = []
        for rcpt in envelope.recipients:
            new_env = envelope.copy([rcpt])
            ret.append(new_env)''', '''        ret = []
        shared = list(envelope.recipients)
        for rcpt in envelope.recipients:
            new_env = envelope.copy(shared)
            ret.append(new_env)''', 1))
M('c16-date-unconditional', 'C16', 'fire:P3',
  (HD, '''        if 'date' not in envelope.headers:
            envelope.headers['Date'] = self.build_date(envelope.timestamp)''',
   '''        envelope.headers['Date'] = self.build_date(envelope.timestamp)''', 1))
M('c16-received-appended', 'C16', 'fire:P3',
  (HD, '''        envelope.prepend_header('Received', data)''',
   '''        envelope.headers['Received'] = data''', 1))
M('c16-prepend-at-end', 'C16', 'fire:P3',
  (ENV, '''        self.headers._headers.insert(0, (name, value))''',
   '''        self.headers._headers.insert(len(self.headers._headers), (name, value))''', 1))
M('c16-forward-overwrites-unmatched', 'C16', 'fire:P4',
  (FW, '''                if new_rcpt and changes > 0:''', '''                if new_rcpt:''', 1))
M('c16-forward-no-break', 'C16', 'fire:P4',
  (FW, '''                    envelope.recipients[i] = new_rcpt
                    break''', '''                    envelope.recipients[i] = new_rcpt
                    old_rcpt = new_rcpt''', 1))
M('c16-policies-original-kept', 'C16', 'fire:P5',
  (Q, '''            if ret:
                results.remove(current)
                results.extend(ret)''', '''            if ret:
                results.extend(ret)''', 1))
M('c16-policies-skip-next', 'C16', 'fire:P5',
  (Q, '''                for env in ret:
                    recurse(env, i+1)''', '''                for env in ret:
                    recurse(env, i+2)''', 1))
M('c16-policies-stop-on-none', 'C16', 'fire:P5',
  (Q, '''            else:
                recurse(current, i+1)
        recurse(envelope, 0)''', '''        recurse(envelope, 0)''', 1))

# ------------------------------------------------- more silent twins
M('c04-twin-get-ids-splitext', 'C04', 'silent',
  (DS, '''        return [fn[:-4] for fn in os.listdir(self.env_dir)
                if fn.endswith('.env')]''', '''        ids = []
        for fn in os.listdir(self.env_dir):
            base, ext = os.path.splitext(fn)
            if ext == '.env':
                ids.append(base)
        return ids''', 1))
M('c18-twin-named-constant', 'C18', 'silent',
  (PX, '''        buf = bytearray(107)''', '''        buf = bytearray(PP_V1_MAX_LINE)''', 1),
  (PX, '''class LocalConnection(Exception):''', '''PP_V1_MAX_LINE = 107


class LocalConnection(Exception):''', 1))
M('c19-twin-extend-count', 'C19', 'silent',
  (DQ, '''    def extend(self, *args, **kwargs):
        pre_n = len(self)
        ret = super(BlockingDeque, self).extend(*args, **kwargs)
        post_n = len(self)
        for i in range(pre_n, post_n):
            self.sema.release()
        return ret''', '''    def extend(self, *args, **kwargs):
        pre_n = len(self)
        ret = super(BlockingDeque, self).extend(*args, **kwargs)
        added = len(self) - pre_n
        for i in range(added):
            self.sema.release()
        return ret''', 1))
M('c05-twin-explicit-zero-slice', 'C05', 'silent',
  (DR, '''        data_lines = self.lines[:self.EOD]''',
   '''        data_lines = self.lines[0:self.EOD]''', 1))
M('c14-twin-handle-timeout-helper', 'C14', 'silent',
  (SRV, '''            except Timeout:
                timed_out.send(self.io)
                self.io.flush_send()
                raise ConnectionLost()''', '''            except Timeout:
                self._reply_timed_out()
                raise ConnectionLost()''', 1),
  (SRV, '''    def _gather_params(self, remaining):''', '''    def _reply_timed_out(self):
        timed_out.send(self.io)
        self.io.flush_send()

    def _gather_params(self, remaining):''', 1))
M('c07-twin-reset-in-finally', 'C07', 'silent',
  (SRV, '''        self.io.send_reply(reply)
        self.io.flush_send()

        self.have_mailfrom = None
        self.have_rcptto = None
''', '''        self.have_mailfrom = None
        self.have_rcptto = None

        self.io.send_reply(reply)
        self.io.flush_send()
''', 1))
M('c12-twin-retry-order-extra-log', 'C12', 'silent',
  (Q, '''            when = time.time() + wait
            self.store.set_timestamp(id, when)''', '''            when = time.time() + wait
            logging.getQueueStorageLogger(__name__)
            self.store.set_timestamp(id, when)''', 1))
M('c11-twin-factory-elif', 'C11', 'silent',
  (SR, '''        if reply.code[0] == '5':
            return SmtpPermanentRelayError(reply)
        else:
            return SmtpTransientRelayError(reply)''', '''        if reply.code[0] != '5':
            return SmtpTransientRelayError(reply)
        return SmtpPermanentRelayError(reply)''', 1))
M('c01-twin-perm-fail-guard-order', 'C01', 'silent',
  (Q, '''        if id is not None:
            self._remove(id)
        if envelope.sender:  # Can't bounce to null-sender.
            self._pool_spawn('bounce', self._bounce, envelope, reply)''',
   '''        if envelope.sender:  # Can't bounce to null-sender.
            self._pool_spawn('bounce', self._bounce, envelope, reply)
        if id is None:
            return
        self._remove(id)''', 1))
M('c02-twin-enumerate-scan', 'C02', 'silent',
  (EW, '''        for _, result in results:
            if isinstance(result, QueueError):''', '''        for pair in results:
            result = pair[1]
            if isinstance(result, QueueError):''', 1))


# ------------------------------------------ C12 after the bounded-pool fix
M('c12-kept-part-not-complement', 'C12', 'fire:Q5',
  (Q, '''            ready = self.queued[:last_i]
            self.queued = self.queued[last_i:]''', '''            ready = self.queued[:last_i]
            self.queued = self.queued[last_i+1:]''', 1))
M('c12-ready-not-all-dispatched', 'C12', 'fire:Q5',
  (Q, '''            for _, entry_id in ready:
                self._pool_spawn('store', self._dequeue, entry_id)''', '''            for _, entry_id in ready:
                if entry_id not in self.active_ids:
                    self._pool_spawn('store', self._dequeue, entry_id)''', 1))
M('c12-dispatch-inside-scan', 'C12', 'fire:Q7',
  (Q, '''            if now >= timestamp:
                last_i = i+1
            else:
                break''', '''            if now >= timestamp:
                self._pool_spawn('store', self._dequeue, entry_id)
                last_i = i+1
            else:
                break''', 1),
  (Q, '''            for _, entry_id in ready:
                self._pool_spawn('store', self._dequeue, entry_id)
''', '''''', 1))
M('c12-flush-iterates-shared-list', 'C12', 'fire:Q7',
  (Q, '''            entries = self.queued
            self.queued = []
            self.queued_ids = set()
            for entry in entries:
                self._pool_spawn('store', self._dequeue, entry[1])''', '''            for entry in self.queued:
                self._pool_spawn('store', self._dequeue, entry[1])
            self.queued = []
            self.queued_ids = set()''', 1))
M('c12-dispatch-early', 'C12', 'fire:Q6',
  (Q, '''            if now >= timestamp:
                last_i = i+1''', '''            if now >= timestamp or i == 0:
                last_i = i+1''', 1))
M('c12-twin-check-ready-early-break', 'C12', 'silent',
  (Q, '''            if now >= timestamp:
                last_i = i+1
            else:
                break''', '''            if timestamp > now:
                break
            last_i = i+1''', 1))
M('c01-dict-builtin-shadowed', 'C01', 'fire:R1.10',
  (Q, '''                results = {rcpt: res for rcpt, res
                           in zip(envelope.recipients, results)}''', '''                results = dict(zip(envelope.recipients, results))''', 1))
M('c13-bounce-queue-by-truthiness', 'C13', 'fire:B4',
  (Q, '''        self.bounce_queue = self if bounce_queue is None else bounce_queue''', '''        self.bounce_queue = bounce_queue or self''', 1))
M('c01-permfails-only-without-tempfails', 'C01', 'fire:R1.8',
  (Q, '''        if permfails:
            rcpts, replies = zip(*permfails)
            fail_env = envelope.copy(rcpts)
            for reply, group_env in self._split_by_reply(fail_env, replies):
                self._perm_fail(None, group_env, reply)
        if tempfails:
            rcpts, replies = zip(*tempfails)
            fail_env = envelope.copy(rcpts)
            self._retry_later(id, fail_env, replies, delivered)
        else:
            self.store.remove(id)''', '''        if tempfails:
            rcpts, replies = zip(*tempfails)
            fail_env = envelope.copy(rcpts)
            self._retry_later(id, fail_env, replies, delivered)
            return
        if permfails:
            rcpts, replies = zip(*permfails)
            fail_env = envelope.copy(rcpts)
            for reply, group_env in self._split_by_reply(fail_env, replies):
                self._perm_fail(None, group_env, reply)
        self.store.remove(id)''', 1))


# =================================================================== round 2
# rules added after the second round of seeded changes: must-fire mutants and
# behaviour-preserving twins
HTTPM = 'slimta/http/__init__.py'
DSN = 'slimta/smtp/datasender.py'
RP = 'slimta/smtp/reply.py'

# ---- C03 R3.6 / R3.7
M('c03-position-counts-settled', 'C03', 'fire:R3.6',
  (Q, '''            if rcpt_res is None or isinstance(rcpt_res, Reply):
                delivered.add(envelope.recipients.index(rcpt))''',
   '''            if rcpt_res is None or isinstance(rcpt_res, Reply):
                delivered.add(len(delivered))''', 1))
M('c03-twin-position-via-local', 'C03', 'silent',
  (Q, '''            if rcpt_res is None or isinstance(rcpt_res, Reply):
                delivered.add(envelope.recipients.index(rcpt))''',
   '''            if rcpt_res is None or isinstance(rcpt_res, Reply):
                pos = envelope.recipients.index(rcpt)
                delivered.add(pos)''', 1))
M('c03-mark-released-before-timestamp', 'C03', 'fire:R3.7',
  (Q, '''        attempts = self.store.increment_attempts(id)
        wait = self.backoff(envelope, attempts)''',
   '''        attempts = self.store.increment_attempts(id)
        self.active_ids.discard(id)
        wait = self.backoff(envelope, attempts)''', 1))
M('c03-twin-remove-order', 'C03', 'silent',
  (Q, '''        self._pool_spawn('store', self._remove_stored, id)
        self.queued_ids.discard(id)''',
   '''        self.queued_ids.discard(id)
        self._pool_spawn('store', self._remove_stored, id)''', 1))
M('c03-mark-released-when-removal-starts', 'C03', 'fire:R3.7',
  (Q, '''        self._pool_spawn('store', self._remove_stored, id)
        self.queued_ids.discard(id)''',
   '''        self._pool_spawn('store', self._remove_stored, id)
        self.queued_ids.discard(id)
        self.active_ids.discard(id)''', 1))
M('c03-twin-buffer-swap', 'C09', 'silent',
  (DR, '''        buffered = self.io.recv_buffer
        self.io.recv_buffer = b\'\'
        self.add_lines(buffered)''', '''        buffered, self.io.recv_buffer = self.io.recv_buffer, b\'\'
        self.add_lines(buffered)''', 1))
M('c09-twin-take-then-clear', 'C09', 'silent',
  (DR, '''        buffered = self.io.recv_buffer
        self.io.recv_buffer = b\'\'
        self.add_lines(buffered)''', '''        self.add_lines(self.io.recv_buffer)
        self.io.recv_buffer = b\'\'''', 1))
M('c09-buffered-bytes-not-counted', 'C09', 'fire:G6',
  (DR, '''        after_match = piece[last:]
        self._count_size(after_match)
        self._append_line(after_match)''', '''        after_match = piece[last:]
        self._append_line(after_match)''', 1))
M('c09-count-per-read-only', 'C09', 'fire:G6',
  (DR, '''            self._count_size(match.group(0))
''', '', 1),
  (DR, '''        self._count_size(after_match)
''', '', 1),
  (DR, '''        self.add_lines(piece)
        return self.EOD is None''', '''        self._count_size(piece)
        self.add_lines(piece)
        return self.EOD is None''', 1))
M('c09-count-after-eod', 'C09', 'fire:G6',
  (DR, '''        if self.EOD is None:
            self.size += len(data)
            if self.max_size and self.size > self.max_size:
                self.EOD = self.i
                raise MessageTooBig()''', '''        self.size += len(data)
        if self.max_size and self.size > self.max_size:
            self.EOD = self.i
            raise MessageTooBig()''', 1))
M('c09-limit-only-at-line-end', 'C09', 'fire:G6',
  (DR, '''            if self.max_size and self.size > self.max_size:''',
   '''            if self.max_size and self.size > self.max_size and \\
                    data.endswith(b'\\n'):''', 1))
# ---- C12 Q6 (bisect) / Q8 / Q9
M('c12-bisect-strict-cut', 'C12', 'fire:Q6',
  (Q, '''        last_i = 0
        for i, entry in enumerate(self.queued):
            timestamp, entry_id = entry
            if now >= timestamp:
                last_i = i+1
            else:
                break
''', '''        last_i = bisect.bisect_left(self.queued, (now, ))
''', 1))
M('c12-requeue-not-in-finally', 'C12', 'fire:Q8',
  (Q, '''            finally:
                self.active_ids.discard(id)
                self._add_queued((when, id))
            return True''', '''            finally:
                self.active_ids.discard(id)
            self._add_queued((when, id))
            return True''', 1))
M('c12-spawn-waits-while-holding', 'C12', 'fire:Q9',
  (Q, '''        if pool is not gevent and self._holds_pool_slot():''',
   '''        if False:''', 1))
M('c12-holder-test-one-pool', 'C12', 'fire:Q9',
  (Q, '''        for attr in ('store_pool', 'relay_pool'):''',
   '''        for attr in ('store_pool', ):''', 1))
M('c12-bounce-in-store-pool', 'C12', 'fire:Q9',
  (Q, '''            self._pool_spawn('bounce', self._bounce, envelope, reply)''',
   '''            self._pool_run('store', self._bounce, envelope, reply)''', 1))
M('c12-twin-holder-renamed', 'C12', 'silent',
  (Q, '''_holds_pool_slot''', '''_runs_in_own_pool''', 2))
M('c01-pool-cycle', 'C01', 'fire:R1.11',
  (Q, '''        if pool is not gevent and self._holds_pool_slot():''',
   '''        if False:''', 1))
# ---- C13 B3 provenance / B5
M('c13-first-reply-for-all', 'C13', 'fire:B3',
  (Q, '''            for reply, group_env in self._split_by_reply(fail_env, replies):
                self._perm_fail(None, group_env, reply)
        if tempfails:''', '''            for reply, group_env in self._split_by_reply(fail_env, replies):
                self._perm_fail(None, group_env, replies[0])
        if tempfails:''', 1))
M('c13-embedded-headers-transformed', 'C13', 'fire:B5',
  (BO, '''        new_payload.write(header_data)''',
   '''        new_payload.write(header_data.replace(b'\\r\\n ', b' '))''', 1))
M('c13-body-only-when-small', 'C13', 'fire:B5',
  (BO, '''        if not headers_only:
            new_payload.write(message_data)''',
   '''        if not headers_only and len(message_data) < 65536:
            new_payload.write(message_data)''', 1))
M('c13-twin-flatten-of-alias', 'C13', 'silent',
  (BO, '''        header_data, message_data = envelope.flatten()''',
   '''        original = envelope
        header_data, message_data = original.flatten()''', 1))
M('c13-twin-flatten-of-copy', 'C13', 'silent',
  (BO, '''        header_data, message_data = envelope.flatten()''',
   '''        header_data, message_data = envelope.copy().flatten()''', 1))
# ---- C02 R2.5
M('c02-enqueue-drops-last-envelope', 'C02', 'fire:R2.5',
  (Q, '''        envelopes = self._run_policies(envelope)
''', '''        envelopes = self._run_policies(envelope)
        if len(envelopes) > 8:
            envelopes.pop()
''', 1))
# ---- C04 R4.4 ext / R4.6 / R4.7
M('c04-write-meta-skips-unchanged', 'C04', 'fire:R4.6',
  (DS, '''    def write_meta(self, id, meta):
        final_path''', '''    def write_meta(self, id, meta):
        if not meta:
            return
        final_path''', 1))
M('c04-twin-read-meta-local', 'C04', 'silent',
  (DS, '''        path = os.path.join(self.meta_dir, id+'.meta')
        return AioFile(path).pickle_load()''',
   '''        path = os.path.join(self.meta_dir, id+'.meta')
        meta = AioFile(path).pickle_load()
        return meta''', 1))
M('c04-twin-read-helper', 'C04', 'silent',
  (DS, '''    def read_meta(self, id):
        path = os.path.join(self.meta_dir, id+'.meta')
        return AioFile(path).pickle_load()''',
   '''    def _read(self, path):
        return AioFile(path).pickle_load()

    def read_meta(self, id):
        path = os.path.join(self.meta_dir, id+'.meta')
        return self._read(path)''', 1))
M('c04-scan-deletes-damaged', 'C04', 'fire:R4.7',
  (DS, '''            except OSError:
                logging.log_exception(__name__, queue_id=id)''',
   '''            except OSError:
                logging.log_exception(__name__, queue_id=id)
                self.ops.delete_env(id)''', 1))
M('c04-missing-meta-as-valueerror', 'C04', 'fire:R4.4',
  (DS, '''        path = os.path.join(self.meta_dir, id+'.meta')
        return AioFile(path).pickle_load()''',
   '''        path = os.path.join(self.meta_dir, id+'.meta')
        if not os.path.exists(path):
            raise ValueError(id)
        return AioFile(path).pickle_load()''', 1))
# ---- C05 R5.5 / R5.6
M('c05-reader-needs-crlf', 'C05', 'fire:R5.5',
  (DR, '''fullline_pattern = re.compile(br'.*\\n')''',
   '''fullline_pattern = re.compile(br'.*\\r\\n')''', 1))
M('c05-sender-stuffs-after-crlf-only', 'C05', 'fire:R5.5',
  (DSN, '''            index = part.find(b'\\n.', i)''',
   '''            index = part.find(b'\\r\\n.', i)''', 1))
M('c05-sender-offset-short', 'C05', 'fire:R5.5',
  (DSN, '''                yield b'.'
                i = index+2''', '''                yield b'.'
                i = index+1''', 1))
M('c05-twin-reader-negated-class', 'C05', 'silent',
  (DR, '''fullline_pattern = re.compile(br'.*\\n')''',
   '''fullline_pattern = re.compile(br'[^\\n]*\\n')''', 1))
M('c05-blank-lines-not-examined', 'C05', 'fire:R5.6',
  (DR, '''            self._append_line(match.group(0))
            self.handle_finished_line()''',
   '''            self._append_line(match.group(0))
            if match.group(0) != b'\\r\\n':
                self.handle_finished_line()
            else:
                self.i += 1''', 1))
M('c05-twin-add-lines-local', 'C05', 'silent',
  (DR, '''            self._append_line(match.group(0))
            self.handle_finished_line()''',
   '''            line = match.group(0)
            self._append_line(line)
            self.handle_finished_line()''', 1))
# ---- C07 R7.5 ext
M('c07-mail-keeps-envelope', 'C07', 'fire:R7.5',
  (ES, '''            self.envelope = Envelope(sender=address)''',
   '''            if self.envelope is None:
                self.envelope = Envelope(sender=address)
            self.envelope.sender = address''', 1))
M('c07-twin-mail-fresh-via-local', 'C07', 'silent',
  (ES, '''            self.envelope = Envelope(sender=address)''',
   '''            fresh = Envelope(sender=address)
            self.envelope = fresh''', 1))
M('c07-rcpt-recorded-before-validator', 'C07', 'fire:R7.5',
  (ES, '''        self._call_validator('rcpt', reply, address, params)
        if reply.code == '250':
            assert self.envelope is not None
            self.envelope.recipients.append(address)''',
   '''        if reply.code == '250':
            assert self.envelope is not None
            self.envelope.recipients.append(address)
        self._call_validator('rcpt', reply, address, params)''', 1))
# ---- C08
M('c08-rset-clears-authed', 'C08', 'fire:R8.3',
  (SRV, '''        if reply.code == '250':
            self.have_mailfrom = None
            self.have_rcptto = None

    def _command_NOOP''', '''        if reply.code == '250':
            self.have_mailfrom = None
            self.have_rcptto = None
            self.authed = False

    def _command_NOOP''', 1))
# ---- C09 G7 / G8
M('c09-flush-only-after-commands', 'C09', 'fire:G7',
  (SRV, '''                finally:
                    self.io.flush_send()

                command, arg = self._recv_command()''',
   '''                finally:
                    if command:
                        self.io.flush_send()

                command, arg = self._recv_command()''', 1))
M('c09-line-limit-on-buffer', 'C09', 'fire:G8',
  (IOF, '''            self.buffered_recv()

    def recv_command''', '''            if len(self.recv_buffer) > 8192:
                raise ConnectionLost()
            self.buffered_recv()

    def recv_command''', 1))
M('c09-twin-extra-flush-before-close', 'C09', 'silent',
  (SRV, '''                except StopIteration:
                    self._call_custom_handler('CLOSE')
                    break''', '''                except StopIteration:
                    self.io.flush_send()
                    self._call_custom_handler('CLOSE')
                    break''', 1))
# ---- C10 F7
M('c10-recv-skips-blank-reply', 'C10', 'fire:F7',
  (RP, '''        self.code, self.message = io.recv_reply()
        self.address = io.address''', '''        self.code, self.message = io.recv_reply()
        if not self.message:
            self.code, self.message = io.recv_reply()
        self.address = io.address''', 1))
M('c10-twin-recv-via-local', 'C10', 'silent',
  (RP, '''        self.code, self.message = io.recv_reply()''',
   '''        pair = io.recv_reply()
        self.code, self.message = pair''', 1))
# ---- C11 N3 ext / N4 dns
M('c11-lmtp-rset-before-result', 'C11', 'fire:N3',
  (LC, '''        result.set(rcpt_results)
        if had_errors:
            self._rset()''', '''        if had_errors:
            self._rset()
        result.set(rcpt_results)''', 1))
M('c11-smtp-probe-before-result', 'C11', 'fire:N3',
  (RC, '''                    rcpt_results[key] = msg_result
            result.set(rcpt_results)''', '''                    rcpt_results[key] = msg_result
            self._check_server_timeout()
            result.set(rcpt_results)''', 1))
M('c11-dns-timeout-as-nxdomain', 'C11', 'fire:N4',
  (MX, '''from pycares.errno import ARES_ENOTFOUND, ARES_ENODATA''',
   '''from pycares.errno import ARES_ENOTFOUND, ARES_ENODATA, ARES_ETIMEOUT''',
   1),
  (MX, '''        non_fatal_errors = (ARES_ENOTFOUND, ARES_ENODATA)''',
   '''        non_fatal_errors = (ARES_ENOTFOUND, ARES_ENODATA, ARES_ETIMEOUT)''',
   1))
M('c11-twin-dns-codes-as-set', 'C11', 'silent',
  (MX, '''        non_fatal_errors = (ARES_ENOTFOUND, ARES_ENODATA)''',
   '''        non_fatal_errors = frozenset([ARES_ENODATA, ARES_ENOTFOUND])''',
   1))
M('c01-lmtp-rset-before-result', 'C01', 'fire:R1.12',
  (LC, '''        result.set(rcpt_results)
        if had_errors:
            self._rset()''', '''        if had_errors:
            self._rset()
        result.set(rcpt_results)''', 1))
# ---- C14 T5 / T1 unwrap
M('c14-server-data-timeout-no-fallback', 'C14', 'fire:T5',
  (SRV, '''        self.data_timeout = data_timeout or command_timeout''',
   '''        self.data_timeout = data_timeout''', 1))
M('c14-twin-fallback-ifexp', 'C14', 'silent',
  (SRV, '''        self.data_timeout = data_timeout or command_timeout''',
   '''        self.data_timeout = (data_timeout if data_timeout is not None
                             else command_timeout)''', 1))
M('c14-close-waits-for-peer', 'C14', 'fire:T1',
  (IOF, '''                self.socket.settimeout(0.0)
''', '', 1))
M('c14-http-close-unbounded', 'C14', 'fire:T1',
  (HT, '''        with gevent.Timeout(self.relay.timeout, False):
            self.conn.close()''', '''        self.conn.close()''', 1))
M('c14-twin-http-close-try', 'C14', 'silent',
  (HT, '''        with gevent.Timeout(self.relay.timeout, False):
            self.conn.close()''', '''        try:
            with gevent.Timeout(self.relay.timeout):
                self.conn.close()
        except gevent.Timeout:
            pass''', 1))
# ---- C15 I9 / I11
M('c15-shared-default-meta', 'C15', 'fire:I9',
  (QD, '''    def __init__(self, envelope_db=None, meta_db=None):
        super(DictStorage, self).__init__()
        self.env_db = envelope_db if envelope_db is not None else {}
        self.meta_db = meta_db if meta_db is not None else {}''',
   '''    def __init__(self, envelope_db=None, meta_db={}):
        super(DictStorage, self).__init__()
        self.env_db = envelope_db if envelope_db is not None else {}
        self.meta_db = meta_db''', 1))
M('c15-twin-default-created-inside', 'C15', 'silent',
  (QD, '''        self.env_db = envelope_db if envelope_db is not None else {}''',
   '''        self.env_db = {} if envelope_db is None else envelope_db''', 1))
M('c15-redis-load-yields-key', 'C15', 'fire:I11',
  (RS, '''                yield float(timestamp), id''',
   '''                yield float(timestamp), key''', 1))
M('c15-aws-write-returns-bare', 'C15', 'fire:I11',
  (AWS, '''        key = self.Key(self.bucket)
        key.key = self.prefix+str(uuid.uuid4())''',
   '''        key = self.Key(self.bucket)
        new_id = str(uuid.uuid4())
        key.key = self.prefix+new_id''', 1),
  (AWS, '''            key.set_contents_from_string(envelope_raw)
        return key.key''', '''            key.set_contents_from_string(envelope_raw)
        return new_id''', 1))
# ---- C16 P3 module
M('c16-date-presence-case-sensitive', 'C16', 'fire:P3',
  (HD, '''        if 'date' not in envelope.headers:''',
   '''        if 'Date' not in envelope.headers.keys():''', 1))
M('c16-message-id-replaced', 'C16', 'fire:P3',
  (HD, '''            envelope.headers['Message-Id'] = mid''',
   '''            del envelope.headers['Message-Id']
            envelope.headers['Message-Id'] = mid''', 1))
# ---- C18
M('c18-v2-addresses-by-slicing', 'C18', 'fire:V2',
  (PX, '''            src_ip, dst_ip, src_port, dst_port = \\
                struct.unpack('!4s4sHH', addr_data[0:12])''',
   '''            src_ip, dst_ip = bytes(addr_data[0:4]), bytes(addr_data[4:8])
            src_port, dst_port = struct.unpack('!HH', addr_data[8:12])''', 1))
M('c18-lenient-ipv4', 'C18', 'fire:V4',
  (PX, '''            packed = socket.inet_pton(addr_family, ip_string.decode('ascii'))''',
   '''            packed = socket.inet_aton(ip_string.decode('ascii')) \\
                if addr_family == socket.AF_INET else \\
                socket.inet_pton(addr_family, ip_string.decode('ascii'))''', 1))
# ---- C19 L1 count
M('c19-check-idle-adds-two', 'C19', 'fire:L1',
  (PL, '''        if not self.pool_size or len(self.pool) < self.pool_size:
            self._add_client()''', '''        if not self.pool_size or len(self.pool) < self.pool_size:
            self._add_client()
            if len(self.queue) > 1:
                self._add_client()''', 1))
M('c19-twin-queue-truthiness', 'C19', 'silent',
  (PL, '''        if len(self.queue) > 0 and not self.pool:''',
   '''        if len(self.queue) >= 1 and not self.pool:''', 1))
# ---- robustness twins for the round-2 rules
M('c12-twin-inline-holder-test', 'C12', 'silent',
  (Q, '''        if pool is not gevent and self._holds_pool_slot():''',
   '''        if pool is not gevent and any(
                gevent.getcurrent() in p for p in (
                    getattr(self, 'store_pool', None) or (),
                    getattr(self, 'relay_pool', None) or ())):''', 1))
M('c09-twin-flush-helper', 'C09', 'silent',
  (SRV, '''                finally:
                    self.io.flush_send()

                command, arg = self._recv_command()''',
   '''                finally:
                    self._flush_replies()

                command, arg = self._recv_command()''', 1),
  (SRV, '''    def _gather_params(self, remaining):''',
   '''    def _flush_replies(self):
        self.io.flush_send()

    def _gather_params(self, remaining):''', 1))
M('c11-twin-merge-helper-before-set', 'C11', 'silent',
  (RC, '''            for key, value in rcpt_results.items():
                if value is None:
                    rcpt_results[key] = msg_result
            result.set(rcpt_results)''',
   '''            self._fill_in(rcpt_results, msg_result)
            result.set(rcpt_results)''', 1),
  (RC, '''    def _check_server_timeout(self):''',
   '''    def _fill_in(self, rcpt_results, msg_result):
        for key, value in rcpt_results.items():
            if value is None:
                rcpt_results[key] = msg_result

    def _check_server_timeout(self):''', 1))
M('c05-twin-cursor-helper', 'C05', 'silent',
  (DR, '''        # Move internal trackers ahead.
        self.i += 1
''', '''        # Move internal trackers ahead.
        self._advance()
''', 1),
  (DR, '''    def add_lines(self, piece):''', '''    def _advance(self):
        self.i += 1

    def add_lines(self, piece):''', 1))
M('c16-twin-date-absent-by-get', 'C16', 'silent',
  (HD, '''        if 'date' not in envelope.headers:''',
   '''        if envelope.headers.get('Date') is None:''', 1))
# ---- C11 N8
M('c11-any-three-digits-are-a-code', 'C11', 'fire:N8',
  (IOF, '''reply_line_pattern = re.compile(br'(([1-5]\\d\\d)([ \\t-])(.*?))\\r?\\n')''',
   '''reply_line_pattern = re.compile(br'((\\d\\d\\d)([ \\t-])(.*?))\\r?\\n')''', 1))
M('c11-twin-code-class-as-range-list', 'C11', 'silent',
  (IOF, '''reply_line_pattern = re.compile(br'(([1-5]\\d\\d)([ \\t-])(.*?))\\r?\\n')''',
   '''reply_line_pattern = re.compile(br'(([12345][0-9][0-9])([ \\t-])(.*?))\\r?\\n')''', 1))

# ================================================================= C17
M('c17-esc-class-from-peer', 'C17', 'fire:W1',
  (RP, '''                return '.'.join((code_0, self._esc[1], self._esc[2]))''',
   '''                return '.'.join(self._esc)''', 1))
M('c17-twin-esc-format', 'C17', 'silent',
  (RP, '''                return '.'.join((code_0, '0', '0'))''',
   '''                return code_0 + '.0.0\'''', 1))
M('c17-continuation-marker-equals', 'C17', 'fire:W2',
  (IOF, '''            to_send.write(b''.join((code, b'-', line, b'\\r\\n')))''',
   '''            to_send.write(b''.join((code, b'=', line, b'\\r\\n')))''', 1))
M('c17-final-line-with-dash', 'C17', 'fire:W2',
  (IOF, '''        to_send.write(b''.join((code, b' ', lines[-1], b'\\r\\n')))''',
   '''        to_send.write(b''.join((code, b'-', lines[-1], b'\\r\\n')))''', 1))
M('c17-lines-end-with-cr', 'C17', 'fire:W2',
  (IOF, '''        to_send.write(b''.join((code, b' ', lines[-1], b'\\r\\n')))''',
   '''        to_send.write(b''.join((code, b' ', lines[-1], b'\\r')))''', 1))
M('c17-twin-bare-lf-terminator', 'C17', 'silent',
  (IOF, '''            to_send.write(b''.join((code, b'-', line, b'\\r\\n')))''',
   '''            to_send.write(b''.join((code, b'-', line, b'\\n')))''', 1))
M('c17-mixed-codes-accepted', 'C17', 'fire:W3',
  (IOF, '''                    if code and code != match.group(2):
                        raise BadReply(match.group(1))
''', '', 1))
M('c17-garbage-line-skipped', 'C17', 'fire:W3',
  (IOF, '''                        message_lines.append(match.group(1))
                        raise BadReply(b'\\r\\n'.join(message_lines))''',
   '''                        start_i = match.end(0)
                        continue''', 1))
M('c17-decode-error-escapes', 'C17', 'fire:W3',
  (IOF, '''        except UnicodeDecodeError:
            raise BadReply(b'\\r\\n'.join(message_lines))''',
   '''        except UnicodeEncodeError:
            raise BadReply(b'\\r\\n'.join(message_lines))''', 1))
M('c17-any-digits-code', 'C17', 'fire:W3',
  (IOF, '''reply_line_pattern = re.compile(br'(([1-5]\\d\\d)([ \\t-])(.*?))\\r?\\n')''',
   '''reply_line_pattern = re.compile(br'((\\d\\d\\d)([ \\t-])(.*?))\\r?\\n')''', 1))
M('c17-scan-position-stuck', 'C17', 'fire:W4',
  (IOF, '''                    else:
                        start_i = match.end(0)''',
   '''                    else:
                        start_i = match.start(0)''', 1))
M('c17-spin-on-incomplete', 'C17', 'fire:W4',
  (IOF, '''            if incomplete:
                self.buffered_recv()
                input = self.recv_buffer''',
   '''            if incomplete and not message_lines:
                self.buffered_recv()
            input = self.recv_buffer''', 1))
M('c17-recorded-not-consumed', 'C17', 'fire:W5',
  (IOF, '''                    message_lines.append(match.group(4))
                    self.recv_buffer = input[match.end(0):]
''', '''                    message_lines.append(match.group(4))
''', 1),
  (IOF, '''                    if match.group(3) != b'-':
                        incomplete = False
                        start_i = None''', '''                    if match.group(3) != b'-':
                        incomplete = False
                        start_i = None
                        self.recv_buffer = input[match.end(0):]''', 1))
M('c17-twin-flag-renamed', 'C17', 'silent',
  (IOF, '''incomplete''', '''more_lines''', 4))

# ---------------------------------------------------------------- C20
ENVF = 'slimta/envelope/__init__.py'
M('c20-payload-cut-at-start-of-match', 'C20', 'fire:E1',
  (ENVF, '''            payload = data[match.end(0):]''',
   '''            payload = data[match.start(0):]''', 1))
M('c20-boundary-anchored-match', 'C20', 'fire:E1',
  (ENVF, '''        match = re.search(_HEADER_BOUNDARY, data)''',
   '''        match = re.match(_HEADER_BOUNDARY, data)''', 1))
M('c20-no-boundary-all-body', 'C20', 'fire:E1',
  (ENVF, '''            header_data = data
            payload = b\'\'''',
   '''            header_data = b\'\'
            payload = data''', 1))
M('c20-boundary-greedy', 'C20', 'fire:E6',
  (ENVF, r'''_HEADER_BOUNDARY = re.compile(br'\r?\n\s*?\n')''',
   r'''_HEADER_BOUNDARY = re.compile(br'\r?\n\s*\n')''', 1))
M('c20-boundary-any-text', 'C20', 'fire:E6',
  (ENVF, r'''_HEADER_BOUNDARY = re.compile(br'\r?\n\s*?\n')''',
   r'''_HEADER_BOUNDARY = re.compile(br'\r?\n.*?\n')''', 1))
M('c20-boundary-single-line-end', 'C20', 'fire:E6',
  (ENVF, r'''_HEADER_BOUNDARY = re.compile(br'\r?\n\s*?\n')''',
   r'''_HEADER_BOUNDARY = re.compile(br'\r?\n')''', 1))
M('c20-twin-boundary-spelled-out', 'C20', 'silent',
  (ENVF, r'''_HEADER_BOUNDARY = re.compile(br'\r?\n\s*?\n')''',
   r'''_HEADER_BOUNDARY = re.compile(br'\r?\n[ \t\r\n\f\v]*?\n')''', 1))
M('c20-payload-stripped', 'C20', 'fire:E2',
  (ENVF, '''        else:
            return payload

    def prepend_header''',
   '''        else:
            return payload.lstrip(b'\\r\\n')

    def prepend_header''', 1))
M('c20-flatten-normalises-body', 'C20', 'fire:E2',
  (ENVF, '''        return header_data, self.message

    def _encode_parts''',
   '''        return header_data, self.message.replace(b'\\r\\n', b'\\n')

    def _encode_parts''', 1))
M('c20-generator-other-policy', 'C20', 'fire:E3',
  (ENVF, '''        BytesGenerator(outfp, policy=SMTP).flatten(msg, False)''',
   '''        BytesGenerator(outfp).flatten(msg, False)''', 1))
M('c20-shallow-copy', 'C20', 'fire:E4',
  (ENVF, '''        new_env = copy.deepcopy(self)
        if new_rcpts:''',
   '''        new_env = copy.copy(self)
        if new_rcpts:''', 1))
M('c20-getstate-drops-client', 'C20', 'fire:E4',
  (ENVF, '''    def _parse_data(self, data, *extra):''',
   '''    def __getstate__(self):
        state = dict(self.__dict__)
        state.pop('client', None)
        return state

    def _parse_data(self, data, *extra):''', 1))
M('c20-8bit-passed-on-without-encoder', 'C20', 'fire:E5',
  (ENVF, '''            if not encoder:
                raise
            self._encode_parts(encoder)''',
   '''            if encoder:
                self._encode_parts(encoder)''', 1))
M('c20-twin-encoder-is-none', 'C20', 'silent',
  (ENVF, '''            if not encoder:
                raise
            self._encode_parts(encoder)''',
   '''            if encoder is None:
                raise
            self._encode_parts(encoder)''', 1))
M('c20-twin-cut-index-local', 'C20', 'silent',
  (ENVF, '''            header_data = data[:match.end(0)]
            payload = data[match.end(0):]''',
   '''            cut = match.end(0)
            header_data = data[:cut]
            payload = data[cut:]''', 1))
M('c18-unix-address-cut-at-first-nul', 'C18', 'fire:V5',
  ('slimta/util/proxyproto.py',
   '''            return src_addr.rstrip(b'\\x00'), dst_addr.rstrip(b'\\x00')''',
   '''            return (src_addr.partition(b'\\x00')[0],
                    dst_addr.partition(b'\\x00')[0])''', 1))
M('c18-twin-unix-padding-helper', 'C18', 'silent',
  ('slimta/util/proxyproto.py',
   '''            return src_addr.rstrip(b'\\x00'), dst_addr.rstrip(b'\\x00')''',
   '''            src_path = src_addr.rstrip(b'\\x00')
            dst_path = dst_addr.rstrip(b'\\x00')
            return src_path, dst_path''', 1))

# ------------------------------------------------- store-back (C01/C03/C15)
DICTF = 'slimta/queue/dict.py'
M('c03-dict-marks-on-temporary', 'C03', 'fire:R3.8',
  (DICTF, '''        envelope = self.env_db[id]
        self._remove_delivered_rcpts(envelope, rcpt_indexes)
        self.env_db[id] = envelope''',
   '''        self._remove_delivered_rcpts(self.env_db[id], rcpt_indexes)''', 1))
M('c01-dict-attempts-in-place', 'C01', 'fire:R1.13',
  (DICTF, '''        meta = self.meta_db[id]
        new_attempts = meta['attempts'] + 1
        meta['attempts'] = new_attempts
        self.meta_db[id] = meta''',
   '''        self.meta_db[id]['attempts'] += 1
        new_attempts = self.meta_db[id]['attempts']''', 1))
M('c15-dict-timestamp-not-stored-back', 'C15', 'fire:I12',
  (DICTF, '''        meta = self.meta_db[id]
        meta['timestamp'] = timestamp
        self.meta_db[id] = meta''',
   '''        meta = self.meta_db[id]
        meta['timestamp'] = timestamp''', 1))
M('c15-twin-dict-record-renamed', 'C15', 'silent',
  (DICTF, '''        meta = self.meta_db[id]
        meta['timestamp'] = timestamp
        self.meta_db[id] = meta''',
   '''        record = self.meta_db[id]
        record['timestamp'] = timestamp
        self.meta_db[id] = record''', 1))

# ---------------------------------------------------------- C05 R5.7 / R5.5
DR = 'slimta/smtp/datareader.py'
M('c05-eod-flag-from-fragment', 'C05', 'fire:R5.7',
  (DR, """        self.EOD = None
        self.lines = [b'']""",
   """        self.EOD = None
        self.after_crlf = True
        self.lines = [b'']""", 1),
  (DR, """            if eod_pattern.match(line):
                self.EOD = i""",
   """            if self.after_crlf and eod_pattern.match(line):
                self.EOD = i""", 1),
  (DR, """            self._append_line(match.group(0))
            self.handle_finished_line()""",
   """            self._append_line(match.group(0))
            self.handle_finished_line()
            self.after_crlf = match.group(0).endswith(b'\\r\\n')""", 1))
M('c05-twin-eod-flag-from-assembled-line', 'C05', 'silent',
  (DR, """        self.EOD = None
        self.lines = [b'']""",
   """        self.EOD = None
        self.after_crlf = True
        self.lines = [b'']""", 1),
  (DR, """        i = self.i
        line = self.lines[i]
""",
   """        i = self.i
        line = self.lines[i]
        was_crlf = self.after_crlf
        self.after_crlf = line.endswith(b'\\r\\n')
""", 1),
  (DR, """            if eod_pattern.match(line):
                self.EOD = i""",
   """            if was_crlf and eod_pattern.match(line):
                self.EOD = i""", 1))
M('c05-sender-splitlines', 'C05', 'fire:R5.5',
  ('slimta/smtp/datasender.py', '''            index = part.find(b'\\n.', i)''',
   '''            _unused = part.splitlines(True)
            index = part.find(b'\\n.', i)''', 1))
M('c05-line-start-tracked-by-crlf-only', 'C05', 'fire:R5.5',
  ('slimta/smtp/datasender.py',
   """        parts = [self._process_part(part) for part in self.parts]""",
   """        parts = [self._process_part(part) for part in self.parts
                 if not part.endswith(b'\\r\\n') or part]""", 1))
M('c05-twin-fullline-pattern-with-group', 'C05', 'silent',
  (DR, r'''fullline_pattern = re.compile(br'.*\n')''',
   r'''fullline_pattern = re.compile(br'(.*\r?\n)')''', 1))

# ---------------------------------------------------------------- C06
CL = 'slimta/smtp/client.py'
SV = 'slimta/smtp/server.py'
EXF = 'slimta/smtp/extensions.py'
HR = 'slimta/relay/http.py'
WE = 'slimta/edge/wsgi.py'
M('c06-mail-from-without-colon', 'C06', 'fire:X1',
  (CL, """b''.join((b'MAIL FROM:<', self._encode(address), b'>'))""",
   """b''.join((b'MAIL FROM <', self._encode(address), b'>'))""", 1))
M('c06-twin-mail-from-with-blank', 'C06', 'silent',
  (CL, """b''.join((b'MAIL FROM:<', self._encode(address), b'>'))""",
   """b''.join((b'MAIL FROM: <', self._encode(address), b'>'))""", 1))
M('c06-server-to-pattern-needs-blank', 'C06', 'fire:X1',
  (SV, r"""to_pattern = re.compile(br'^[tT][oO]:\s*<')""",
   r"""to_pattern = re.compile(br'^[tT][oO]:\s+<')""", 1))
M('c06-rcpt-closed-with-paren', 'C06', 'fire:X1',
  (CL, """b''.join((b'RCPT TO:<', self._encode(address), b'>'))""",
   """b''.join((b'RCPT TO:<', self._encode(address), b')'))""", 1))
M('c06-size-keyword-with-underscore', 'C06', 'fire:X2',
  (CL, """command += b' SIZE='+self._encode(str(data_size))""",
   """command += b' MSG_SIZE='+self._encode(str(data_size))""", 1))
M('c06-size-sent-unconditionally', 'C06', 'fire:X2',
  (CL, """if data_size is not None and 'SIZE' in self.extensions:""",
   """if data_size is not None:""", 1))
M('c06-xtext-lets-equals-through', 'C06', 'fire:X2',
  (CL, r"""xtext_pattern = re.compile(br'[^\x21-\x2A\x2C-\x3C\x3E-\x7E]')""",
   r"""xtext_pattern = re.compile(br'[^\x21-\x2A\x2C-\x7E]')""", 1))
M('c06-utf8-always', 'C06', 'fire:X2',
  (CL, """        if 'SMTPUTF8' in self.extensions:
            return thing.encode('utf-8')
        else:
            return thing.encode('ascii')""",
   """        return thing.encode('utf-8')""", 1))
M('c06-ehlo-param-joined-with-equals', 'C06', 'fire:X3',
  (EXF, """lines.append(' '.join((k, value_str)))""",
   """lines.append('='.join((k, value_str)))""", 1))
M('c06-ehlo-lines-joined-with-semicolon', 'C06', 'fire:X3',
  (EXF, """return '\\r\\n'.join(lines)""",
   """return '; '.join(lines)""", 1))
M('c06-relay-sender-header-renamed', 'C06', 'fire:X4',
  (HR, """    sender_header = 'X-Envelope-Sender'""",
   """    sender_header = 'X-Envelope-From'""", 1))
M('c06-twin-relay-header-case', 'C06', 'silent',
  (HR, """    sender_header = 'X-Envelope-Sender'""",
   """    sender_header = 'X-ENVELOPE-SENDER'""", 1))
M('c06-edge-urlsafe-b64', 'C06', 'fire:X4',
  (WE, """        return b64decode(b64str.encode('ascii')).decode('utf-8')""",
   """        from base64 import urlsafe_b64decode
        return urlsafe_b64decode(b64str.encode('ascii')).decode('utf-8')""",
   1))
M('c06-edge-latin1', 'C06', 'fire:X4',
  (WE, """        return b64decode(b64str.encode('ascii')).decode('utf-8')""",
   """        return b64decode(b64str.encode('ascii')).decode('latin-1')""",
   1))
M('c06-splitter-cuts-at-slash', 'C06', 'fire:X4',
  (WE, r"""    split_pattern = re.compile(r'\s*[,;]\s*')""",
   r"""    split_pattern = re.compile(r'\s*[,;/]\s*')""", 1))
M('c06-reply-header-renamed', 'C06', 'fire:X4',
  (HR, """raw_reply = http_res.getheader('X-Smtp-Reply', '')""",
   """raw_reply = http_res.getheader('X-Reply', '')""", 1))
M('c06-relay-reads-msg-param', 'C06', 'fire:X4',
  (HR, """if match.group(1).lower() == 'message':""",
   """if match.group(1).lower() == 'msg':""", 1))
M('c06-recipients-sorted-on-the-way-out', 'C06', 'fire:X5',
  ('slimta/relay/smtp/client.py',
   """rcpttos = [self._rcptto(rcpt) for rcpt in envelope.recipients]""",
   """rcpttos = [self._rcptto(rcpt)
                   for rcpt in sorted(envelope.recipients)]""", 1))
M('c06-edge-dedups-recipients', 'C06', 'fire:X5',
  (WE, """        return [self._b64decode(rcpt_b64) for rcpt_b64 in rcpts_split]""",
   """        return list(set(self._b64decode(rcpt_b64)
                        for rcpt_b64 in rcpts_split))""", 1))
M('c06-address-lowercased', 'C06', 'fire:X6',
  (SV, """        address = arg[start:end].decode('utf-8')

        if not self.ehlo_as:""",
   """        address = arg[start:end].decode('utf-8').lower()

        if not self.ehlo_as:""", 1))
M('c06-rcpt-source-route-cut', 'C06', 'fire:X6',
  (SV, """        address = arg[start:end].decode('utf-8')

        if not self.have_mailfrom:""",
   """        address = arg[start:end].rpartition(b':')[2].decode('utf-8')

        if not self.have_mailfrom:""", 1))
M('c06-twin-address-via-local', 'C06', 'silent',
  (SV, """        address = arg[start:end].decode('utf-8')

        if not self.have_mailfrom:""",
   """        raw_address = arg[start:end]
        address = raw_address.decode('utf-8')

        if not self.have_mailfrom:""", 1))
M('c06-empty-sender-header-refused', 'C06', 'fire:X7',
  (WE, """        return self._b64decode(environ.get(sender_header, ''))""",
   """        sender_b64 = environ.get(sender_header, '')
        if not sender_b64:
            raise WsgiResponse('400 Bad Request')
        return self._b64decode(sender_b64)""", 1))
M('c06-twin-missing-sender-header-refused', 'C06', 'silent',
  (WE, """        return self._b64decode(environ.get(sender_header, ''))""",
   """        sender_b64 = environ.get(sender_header)
        if sender_b64 is None:
            raise WsgiResponse('400 Bad Request')
        return self._b64decode(sender_b64)""", 1))
M('c06-body-sent-in-slices', 'C06', 'fire:X8',
  ('slimta/relay/smtp/client.py',
   """            send_data = self.client.send_data(
                header_data, message_data)""",
   """            send_data = self.client.send_data(
                header_data, message_data[:65536], message_data[65536:])""",
   1))
M('c06-twin-parts-via-locals', 'C06', 'silent',
  ('slimta/relay/smtp/client.py',
   """            send_data = self.client.send_data(
                header_data, message_data)""",
   """            parts = (header_data, message_data)
            send_data = self.client.send_data(parts[0], parts[1])""", 1))


# ---------------------------------------------------------------- round 5
M('c12-listener-in-the-store-pool', 'C12', 'fire:Q9',
  ('slimta/queue/__init__.py',
   """        gevent.spawn(self._wait_store)""",
   """        self._pool_spawn('store', self._wait_store)""", 1))
M('c12-twin-listener-spawned-by-helper', 'C12', 'silent',
  ('slimta/queue/__init__.py',
   """        gevent.spawn(self._wait_store)""",
   """        listener = gevent.spawn(self._wait_store)
        del listener""", 1))

# ---------------------------------------------------------------- D34 (C11)
M('c11-relay-error-decodes-str-command', 'C11', 'fire:N15',
  ('slimta/relay/smtp/__init__.py',
   """        if isinstance(command, bytes):
            # The HTTP relay names the command with a string.
            command = command.decode('ascii')
        msg = '{0} failure on {1}: {2}'.format(type, command, str(reply))""",
   """        msg = '{0} failure on {1}: {2}'.format(
            type, command.decode('ascii'), str(reply))""", 1))
M('c11-twin-relay-error-str-first', 'C11', 'silent',
  ('slimta/relay/smtp/__init__.py',
   """        if isinstance(command, bytes):
            # The HTTP relay names the command with a string.
            command = command.decode('ascii')""",
   """        if not isinstance(command, str):
            command = command.decode('ascii')""", 1))
