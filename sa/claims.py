"""Single source of truth for what is claimed (MANIFEST.json is generated from
this by tools/gen_manifest.py)."""

NOT_APPLICABLE = {}

# claimed in DESIGN.md but whose check is not built yet (kept honest in the
# manifest until the rule module exists and passes on the tree)
PENDING = {}
for _p in []:
    PENDING[_p] = ('not claimed yet: the static rules designed for this '
                   'property (DESIGN.md section 4) are not built yet')

# property -> dict(level_text, note, technique, design_ref)
CLAIMED = {}


def claim(pid, text, note, technique, ref):
    CLAIMED[pid] = dict(text=text, note=note, technique=technique, ref=ref)


claim('C14',
      'Static scope-coverage proof over the resolved, inlined call graph: '
      'every call chain from a session/attempt entry (Server.handle, '
      'Smtp/Lmtp/HttpRelayClient._run, PipeRelay.attempt and subclasses) to a '
      'blocking receive-side primitive lies inside a `with Timeout(...)` '
      'scope; the server data/command scopes are entered once per phase; '
      'every Timeout handler of the server ends the session with a flushed '
      '421; relay Timeout arms resolve the request with a transient error '
      '(typestate over all paths incl. exception edges). Decides the '
      'structure that makes the timing property hold for every stall point; '
      'does not measure time.',
      'Trusted: the table of blocking primitives (sa/tables.py), the '
      'resolver seeds, gevent.Timeout semantics (BaseException, scope-based '
      'cancellation). Send-side stalls, DNS and idle poll() waits are exempt '
      'by table with a reason.',
      'interprocedural scope-coverage analysis (inlined CFG + lexical '
      'with-frames) and may-typestate dataflow over exception edges',
      'DESIGN.md §4 C14')


claim('C07',
      'Static guard-dominance and typestate proof over the CFGs of all '
      'twelve Server._command_* handlers (helpers inlined), handle() and the '
      'SmtpSession callbacks: every callback site is dominated by its '
      'protocol preconditions; session flags become truthy only under the '
      'success code; exactly one final reply per normal path; every '
      'handler-mutable reply is followed by the close-code check which '
      'raises for 221/421 and ends the loop; transaction state is reset at '
      'every reset point; the Optional argument is never used unguarded. '
      'This is the inductive step (per-command guards + resets) of the '
      'abstract session state graph, decided for all paths rather than for '
      'sampled command sequences.',
      'Trusted: the precondition and reset tables in rules/c07.py (derived '
      'from the property text), must-facts kill rules (aliasing through '
      'unrelated objects is not tracked). Reply texts and the execution of '
      'concrete command sequences are not decided.',
      'guard-dominance (must-facts dataflow) and small-product typestate '
      'over statement-level CFGs with inlined helpers',
      'DESIGN.md §4 C07')

claim('C08',
      'Static proof obligations around the TLS boundary and AUTH: every '
      'site that replaces self.socket by wrap_socket(...) empties the '
      'receive buffer on its success path (effect-based discovery, both '
      'sides); the success path of STARTTLS resets EHLO identity, '
      'transaction flags and the STARTTLS extension (typestate); the AUTH '
      'callback is dominated by its gating facts; mechanism.server_attempt '
      'is unreachable with (insecure, unencrypted) and the insecure '
      'predicate is live for PLAIN/LOGIN of the installed pysasl (its '
      'sources are parsed, never imported); authenticated state only under '
      '235; no malformed-input exception class escapes _command_AUTH '
      '(exception-escape analysis with a decoder table).',
      'Trusted: DECODER_RAISES table, the pysasl class layout as parsed '
      'from site-packages, TLS itself. Byte-level behaviour of injected '
      'plaintext is decided only structurally (buffer emptied at the swap).',
      'effect-site discovery + must-after event dataflow, typestate, '
      'exception-escape analysis over inlined CFGs',
      'DESIGN.md §4 C08')


claim('C19',
      'Static proof obligations over the pool code: who-may-call for every '
      'pool growth primitive; the spawn guard (no idle client; unbounded or '
      'below pool_size) established on every path to _add_client (path '
      'search over a disjunctive guard); link/start/record on every path of '
      '_add_client; removal-before-respawn and the respawn condition in '
      '_remove_client; request typestate over all paths and exception edges '
      'of every RelayPoolClient._run (no stranded request); semaphore/size '
      'deltas and ordering in every BlockingDeque override plus who-may-call '
      'for un-overridden mutators; RSET after every failed transaction; '
      're-queue-then-leave on server timeouts.',
      'Trusted: gevent cooperative scheduling (no preemption between the '
      'guard and the spawn), DEQUE_SPEC table, the may-raise oracle of '
      'rules/pool.py (pure-external table; asserts treated as beliefs). '
      'Interleavings as executions are not explored.',
      'who-may-call queries, disjunctive-guard path search, may-typestate '
      'dataflow with exception edges, event counting per CFG path',
      'DESIGN.md §4 C19')

claim('C11',
      'Static proof obligations over all relay implementations: kind '
      'inference (flow-sensitive, interprocedural) shows what every '
      'Relay.attempt and every AsyncResult.set can return - never an '
      'exception object at top level; every Client reply obtained by the '
      'relay client is used or exempt by table; success results are set '
      'only on exception-free paths after both stages and only under '
      'positive acceptance facts (2xx status, exit status 0, not '
      'is_error()); permanent/transient classification is dominated by '
      'the reply class / exit status / resolver outcome; every anticipated '
      'failure resolves the request (typestate); subprocess bytes are '
      'decoded before being compared or put into a Reply.',
      'Trusted: kinds tables (EXTERNAL_RESULTS: e.g. Popen.communicate '
      'returns bytes), N2 exemption table, the may-raise oracle. What a '
      'real peer sends is not modelled; HTTP status mapping is left to the '
      'unit tests that pin it.',
      'abstract interpretation over a small kinds domain (flow-sensitive '
      'on CFGs, return-kind summaries), def-use checks, guard dominance, '
      'typestate',
      'DESIGN.md §4 C11')


claim('C01',
      'Static disposition discipline of one delivery attempt, decided over '
      'all paths of the queue code: a typestate over Queue._attempt (relay '
      'call raising Transient / Permanent / anything) shows every arm ends '
      'with exactly one disposition of the right kind; who-may-call plus '
      'guard facts for every removal of the stored message; retry '
      'exhaustion bounces each reply group exactly once before removing, a '
      'granted retry re-schedules and never removes; kind inference over '
      'all relays shows no failure object can be *returned*; the kind the '
      'queue passes to set_recipients_delivered is checked against what '
      'each backend does with it; index-space consistency of delivered '
      'marks; settled-set membership by disjunctive-guard path search. '
      'Liveness (eventual delivery) is not decided.',
      'Trusted: REMOVAL_SITES table, kinds tables, cooperative scheduling. '
      'Known findings (genuine, recorded in known_findings.json): the three '
      'accumulate-and-filter backends cannot store the set the queue '
      'passes and mix two index spaces.',
      'typestate over CFG with exception tokens, who-may-call, guard '
      'dominance, per-iteration event counting, abstract kinds',
      'DESIGN.md §4 C01')

claim('C02',
      'Static def-use and ordering obligations on the custody hand-over: '
      'in both edges every failure-class test is on the loop variable of a '
      'scan over the whole enqueue result list, that scan lies on every '
      'path after handoff(), no decision reads a fixed position; '
      'Queue._pool_imap joins every greenlet in every iteration and '
      'returns only after the loop is exhausted; enqueue writes through it; '
      'the DATA reply is sent only after the HAVE_DATA callback; '
      'ProxyQueue keeps the relay result and tests its entries.',
      'Trusted: gevent join()/get() semantics; the storage substrate. A '
      'slow or failing k-th write is covered because the reply is shown to '
      'depend on all results, not by executing it.',
      'def-use analysis, must-event dataflow, per-iteration counting, '
      'loop-exhaustion reachability',
      'DESIGN.md §4 C02')

claim('C03',
      'Static obligations on the double-dispatch guard and on delivered '
      'marks: every spawn of Queue._attempt is dominated by the '
      'in-flight test and the mark, with no yielding call between them; '
      'self.queued has an enumerated writer set and a de-duplicating '
      'insert guarded against queued and active ids; marks are (at least '
      'attempted to be) persisted before the message becomes dispatchable '
      'again; backends are classified from their source as in-place or '
      'accumulate-and-filter and checked for index-space consistency and '
      'for applying the marks on every fetch, in descending order.',
      'Trusted: cooperative scheduling (no preemption inside a region '
      'without yielding calls), NON_YIELDING table. Known findings: '
      'index-space mix-up in disk/redis/cloud (see known_findings.json).',
      'guard dominance, yield-point reachability between test and mark, '
      'who-may-write, typestate with infeasible-branch pruning',
      'DESIGN.md §4 C03')

claim('C12',
      'Static structure of the scheduler: the lock flush() takes is shown '
      '(held/not-held typestate over the inlined scheduler loop) never to '
      'be held across a blocking wait; every timetable write is paired '
      'with the id-set write; announcements go exactly once per entry '
      'through the de-duplicating insert, which always wakes the '
      'scheduler; re-queue order; the dropped prefix equals the dispatched '
      'entries; dispatch is dominated by now >= timestamp and the scan '
      'stops at the first entry not due; bounded sleep.',
      'Trusted: insort keeps the list sorted; gevent Event semantics; '
      'clock behaviour. Interleavings are not executed.',
      'lock typestate, must-event pairing, per-iteration counting, guard '
      'dominance on normalised comparisons',
      'DESIGN.md §4 C12')

claim('C13',
      'Static obligations on bounce generation: who-may-call for _bounce '
      'and bounce_factory; the spawn is dominated by a truthy sender of '
      'the very envelope that is bounced; Bounce is constructed with the '
      "constant '' sender and [envelope.sender]; _split_by_reply places "
      'each recipient exactly once per iteration and creates a group only '
      'on the exhausted-search path without an equal reply; both consumers '
      'call _perm_fail exactly once per group; the bounce goes to '
      'bounce_queue.enqueue and only when truthy.',
      'Trusted: Reply.__eq__ as the grouping relation. Rendered content is '
      'not decided.',
      'who-may-call, guard dominance, per-iteration event counting, '
      'typestate over the search loop',
      'DESIGN.md §4 C13')


claim('C04',
      'Static ordering and ownership obligations on the disk queue: the '
      'file-creating primitives (aio_write, mkstemp, rename, open-for-'
      'write) occur only in the temp-file writer; in AioFile.dump the '
      'rename of the temp file onto the final path is dominated by the '
      'temp-file creation, by every write and by offset >= data_len, and '
      'never sits in cleanup code; DiskStorage.write publishes the '
      'envelope before the meta before returning the id; metadata updates '
      'are read-modify-write through the atomic writer; the start-up scan '
      'handles a missing meta per id inside the loop; removal deletes both '
      'files and tolerates absence.  This fixes which file-system effects '
      'can occur and in which order - the space the crash-point quantifier '
      'ranges over.',
      'Trusted: POSIX rename atomicity, mkstemp in tmp_dir being on the '
      'same file system, pickle fidelity. Crash points are not executed.',
      'who-may-call, must-event ordering dataflow, guard dominance, '
      'lexical scope checks on the CFG',
      'DESIGN.md §4 C04')

claim('C05',
      'Reader half only, structural: the end-of-data sentinel (a None-or-'
      'index attribute, discovered by kind inference) is tested by identity '
      'only; lines are rewritten and EOD set only while EOD is None; the '
      'hand-over between the command buffer and the reader takes the whole '
      'buffer, clears it, returns lines[:EOD] and restores lines[EOD+1:]; '
      'bytes reach the reader only through the shared buffer and raw_recv. '
      'The sender/reader bijection under all segmentations is a value-level '
      'fact and is NOT decided.',
      'Trusted: regex semantics of eod_pattern / fullline_pattern; '
      'DataSender is not analysed. This is a thin claim: necessary '
      'structural conditions of the round trip, not the round trip.',
      'kind inference for sentinel discovery, guard dominance, slice-shape '
      'and def-use checks, who-may-call',
      'DESIGN.md §4 C05')

claim('C09',
      'Static single-buffer discipline that makes segmentation independence '
      'hold by construction: socket reads only in IO.raw_recv, raw_recv only '
      'from the buffered reader and the DATA reader, recv_buffer written '
      'only by IO and the two hand-over methods; every consumption in '
      'recv_line / recv_reply is dominated by a match of a pattern whose '
      'regex AST ends in a newline; hand-over in both directions; sentinel '
      'discipline for the empty message; a DATA abort that leaves the '
      'stream mid-message cannot return normally to the command loop '
      '(exception-token CFG from DataReader through the server).',
      'Trusted: sre regex parser for the pattern shape; the metamorphic '
      'relation itself (equal traces across segmentations) is not '
      'executed.',
      'who-may-call, regex AST inspection, guard dominance, exception-'
      'token reachability with fact-pruned branches',
      'DESIGN.md §4 C09')

claim('C10',
      'Static FIFO discipline of Client.reply_queue: ownership of the '
      'queue (append of a fresh Reply / pop(0) only); on every normal path '
      'of every command method appends minus wire commands is 0 (1 for '
      'unsolicited reads), the append precedes the send; non-pipelinable '
      'commands flush before returning, pipelinable ones on the not-'
      'PIPELINING branch, auth() before the SASL exchange; the drain loop '
      'flushes first, reads exactly one reply per popped object and stops '
      'on the empty queue; LMTP queues one data reply per accepted '
      'recipient and resets its recipient list at every reset point.',
      'Trusted: Reply.recv consumes exactly one reply (C17, not decided '
      'here).',
      'typestate difference counting, must-event ordering, per-iteration '
      'counting, who-may-call',
      'DESIGN.md §4 C10')

claim('C15',
      'Sibling agreement of the four storage backends with the interface '
      'and with their consumer, decided statically: overrides and arity; '
      'result shapes by kind inference (write never None, get a 2-tuple, '
      'load yields pairs, increment returns the incremented stored value, '
      'no dict unpacked as a tuple); maybe-missing keys of storage records '
      'are never subscripted (contradiction rule over builder and '
      'consumers); id claimed only after a negative existence test or '
      'atomic set-if-absent; argument-kind conformance and fetch filtering '
      'shared with C01/C03.',
      'Trusted: the substrates (redis, S3, file system); ID_EXEMPT table. '
      'Known findings: set_recipients_delivered of disk/redis/cloud cannot '
      'take the set the queue passes.',
      'interface conformance over the class hierarchy, abstract kinds, '
      'contradiction (maybe-missing key) analysis, typestate',
      'DESIGN.md §4 C15')

claim('C16',
      'Conservation by construction, decided per loop iteration and per '
      'path: each split places every recipient exactly once and emits one '
      'copy per group / bad recipient, keeping the original only for a '
      'single group; Envelope.copy deep-copies and every list handed to '
      'copy() in a loop is fresh; Date / Message-Id only under the absence '
      'test of the same header, Received through insert(0); forwarding '
      'rewrites only under changes > 0 and leaves the rule loop; the policy '
      'recursion substitutes outputs for the input and recurses with i+1 '
      'on every output exactly once and on an untouched envelope.',
      'Trusted: copy.deepcopy, email header object semantics; rewritten '
      'strings are not decided.',
      'per-iteration event counting, guard dominance, def-use freshness '
      'check, reachability',
      'DESIGN.md §4 C16')

claim('C18',
      'Bounds and failure channels of the PROXY parsers, decided '
      'statically: every read is recv_into with an explicit count into a '
      'view of a bytearray of protocol-constant size inside a loop bounded '
      'by that size (v1 107, initial 8, v2 16 then the declared length); '
      'exception-escape analysis with a decoder table shows only '
      'AssertionError / LocalConnection leave the parsers; the three '
      'handle() methods map AssertionError to the invalid address and still '
      'call the wrapped handler, LocalConnection to a return; signature '
      'constants agree. Exact consumption and returned addresses are '
      'value-level and NOT decided.',
      'Trusted: DECODER_RAISES table (verified in this sandbox), '
      'recv_into never writing past the given count.',
      'buffer-bound pattern check, exception-escape analysis over inlined '
      'CFG, handler reachability',
      'DESIGN.md §4 C18')

claim('C17',
      'Structural part only: (W1) the enhanced-status class is the first '
      'character of the reply code on every return of the getter; (W2) '
      'writer/reader agreement on reply-line framing - the separators and the '
      'line terminator IO.send_reply writes are accepted by '
      'reply_line_pattern (regex syntax tree) at those positions, non-final '
      'lines carry exactly the continuation marker recv_reply tests for and '
      'the final line does not; (W3) a non-reply line, a code that differs '
      'within one reply and undecodable text each reach `raise BadReply`, '
      'no other raised class escapes recv_reply, every code the parser '
      'yields passes Reply.code (regex inclusion); (W4) the parser neither '
      'spins nor stands still: the scan position moves past a non-empty '
      'match on every trip, every continuing trip of the outer loop reads '
      'more input (path-sensitive in the loop flag); (W5) recorded lines '
      'are consumed, only whole lines are consumed, one reply per '
      'Reply.recv. The byte-level round trip of arbitrary reply texts under '
      'all segmentations is value-level and is NOT decided.',
      'Trusted: Python tuple/regex semantics as read off re._parser trees; '
      'the message splitting by line_pattern and the UTF-8 round trip are '
      'not analysed.',
      'regex syntax-tree comparison of writer constants with the reader '
      'pattern, guard dominance, exception-escape analysis, loop-progress '
      'typestate',
      'DESIGN.md §4 C17')

claim('C20',
      'Structural part only - the body clause and the copy/refusal clauses: '
      '(E1) Envelope.parse cuts its input at ONE index into header block and '
      'payload (complementary slices at the end of the first match of the '
      'boundary pattern; no match => everything is header, empty payload); '
      '(E6) the boundary pattern, read as a regular-expression syntax tree, '
      'is a line end, white space only, and one more LF, its middle part '
      'cannot run over further lines; (E2) the payload reaches self.message '
      'through _merge_payloads untouched (payload itself or <prefix> + '
      'payload), flatten() returns self.message as it is, the attribute has '
      'no other writer; (E3) parser and generator are built with the same '
      'email policy; (E4) copy() is copy.deepcopy(self) and neither Envelope '
      'nor a subclass defines copying / pickling hooks; (E5) encode_7bit '
      're-raises exactly when no encoder was given and re-encodes only with '
      'one, both only after the ASCII probe of the body failed. What the '
      'stdlib email package does to header fields (order, folding, 8-bit '
      'values), the fixed point of re-parsing, pickle fidelity of '
      'email.message objects, the output of the 7-bit conversion and '
      '"never raises on arbitrary bytes" are value-level facts about code '
      'outside the repository and are NOT decided.',
      'Trusted: Python slice and regex semantics as read off re._parser '
      'trees; copy.deepcopy / pickle copy every attribute of an object '
      'without hooks.',
      'slice-complement check on the syntax tree, regex syntax-tree '
      'analysis, value provenance of the body attribute, who-may-write, '
      'guard dominance on the CFG',
      'DESIGN.md §4 C20')

claim('C06',
      'Structural part only - what writer and reader must agree on for any '
      'value to get through: (X1) the literals the SMTP client puts after '
      'the verb (`FROM:<`, `TO:<`) are accepted by the server\'s '
      'from_pattern / to_pattern (the regular-expression syntax tree is '
      'interpreted on the literal) and the closing delimiter is the one the '
      'server scans for; (X2) every MAIL parameter keyword the client '
      'appends is matched whole by param_keyword_pattern, the alphabet of '
      'what it can put behind `=` (xtext output computed from '
      'xtext_pattern, digits, `<>`) lies inside the class of '
      'param_value_pattern and contains neither `=` nor blanks, each '
      'parameter is sent only under the extension that announces it and '
      'UTF-8 only under SMTPUTF8 (guard dominance); (X3) the separators '
      'Extensions.build_string writes are parsed back by parse_pattern / '
      'line_pattern; (X4) HTTP transport: relay and edge agree role by '
      'role on the header names, use the same base64 functions and text '
      'codec, the edge\'s recipient splitter is disjoint from the base64 '
      'alphabet, reply header and parameter names agree; (X5) recipients '
      'are offered by a plain pass over envelope.recipients and appended / '
      'rebuilt in arrival order; (X6) what the server hands to the MAIL / '
      'RCPT callbacks is the text between the delimiters, sliced and '
      'decoded only (provenance walk; table ADDRESS_CUTTERS of operations '
      'that can cut inside an address); (X7) WsgiEdge._get_sender refuses '
      'no request on the falsiness of the sender header value (the empty '
      'value is the null sender); (X8) the SMTP relay hands send_data '
      'exactly the parts flatten() returned, whole and in order (a part '
      'boundary is a line start for the dot-stuffer). '
      'That every valid address and every body '
      'comes out as it went in (the value-level round trip through '
      '_encode / _xtext / find_outside_quotes / _gather_params, base64 and '
      'the email package) is NOT decided.',
      'Trusted: Python regex semantics as read off re._parser trees, '
      'base64 alphabet, wsgiref Headers.add_header output format.',
      'interpretation of regular-expression syntax trees on source '
      'literals, character-class inclusion, constant-table agreement '
      'between sibling implementations, guard dominance on the CFG, '
      'value-provenance walk over inlined frames',
      'DESIGN.md §4 C06')


def extend(pid, text, technique=None):
    CLAIMED[pid]['text'] += ' ' + text
    if technique:
        CLAIMED[pid]['technique'] += '; ' + technique


# rules added after the seeded rounds (DESIGN.md §10)
extend('C01', 'Also decided: both failure lists are examined after the '
       'classification loop; per-recipient result mappings are total; no '
       'builtin used by slimta.queue is shadowed by a submodule; the '
       'pool-order graph of the queue (slot holder waits for a slot) is '
       'acyclic; relay clients record acceptance only under acceptance '
       'facts.', 'lock-order style cycle detection over pool acquisitions')
extend('C02', 'Also decided: the list the policy chain returns is what is '
       'written and paired with the ids, and is never updated at an index '
       'enumerated from a snapshot of itself.')
extend('C03', 'Also decided: settled positions are looked up in '
       'envelope.recipients (value provenance), and the in-flight mark is '
       'released only after the removal was started or the next due time '
       'persisted.', 'def-use provenance, must-event dataflow')
extend('C04', 'Also decided: no explicitly raised exception below the '
       'per-id read escapes the scan loop; the file helpers reach the disk '
       'on every path; only DiskStorage.remove deletes files.',
       'exception-escape search over the inlined CFG')
extend('C05', 'Also decided: the reader\'s line pattern (regular-expression '
       'syntax tree) ends a line at every LF and only there, and every '
       'line-boundary literal and offset of the sender\'s stuffing agrees '
       'with it; every completed line is examined exactly once; cursor, '
       'line table and EOD are written by their owner methods only.',
       'regex syntax-tree analysis (re._parser), per-iteration event counts, '
       'who-may-write')
extend('C07', 'Also decided: STARTTLS is a reset point; an accepted MAIL '
       'installs a fresh Envelope on every 250 path; the edge changes the '
       'envelope only after the validator ran.')
extend('C08', 'Also decided: the authenticated flag is never cleared; the '
       'edge records the identity only after the validator ran.')
extend('C09', 'Also decided: Server.handle has no way out with unflushed '
       'replies; no raise of the IO receive path is conditioned on the '
       'amount buffered.', 'dirty/clean typestate over exception edges')
extend('C10', 'Also decided: Reply.recv reads exactly one reply; '
       'recv_reply consumes only whole lines.', 'event counting')
extend('C11', 'Also decided: the request is resolved before any further '
       'protocol step once the verdicts are in; resolver codes treated as '
       '"no such record" are authoritative negatives only; per-recipient '
       'result mappings are total.')
extend('C12', 'Also decided: the due predicate of _check_ready (scan or '
       'bisection cut, by tuple ordering) complements the sleep predicate of '
       '_wait_ready; the scan over the shared timetable is yield-free; every '
       'continuation of the marks call re-queues; the pool-order graph is '
       'acyclic and _pool_spawn never waits on behalf of a slot holder.',
       'lock-order style cycle detection over pool acquisitions')
extend('C13', 'Also decided: every _perm_fail quotes the reply of its own '
       'group; the configured bounce queue is chosen by identity, not '
       'truthiness; the embedded original is flatten() of the failed message '
       'itself, written untransformed.', 'value provenance')
extend('C14', 'Also decided: TLS shutdown (SSLSocket.unwrap) counts as a '
       'blocking primitive, from SmtpEdge.handle as well; the data timeout '
       'falls back to the command timeout (None-abstract evaluation of the '
       'constructor expression).', 'abstract evaluation over {None, set}')
extend('C15', 'Also decided: no mutable constructor default is kept; the '
       'disk scan isolates per-id failures; one id space per backend (key '
       'prefix algebra over write / load / per-message operations).',
       'affix (prefix) tag inference')
extend('C16', 'Also decided: header presence is tested case-insensitively '
       'and no policy deletes a header; no stale positional update in the '
       'policy chain.')
extend('C18', 'Also decided: inet_ntop only on a packed address cut by a '
       'struct format (else ValueError escapes); only the strict textual '
       'address parser is used.')
extend('C19', 'Also decided: at most one client is added per call of '
       '_check_idle / _remove_client; no silent Timeout encloses a protocol '
       'exchange; the failure reported for an attempt is built from that '
       'attempt.')


# rules added in rounds 3 - 5 (DESIGN.md §4 second table, §10)
extend('C01', 'Rounds 3-5: store-back discipline on caller-supplied '
       'mappings; who-may-delete a stored record; no method of Queue writes '
       'through one of its parameters (the envelope from store.get() is only '
       'read and copied); RelayPool.attempt returns AsyncResult.get(), '
       '.value only under established success; the index-space finding is '
       'keyed by whether the merge that precedes it still fails first.',
       'who-may-write / value-provenance walks')
extend('C02', 'Rounds 3-5: the greenlets _pool_imap joins are the ones it '
       'spawned; a 2xx of the HTTP edge only after handoff; failing results '
       'may be selected (next / filtered comprehension / class-level tuple '
       'of failure classes) instead of scanned.')
extend('C03', 'Rounds 3-5: settled positions are positions in the '
       'recipient list of the envelope at hand (index / enumerate / position '
       'table over that very list); no write through a parameter in Queue; '
       'state get() keeps on the instance is refreshed by every method that '
       'changes the stored record.', 'derived-state refresh (writer sets)')
extend('C04', 'Rounds 3-5: the publish is a rename (move / copy onto the '
       'final path is reported); write_env only from DiskStorage.write: the '
       'envelope file is written once, updates are one rename.')
extend('C05', 'Rounds 3-5: segmentation independence of the EOD write; the '
       'dot-stuffer gets whole parts; end marker values; one scan and EOD '
       'test between two socket reads; line-end tests of the sender use the '
       'reader\'s terminator.', 'constant folding of marker expressions, '
       'typestate over reads and scans')
extend('C07', 'Rounds 3-5: flags tested by truthiness are set to truthy '
       'values; the command alphabet (regex character sets after the '
       'dispatcher\'s transformations) cannot spell the greeting '
       'pseudo-command or the message-received callback; no except arm '
       'around the dispatch resumes the main loop; an aborted DATA ends the '
       'session.', 'regex character-set computation')
extend('C08', 'Rounds 3-5: who-may-extend the offered extension set; HELO '
       'empties it; derived state of Extensions refreshed; any socket '
       'replacement in the buffer owner is a swap; the AUTH gate\'s flags '
       'are truthy whenever set.')
extend('C09', 'Rounds 3-5: who-may-read recv_buffer (IO and the DATA '
       'hand-over only); the recv_buffer property setter assigns what the '
       'getter reads.')
extend('C10', 'Rounds 3-5: the reply FIFO is per instance (no class-level '
       'mutable changed in place through self).', 'class-body / __init__ '
       'ownership of mutable state')
extend('C11', 'Rounds 3-5: the RCPT pass runs to completion; stage order of '
       '_check_replies; RelayPool.attempt hands on the client\'s verdict '
       '(get(), never an unguarded .value); no text-conversion exception '
       '(table TEXT_RAISES) leaves MxSmtpRelay.attempt.',
       'exception-escape over the inlined CFG with a library raise table')
extend('C12', 'Rounds 3-5: no slack added to `now`; `now` is still current '
       'when the timed sleep is computed (no untimed wait before it); the '
       'timetable lock is part of the pool-order graph; cuts by takewhile / '
       'bisect / helper-returned slices are read.')
extend('C13', 'Rounds 3-5: no write to a reply before grouping; every '
       'failure with a sender reaches the bounce spawn (only the null-sender '
       'branch skips it); nothing handed to a bouncer is written '
       'afterwards; the assembled report is parsed untransformed.')
extend('C14', 'Rounds 3-5: a `*timeout*` argument forwarded to a base '
       'constructor reaches the base parameter of the same name; Timeout '
       'scopes built by a factory helper are recognised.')
extend('C15', 'Rounds 3-5: marks applied to a per-call object; remove() '
       'deletes before it returns; completion-ordered results not paired by '
       'position; state kept by get() is refreshed; no class-level shared '
       'mutable; no instance state updated on both sides of a yielding '
       'call.')
extend('C16', 'Rounds 3-5: no memoiser on functions returning lists / '
       'dicts; policy classes share no mutable state; every apply() returns '
       'None or a re-iterable (the queue walks the result twice); the '
       'splits may be written with comprehensions (source algebra: one '
       'copy per recipient / per group and bad recipient).',
       'return-kind inference, small source algebra for comprehension '
       'spellings')
extend('C17', 'Rounds 3-5: reply text cut at LF only; MULTILINE patterns '
       'cannot consume LF; derived state of Reply (memo filled by a '
       'property getter) is written by every writer of its sources.')
extend('C18', 'Rounds 3-5: v2 address provenance; buffers held by an '
       'object (constructor sizes) are followed.')
extend('C19', 'Rounds 3-5: T1 on the pool-client chains; no peer talker '
       'spawned outside the client greenlet; pool / client / deque classes '
       'share no mutable state.')
extend('C20', 'Rounds 3-5: every return of encode_7bit lies behind the '
       'ASCII probe of the body; no strict text codec lets an exception '
       'out of Envelope.parse.')

# rules added in round 6 (DESIGN.md §4 third table, §10 Round 6)
extend('C01', 'Round 6: settled positions named in the envelope at hand '
       '(= R3.6); the relay is not tested by truthiness where a Relay '
       'subclass overloads it.')
extend('C02', 'Round 6: after a failure test on a policy-chain result the '
       'reply that reaches HAVE_DATA is written before the handler returns.',
       'typestate on the reply written after a failure test')
extend('C05', 'Round 6: no fixed index into the part list of the dot '
       'stuffer; raw_send only from flush_send; handle_finished_line only '
       'per finished line.')
extend('C06', 'Round 6: the generator settings of Envelope.flatten do not '
       'depend on a caller-set argument (both ends flatten alike); the path '
       'of MAIL / RCPT is the address argument, encoded only (a rewrite '
       'guarded by a pattern with an ASCII-only class is reported).',
       'value-provenance walk from the command literal to the method '
       'argument; regex character-class inspection')
extend('C07', 'Round 6: the MAIL pattern rejects the RCPT keyword and vice '
       'versa (regex syntax tree run on the client literal, IGNORECASE '
       'honoured); the command reader returns only where the line search '
       'succeeded.', 'typestate on the line-search result with nullness '
       'pruning')
extend('C08', 'Round 6: the SASL challenge history belongs to one AUTH '
       'command (local list, or object state emptied before first use).')
extend('C09', 'Round 6: the data reader cuts lines at LF only (no '
       'splitlines / universal-newline splitter; cutter patterns end in a '
       'literal LF).')
extend('C10', 'Round 6: no raise of the receive path depends on the amount '
       'buffered (= G8, aliases of the buffer included); a resumed search '
       'for a multi-byte needle does not start at the old buffer length.')
extend('C11', 'Round 6: no attempt() returns an entry of a per-recipient '
       'table it received; an index reduced modulo len(A) indexes A; a '
       'whole-envelope failure is not made from one fixed entry of the '
       'per-recipient replies (D33 is the recorded instance).')
extend('C13', 'Round 6: relay errors carry a reply made for that failure '
       '(no module-level / imported Reply object); recipients and replies '
       'handed on together are not reordered separately.')
extend('C14', 'Round 6: no `assert self.client ...` inside an except arm of '
       '_run is reached with the attribute unset and the request unsettled '
       '(a connect timeout still ends the attempt).',
       'typestate (attribute set, request settled) over Timeout / assert '
       'edges')
extend('C15', 'Round 6: the disk backend never removes a directory; indexes '
       'of one set_recipients_delivered call are not adjusted against marks '
       'of the same call.')
extend('C16', 'Round 6: add_policy appends on every path that returns.')
extend('C17', 'Round 6: the separator group of reply_line_pattern cannot '
       'match nothing; what the message getter renders after the enhanced '
       'status code is a separator the setter\'s pattern takes.')
extend('C18', 'Round 6: table look-ups tested by truthiness have no falsy '
       'entry (AF_UNSPEC); the proxyproto_* log calls do not take the '
       'address apart outside a type guard.')
extend('C19', 'Round 6: the request typestate follows the identity of the '
       'live request (a stale name kept by the caller does not settle it) '
       'and reports a settle after the request was given back to the queue; '
       'only pool clients settle requests.')
extend('C20', 'Round 6: a cloned policy keeps the 78-byte refolding '
       'threshold; nothing branches on the identity of a policy object.')

# rules added in round 7 (DESIGN.md §4 fourth table, §10 Round 7)
extend('C01', 'Round 7: the scheduler clock is time.time() (= Q11); the '
       'default bounce factory always makes a bounce; relay greenlets are '
       'killed only from kill().')
extend('C02', 'Round 7: _pool_imap reads `.value` / `.exception` only off '
       'finished greenlets (unbounded join / positive ready test / '
       'blocking kill); RelayPool.attempt returns AsyncResult.get() '
       '(= N10).', 'typestate on greenlet completion')
extend('C03', 'Round 7: only TransientRelayError results are filed for '
       'another attempt - by class, tests of the reply\'s content are not '
       'guards (= R1.7); storage classes share no state, __init__ must '
       'bind the attribute on every path (= I17); the timetable is also '
       'not written through a local alias.')
extend('C04', 'Round 7: timetable writers incl. aliases (= R3.2: the '
       'start-up load goes through _add_queued); index space of the disk '
       'backend\'s delivered marks (= R3.4, known finding).')
extend('C05', 'Round 7: a line recv_line hands out has left recv_buffer '
       '(= G11); DataSender applies no rewriting operation to the content; '
       'dot removal and end-of-data test run for every finished line under '
       'no extra condition.')
extend('C06', 'Round 7: the receiving side un-stuffs every finished line '
       '(= R5.16); flatten() keeps no memo; every Content-Type the HTTP '
       'relay can write is accepted by the edge.')
extend('C07', 'Round 7: server-initiated hooks defined by a session class '
       'of the package cannot be spelled as a client verb; callbacks get a '
       'reply made for this command, never a canned module-level object.')
extend('C08', 'Round 7: no session handler rebinds its `reply` parameter; '
       'recv_line hands back whole lines only (= R7.15).')
extend('C09', 'Round 7: recv_line takes the line off recv_buffer; the '
       'receive path applies no rewriting operation per read; EOD / cursor '
       '/ line table are written by their owners under their conditions '
       'only (= R5.6).')
extend('C10', 'Round 7: one raw_recv per buffered_recv; LmtpClient.rcpttos '
       'is reset only by the enumerated resetters.')
extend('C11', 'Round 7: reply.command decoded only behind a type test '
       '(D34); no greenlet `.value` collected after a kill in the same '
       'function.')
extend('C13', 'Round 7: the default bounce factory always makes a bounce; '
       'settled positions named in the envelope at hand (= R3.6); no '
       'strict text conversion raises out of Bounce().',
       'escape analysis with a library raise table')
extend('C14', 'Round 7: blocking primitives of the relay modules are '
       'gevent\'s (no stdlib socket / sleep / subprocess call); no while '
       'loop re-arms a timeout for the same request; send-side primitives '
       '(sendall) of relay attempts are under a timeout as well.')
extend('C15', 'Round 7: a class-level counter is not updated through self '
       'in a class that keeps class-level state; records are deleted by '
       'remove() only (= R1.14).')
extend('C16', 'Round 7: Forward.mapping is only appended to; no policy '
       'touches Message._headers.')
extend('C17', 'Round 7: send_reply adds one wire line per text line; the '
       'message getter takes the ESC from the property.')
extend('C18', 'Round 7: struct formats with multi-byte numbers carry a '
       'byte-order mark.')
extend('C19', 'Round 7: _add_client is never deferred (spawn_later / '
       'callback); an HTTP client that goes on after a failed exchange has '
       'dropped its connection.')
extend('C20', 'Round 7: flatten() writes headers with the BytesGenerator '
       'on every path; the header block is parsed with headersonly.')

# rules added in round 8 (DESIGN.md §4 fifth table, §10 Round 8)
extend('C01', 'Round 8: the id index of the timetable is updated with ids '
       '(= Q12); Relay._attempt hands attempt() the queue\'s own envelope; '
       'a Timeout scope around the relay call adds the Timeout exit to the '
       'disposition analysis.')
extend('C02', 'Round 8: the edge keeps the queue it was given (no stand-in '
       'by truthiness); a relay failure never carries a positive peer reply '
       '(= N18).')
extend('C03', 'Round 8: set_recipients_delivered writes the marks on every '
       'path, in every backend.')
extend('C04', 'Round 8: the keep-awake reference of AioFile is given back '
       'only where it was taken (exception edges included); no late-binding '
       'closure is handed to a greenlet in the queue package.',
       'acquire / release typestate over exception edges')
extend('C06', 'Round 8: relay errors carry the reply they were given; the '
       'relay client\'s MAIL / RCPT steps build no reply of their own.')
extend('C07', 'Round 8: the close signal is caught by name only; the edge '
       'session forgets its envelope where the server forgets the '
       'transaction.')
extend('C08', 'Round 8: an exception of the application\'s validator is '
       'not swallowed; every attribute the receive path of IO writes is '
       'reset at the TLS handshake.')
extend('C09', 'Round 8: the DATA reader ends lines at a single byte '
       '(= R5.5).')
extend('C10', 'Round 8: the code group of the reply parser lies inside '
       'Reply.code\'s pattern position by position; recv_reply leaves no '
       'left-overs of a finished reply in IO.', 'regex syntax-tree inclusion')
extend('C11', 'Round 8: MxRecord.get reaches its permanent "no records" '
       'verdict only after a lookup of its own returned, or with records '
       'that are not expired; peer replies become relay errors only under '
       'is_error(); the LMTP relay reaches no stubbed client method; no '
       'except-name is read after its clause.')
extend('C12', 'Round 8: queued_ids is updated with ids only; the captured '
       'entries are dispatched as captured (nothing is taken out of the '
       'list in between); `del self.queued[:n]` is read as a timetable '
       'write.')
extend('C13', 'Round 8: the bounce quotes the reply it was given; '
       'BytesFormat applies no rewriting operation to what it renders.')
extend('C14', 'Round 8: one clock per pipe attempt (the timeout scope is '
       'not inside the recipient loop).')
extend('C15', 'Round 8: shared locks / semaphores are given back on every '
       'way out; no generator yields from inside a Timeout block.',
       'acquire / release typestate over exception edges')
extend('C16', 'Round 8: Queue does not edit the recipients of an envelope '
       'it was handed.')
extend('C17', 'Round 8: recv_reply raises BadReply only where a pattern '
       'ending in LF has matched on the path (or in the decode arm): no '
       'verdict on the part of a line that has arrived so far; send_reply '
       'appends the terminator on every path before cutting the text into '
       'lines.')
extend('C18', 'Round 8: the v1 line is cut at fixed offsets only where '
       'both frame tests dominate the cut.')
extend('C19', 'Round 8: nothing yields between the bound test of '
       '_check_idle and pool.add() (table POOL_GROWTH_YIELDERS); requests '
       'leave the pool queue through poll() only.')
extend('C20', 'Round 8: what parse() stores as the body ends in a slice of '
       'its input; no failing search (index / rindex) below parse().')

# rules added in round 9 (DESIGN.md §4 sixth table, §10 Round 9)
extend('C01', 'Round 9: the per-reply grouping of failed recipients loses '
       'nobody (= B3); a relay hands back a caught exception only if it is '
       'a RelayError; log_exception contains no unguarded look-up by a '
       'computed key; an inline "do I hold a slot" test of _pool_spawn '
       'must look at every bounded pool.')
extend('C02', 'Round 9: the policy walk updates no list by a stale '
       'position (= P5) and every envelope goes through every policy '
       '(= P1).')
extend('C03', 'Round 9: the kind the queue passes to '
       'set_recipients_delivered supports what the backends do with it '
       '(= R1.5; the list + set defect D13 is recorded under C03 too).')
extend('C04', 'Round 9: enqueue() joins the greenlet that writes (= R2.6); '
       'no Unpickler sub-class with its own find_class in the storage '
       'modules.')
extend('C05', 'Round 9: find() results are judged against -1; the end '
       'marker is matched on the line as stored in self.lines, not on the '
       'caller\'s fragment; a generator of the sender reads no attribute '
       'its creator assigns.', 'reaching definitions over the inlined CFG')
extend('C06', 'Round 9: the limit handed to DataReader is the advertised '
       'SIZE parameter only; no capture group of the SMTP patterns stands '
       'under a repetition.', 'regex syntax-tree walk')
extend('C07', 'Round 9: steps handle() starts on its own initiative cannot '
       'be spelled as a verb; StopIteration is not raised inside a '
       'generator; per-recipient state of the edge session is set anew '
       'where MAIL binds a fresh envelope; a delimiter that opens one arm '
       'of a repeated alternation in the server\'s patterns is no ordinary '
       'character of another arm.')
extend('C08', 'Round 9: server-initiated steps are no verbs (= R7.11); a '
       'decoded SASL response is never tested for truth.')
extend('C09', 'Round 9: one raw read per refill (= F11).')
extend('C10', 'Round 9: a verdict on a reply is given on whole lines only '
       '(= W12); a command method puts at most one command on the wire.',
       'event counting over the inlined CFG')
extend('C11', 'Round 9: a connection is re-used only after the clean-up '
       'RSET was answered (= L7); an advertised extension parameter is '
       'converted to a number only under try; the "no usable records" '
       'verdict is reached on the cached answer, not on a narrowed list.')
extend('C12', 'Round 9: flush() takes one snapshot of the timetable (the '
       'take-out is not inside a loop over the live timetable); the '
       'deferral test of _pool_spawn looks at every bounded pool; no entry '
       'is removed by position after a pool dispatch that followed the '
       'read of that position.')
extend('C13', 'Round 9: BytesFormat renders with no lossy error handler; '
       'no recipient is looked up by position after '
       'set_recipients_delivered may have run.',
       'may-event analysis over the inlined CFG')
extend('C14', 'Round 9: no lazy sequence (map / filter / generator) bound '
       'under `with Timeout` is first consumed after the block.')
extend('C15', 'Round 9: AioFile.dump advances by what was written (= R4.1); '
       'a redis pipeline object is never kept in an attribute.')
extend('C16', 'Round 9: the helper-return shape of Forward.apply is read '
       '(an unmatched recipient comes back as it went in); no id() keys in '
       'the queue and the policies.')
extend('C17', 'Round 9: line data is never compared by identity in the '
       'reply / command writers and readers.')
extend('C18', 'Round 9: split() of header text names its separator; the '
       'address handed to the wrapped handler is the parser\'s result or '
       'the invalid address.', 'reaching definitions')
extend('C19', 'Round 9: the respawn of _remove_client is not conditioned '
       'on the state of the exiting client.')

# rules added in round 10 (one seed per property; DESIGN.md §10 Round 10)
extend('C01', 'Round 10: the settled marks of a partial round are persisted '
       'before the message becomes dispatchable again, also when the '
       're-queue sits in a helper (= R3.3).')
extend('C03', 'Round 10: the try of Queue._attempt whose catch-all arm files '
       'the whole envelope for a retry covers the relay call only (= B18).')
extend('C07', 'Round 10: command handlers do not change IO.recv_buffer '
       '(= G1): unread command lines are owed their reply.')
extend('C09', 'Round 10: MessageTooBig is raised only where bytes are '
       'counted, or on self.size / self.max_size alone.')
extend('C11', 'Round 10: the output stream quoted by the pipe relays is not '
       'chosen by the truthiness of the raw stdout / stderr.')
extend('C13', 'Round 10: no outcome-recording method (bounce, removal, '
       'retry, settled marks) is reachable from the try body of '
       'Queue._attempt that the re-queueing catch-all arm belongs to.',
       'call-graph reachability from a try body')
extend('C15', 'Round 10: no strip / lstrip / rstrip with a multi-character '
       'constant holding a letter or digit in the storage backends.')
extend('C17', 'Round 10: the reply text reaches the socket only through the '
       'line cutter, or under a test for a bare LF.',
       'taint of the text through assignments, guards of each send site')
extend('C18', 'Round 10: a memo in shared state filled while a header is '
       'parsed is keyed on every parameter the function reads.')
extend('C19', 'Round 10: a container a relay client creates, fills per '
       'message and reads into the result is emptied at the top of '
       '_deliver or in its finally.')
