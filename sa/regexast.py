"""Small analyses over regular-expression syntax trees (re._parser): the
patterns are source constants, so what they accept is decided from their text
without running anything."""
from __future__ import annotations

import ast
import re
from typing import List, Optional, Set


def module_pattern(e, mod: str, name: str):
    """(pattern, flags, assign node) of  NAME = re.compile(<const>[, flags])
    at module level, or None."""
    m = e.p.modules.get(mod)
    if m is None:
        return None
    for st in m.tree.body:
        if isinstance(st, ast.Assign) and any(
                isinstance(t, ast.Name) and t.id == name
                for t in st.targets) and isinstance(st.value, ast.Call) \
                and ast.unparse(st.value.func) == 're.compile' and \
                st.value.args and _fold_text(m, st.value.args[0]) is not None:
            flags = 0
            fl = list(st.value.args[1:]) + [k.value
                                            for k in st.value.keywords]
            for f in fl:
                for x in ast.walk(f):
                    if isinstance(x, ast.Attribute) and hasattr(re, x.attr):
                        flags |= int(getattr(re, x.attr))
            return _fold_text(m, st.value.args[0]), flags, st
    return None


def _fold_text(m, x, depth=0):
    """the bytes / str a pattern expression denotes: a literal, a
    module-level name bound once to one, or a concatenation of those"""
    if depth > 4:
        return None
    if isinstance(x, ast.Constant):
        return x.value if isinstance(x.value, (bytes, str)) else None
    if isinstance(x, ast.Name):
        ds = [st.value for st in m.tree.body if isinstance(st, ast.Assign)
              and any(isinstance(t, ast.Name) and t.id == x.id
                      for t in st.targets)]
        return _fold_text(m, ds[0], depth + 1) if len(ds) == 1 else None
    if isinstance(x, ast.Attribute) and x.attr == 'pattern' and \
            isinstance(x.value, ast.Name):
        # OTHER.pattern: the text another compiled pattern was made from
        ds = [st.value for st in m.tree.body if isinstance(st, ast.Assign)
              and any(isinstance(t, ast.Name) and t.id == x.value.id
                      for t in st.targets)]
        if len(ds) == 1 and isinstance(ds[0], ast.Call) and \
                ast.unparse(ds[0].func) == 're.compile' and ds[0].args:
            return _fold_text(m, ds[0].args[0], depth + 1)
        return None
    if isinstance(x, ast.BinOp) and isinstance(x.op, ast.Add):
        a = _fold_text(m, x.left, depth + 1)
        b = _fold_text(m, x.right, depth + 1)
        if a is not None and b is not None and type(a) is type(b):
            return a + b
    return None


def parse(pattern, flags=0):
    from re import _parser as sp
    return sp.parse(pattern, flags)


def _consts():
    from re import _constants as sc
    return sc


def find_group(items, no: int):
    """items of capturing group `no` (depth-first), or None"""
    sc = _consts()
    for op, av in items:
        if op == sc.SUBPATTERN:
            g, _, _, sub = av
            if g == no:
                return list(sub)
            r = find_group(list(sub), no)
            if r is not None:
                return r
        elif op in (sc.MAX_REPEAT, sc.MIN_REPEAT):
            r = find_group(list(av[2]), no)
            if r is not None:
                return r
        elif op == sc.BRANCH:
            for alt in av[1]:
                r = find_group(list(alt), no)
                if r is not None:
                    return r
    return None


_DIGITS = set(range(48, 58))
_SPACE = {9, 10, 11, 12, 13, 32}
_WORD = _DIGITS | set(range(65, 91)) | set(range(97, 123)) | {95}


def charset(item, flags=0) -> Optional[Set[int]]:
    """Set of byte/code-point values (0..255) one single-character item
    matches, or None when the item is not a single-character item."""
    sc = _consts()
    op, av = item
    allc = set(range(256))

    def fold(cs):
        if not flags & re.IGNORECASE:
            return cs
        out = set(cs)
        for c in cs:
            if 65 <= c <= 90:
                out.add(c + 32)
            elif 97 <= c <= 122:
                out.add(c - 32)
        return out
    if op == sc.LITERAL:
        return fold({av}) if av < 256 else set()
    if op == sc.NOT_LITERAL:
        return allc - fold({av})
    if op == sc.ANY:
        return allc if flags & re.DOTALL else allc - {10}
    if op == sc.IN:
        neg = False
        out: Set[int] = set()
        for o, a in av:
            if o == sc.NEGATE:
                neg = True
            elif o == sc.LITERAL:
                out.add(a)
            elif o == sc.RANGE:
                out |= set(range(a[0], min(a[1], 255) + 1))
            elif o == sc.CATEGORY:
                out |= _category(a)
            else:
                return None
        out = fold(out)
        return (allc - out) if neg else out
    if op == sc.CATEGORY:
        return _category(av)
    return None


def _category(a) -> Set[int]:
    sc = _consts()
    allc = set(range(256))
    table = {sc.CATEGORY_DIGIT: _DIGITS, sc.CATEGORY_NOT_DIGIT: allc - _DIGITS,
             sc.CATEGORY_SPACE: _SPACE, sc.CATEGORY_NOT_SPACE: allc - _SPACE,
             sc.CATEGORY_WORD: _WORD, sc.CATEGORY_NOT_WORD: allc - _WORD}
    return set(table.get(a, allc))


def fixed_charsets(items, flags=0) -> Optional[List[Set[int]]]:
    """Per-position character sets when the items are a fixed-length sequence
    of single-character items (anchors ignored), else None."""
    sc = _consts()
    out = []
    for it in items:
        if it[0] == sc.AT:
            continue
        cs = charset(it, flags)
        if cs is None:
            return None
        out.append(cs)
    return out


def group_vars(fn: ast.AST):
    """{variable name: capture group number} for locals of `fn` bound to a
    capture group of some match: v = m.group(k); a, b = m.group(i, j);
    a, b, c = m.groups(); plus plain copies (w = v)."""
    out = {}
    for n in ast.walk(fn):
        if not isinstance(n, ast.Assign) or len(n.targets) != 1:
            continue
        t, v = n.targets[0], n.value
        if not (isinstance(v, ast.Call) and isinstance(v.func, ast.Attribute)):
            continue
        if v.func.attr == 'group' and isinstance(t, ast.Name) and \
                len(v.args) == 1 and isinstance(v.args[0], ast.Constant):
            out[t.id] = v.args[0].value
        elif v.func.attr == 'group' and isinstance(t, (ast.Tuple, ast.List)) \
                and len(v.args) == len(t.elts) and all(
                    isinstance(a, ast.Constant) for a in v.args):
            for el, a in zip(t.elts, v.args):
                if isinstance(el, ast.Name):
                    out[el.id] = a.value
        elif v.func.attr == 'groups' and isinstance(t, (ast.Tuple, ast.List)):
            for i, el in enumerate(t.elts):
                if isinstance(el, ast.Name):
                    out[el.id] = i + 1
    changed = True
    while changed:
        changed = False
        for n in ast.walk(fn):
            if isinstance(n, ast.Assign) and len(n.targets) == 1 and \
                    isinstance(n.targets[0], ast.Name) and \
                    isinstance(n.value, ast.Name) and \
                    n.value.id in out and n.targets[0].id not in out:
                out[n.targets[0].id] = out[n.value.id]
                changed = True
    return out


def group_of(expr: ast.AST, gv) -> Optional[int]:
    """capture group an expression denotes: m.group(k) or a variable of gv"""
    if isinstance(expr, ast.Call) and isinstance(expr.func, ast.Attribute) \
            and expr.func.attr == 'group' and len(expr.args) == 1 and \
            isinstance(expr.args[0], ast.Constant):
        return expr.args[0].value
    if isinstance(expr, ast.Name):
        return gv.get(expr.id)
    return None


def match_ends(items, data, flags=0, pos=0) -> Set[int]:
    """End positions of all matches of the item sequence against the constant
    `data` (bytes or str) when matching starts at `pos` - the regular
    expression is interpreted over its syntax tree on a literal taken from
    the source, nothing of the program runs.  Supports literals, classes,
    categories, ANY, repeats, groups, branches and the ^ $ anchors."""
    sc = _consts()
    items = list(items)

    def code(i):
        c = data[i]
        return c if isinstance(c, int) else ord(c)

    def m(idx, p):
        if idx == len(items):
            return {p}
        op, av = items[idx]
        rest = lambda q: m(idx + 1, q)
        if op == sc.AT:
            if av in (sc.AT_BEGINNING, sc.AT_BEGINNING_STRING):
                return rest(p) if p == 0 else set()
            if av in (sc.AT_END, sc.AT_END_STRING):
                return rest(p) if p == len(data) else set()
            return rest(p)
        if op in (sc.MAX_REPEAT, sc.MIN_REPEAT):
            lo, hi, sub = av
            sub = list(sub)
            out = set()
            frontier = {p}
            n = 0
            seen = set()
            while True:
                if n >= lo:
                    for q in frontier:
                        out |= rest(q)
                if n >= hi or not frontier or n > len(data) + 1:
                    break
                nxt = set()
                for q in frontier:
                    nxt |= match_ends(sub, data, flags, q) if False else \
                        _sub_ends(sub, q)
                nxt -= seen if n >= lo else set()
                seen |= nxt
                frontier = nxt
                n += 1
            return out
        if op == sc.SUBPATTERN:
            out = set()
            for q in _sub_ends(list(av[3]), p):
                out |= rest(q)
            return out
        if op == sc.BRANCH:
            out = set()
            for alt in av[1]:
                for q in _sub_ends(list(alt), p):
                    out |= rest(q)
            return out
        cs = charset((op, av), flags)
        if cs is None:
            raise ValueError('unsupported regex item %r' % (op,))
        if p < len(data) and code(p) in cs:
            return rest(p + 1)
        if p < len(data) and code(p) > 255 and op in (
                sc.NOT_LITERAL, sc.ANY):
            return rest(p + 1)
        return set()

    def _sub_ends(sub, p):
        return match_ends(sub, data, flags, p)
    # anchors inside sub-sequences see the absolute position
    return m(0, pos)


def all_charsets(items, flags=0):
    """character sets of every single-character item anywhere in the tree"""
    sc = _consts()
    out = []
    for it in items:
        op, av = it
        if op in (sc.MAX_REPEAT, sc.MIN_REPEAT):
            out += all_charsets(list(av[2]), flags)
        elif op == sc.SUBPATTERN:
            out += all_charsets(list(av[3]), flags)
        elif op == sc.BRANCH:
            for alt in av[1]:
                out += all_charsets(list(alt), flags)
        elif op == sc.AT:
            continue
        else:
            out.append(charset(it, flags))
    return out
