"""Static-analysis engine for the python-slimta property checks (pure stdlib)."""
