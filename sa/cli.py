"""./check <ID> [--tier quick|thorough] [--repo DIR] | --replay FILE"""
from __future__ import annotations

import argparse
import importlib
import json
import os
import sys
import traceback

from .model import AnalysisError
from .engine import Engine
from .report import Report

CLAIMED = ['C01', 'C02', 'C03', 'C04', 'C05', 'C07', 'C08', 'C09', 'C10',
           'C11', 'C12', 'C13', 'C14', 'C15', 'C16', 'C18', 'C19']


def run_check(prop: str, tier: str, repo: str, quiet=False) -> int:
    try:
        mod = importlib.import_module('sa.rules.' + prop.lower())
    except ImportError as ex:
        print('ANALYSIS-ERROR property=%s no rule module: %s' % (prop, ex))
        return 2
    rep = Report(prop, tier, repo)
    eng = None
    try:
        eng = Engine(repo, tier)
        mod.run(eng, rep)
    except AnalysisError as ex:
        rep.error(str(ex))
    except Exception:
        tb = traceback.format_exc()
        sys.stderr.write(tb)
        rep.error('internal error in checker: ' +
                  tb.strip().splitlines()[-1])
    return rep.finish(eng.r if eng is not None else None)


def main(argv=None) -> int:
    ap = argparse.ArgumentParser(prog='check')
    ap.add_argument('prop', nargs='?')
    ap.add_argument('--tier', default=os.environ.get('VERIF_TIER', 'quick'),
                    choices=['quick', 'thorough'])
    ap.add_argument('--repo', default=os.environ.get('SA_REPO', '/repo'))
    ap.add_argument('--replay')
    ap.add_argument('--all', action='store_true')
    ap.add_argument('--selftest', action='store_true')
    ap.add_argument('--only', action='append')
    ap.add_argument('-j', type=int, default=16)
    a = ap.parse_args(argv)
    if a.replay:
        with open(a.replay) as f:
            r = json.load(f)
        prop = r['property']
        import io
        import contextlib
        buf = io.StringIO()
        with contextlib.redirect_stdout(buf):
            run_check(prop, a.tier, a.repo)
        out = buf.getvalue()
        still = False
        lines = out.splitlines()
        for i, line in enumerate(lines):
            if line.startswith('VIOLATION '):
                path = line.split('replay=')[1].strip()
                try:
                    with open(path) as f:
                        if json.load(f)['key'] == r['key']:
                            still = True
                except OSError:
                    pass
        print('replay of %s' % r['key'])
        for k in ('rule', 'rule_text', 'where', 'construct', 'what'):
            print('  %s: %s' % (k, r.get(k)))
        for w in r.get('witness', []):
            print('    | ' + w)
        if still:
            print('VIOLATION property=%s replay=%s' % (prop, a.replay))
            print('result: still violated on %s' % a.repo)
            return 1
        print('result: this obligation is no longer violated on %s' % a.repo)
        return 0
    if a.selftest:
        from .selftest import main as st
        return st(a.only, a.j, a.repo)
    if a.all:
        worst = 0
        for p in CLAIMED:
            worst = max(worst, run_check(p, a.tier, a.repo))
        return worst
    if not a.prop:
        ap.error('property id required')
    return run_check(a.prop.upper(), a.tier, a.repo)


if __name__ == '__main__':
    sys.exit(main())
