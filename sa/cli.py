"""./check <ID> [--tier quick|thorough] [--repo DIR] | --replay FILE"""
from __future__ import annotations

import argparse
import importlib
import json
import os
import sys
import traceback

from .model import AnalysisError
from .engine import Engine
from .report import Report

CLAIMED = ['C01', 'C02', 'C03', 'C04', 'C05', 'C06', 'C07', 'C08', 'C09',
           'C10', 'C11', 'C12', 'C13', 'C14', 'C15', 'C16', 'C17', 'C18',
           'C19', 'C20']


def run_check(prop: str, tier: str, repo: str, quiet=False) -> int:
    try:
        mod = importlib.import_module('sa.rules.' + prop.lower())
    except ImportError as ex:
        print('ANALYSIS-ERROR property=%s no rule module: %s' % (prop, ex))
        return 2
    except Exception:
        # a broken rule module must never look like a violation
        tb = traceback.format_exc()
        sys.stderr.write(tb)
        print('ANALYSIS-ERROR property=%s rule module does not load: %s'
              % (prop, tb.strip().splitlines()[-1]))
        return 2
    rep = Report(prop, tier, repo)
    eng = None
    try:
        eng = Engine(repo, tier)
        mod.run(eng, rep)
        if tier == 'thorough':
            thorough_extras(prop, repo, rep)
    except AnalysisError as ex:
        rep.error(str(ex))
    except Exception:
        tb = traceback.format_exc()
        sys.stderr.write(tb)
        rep.error('internal error in checker: ' +
                  tb.strip().splitlines()[-1])
    if eng is not None:
        try:
            rep.gate(eng.p)
        except Exception:
            tb = traceback.format_exc()
            sys.stderr.write(tb)
            rep.error('internal error in the idiom gate: ' +
                      tb.strip().splitlines()[-1])
    return rep.finish(eng.r if eng is not None else None)


def thorough_extras(prop: str, repo: str, rep: Report):
    """Thorough tier = the quick rules with deeper bounds (rules consult
    engine.tier) plus a *sensitivity* pass: every must-fire variant of the
    self-test corpus for this property is applied to a scratch copy of the
    CURRENT tree and the named rule has to fire; every behaviour-preserving
    twin has to stay silent.  This shows on each run that the discharged
    obligations are not vacuous on this tree.  A variant whose edit pattern
    no longer matches the tree is reported as stale; sensitivity results are
    informational and never turn a holding property into an alarm."""
    from . import selftest
    from concurrent.futures import ProcessPoolExecutor
    import functools
    muts = [m for m in selftest.load_corpus() if m['prop'] == prop]
    res = []
    if muts:
        with ProcessPoolExecutor(max_workers=16) as ex:
            res = list(ex.map(functools.partial(selftest._run_one,
                                                repo=repo), muts))
    fire = [r for r, m in zip(res, muts) if m['expect'] != 'silent']
    twin = [r for r, m in zip(res, muts) if m['expect'] == 'silent']
    rep.extra['sensitivity'] = {
        'variants': len(fire),
        'fired': sum(1 for r in fire if r[1] == 'OK'),
        'missed': [r[0] for r in fire if r[1] == 'MISSED'],
        'stale': [r[0] for r in res if r[1] == 'STALE'],
        'silent_twins': len(twin),
        'twins_silent': sum(1 for r in twin if r[1] == 'OK'),
        'false_alarms_on_twins': [r[0] for r in twin
                                  if r[1] == 'FALSE-ALARM'],
    }
    rep.evaluations += len(res)
    s = rep.extra['sensitivity']
    rep.notes.append('sensitivity: %d/%d weakened variants of the current '
                     'tree detected, %d/%d behaviour-preserving twins '
                     'silent, %d stale' % (s['fired'], s['variants'],
                                           s['twins_silent'],
                                           s['silent_twins'],
                                           len(s['stale'])))


def main(argv=None) -> int:
    ap = argparse.ArgumentParser(prog='check')
    ap.add_argument('prop', nargs='?')
    ap.add_argument('--tier', default=os.environ.get('VERIF_TIER', 'quick'),
                    choices=['quick', 'thorough'])
    ap.add_argument('--repo', default=os.environ.get('SA_REPO', '/repo'))
    ap.add_argument('--replay')
    ap.add_argument('--all', action='store_true')
    ap.add_argument('--selftest', action='store_true')
    ap.add_argument('--only', action='append')
    ap.add_argument('-j', type=int, default=16)
    a = ap.parse_args(argv)
    if a.replay:
        with open(a.replay) as f:
            r = json.load(f)
        prop = r['property']
        import io
        import contextlib
        buf = io.StringIO()
        with contextlib.redirect_stdout(buf):
            run_check(prop, a.tier, a.repo)
        out = buf.getvalue()
        still = False
        lines = out.splitlines()
        for i, line in enumerate(lines):
            if line.startswith('VIOLATION '):
                path = line.split('replay=')[1].strip()
                try:
                    with open(path) as f:
                        if json.load(f)['key'] == r['key']:
                            still = True
                except OSError:
                    pass
        print('replay of %s' % r['key'])
        for k in ('rule', 'rule_text', 'where', 'construct', 'what'):
            print('  %s: %s' % (k, r.get(k)))
        for w in r.get('witness', []):
            print('    | ' + w)
        if still:
            print('VIOLATION property=%s replay=%s' % (prop, a.replay))
            print('result: still violated on %s' % a.repo)
            return 1
        print('result: this obligation is no longer violated on %s' % a.repo)
        return 0
    if a.selftest:
        from .selftest import main as st
        return st(a.only, a.j, a.repo)
    if a.all:
        worst = 0
        for p in CLAIMED:
            worst = max(worst, run_check(p, a.tier, a.repo))
        return worst
    if not a.prop:
        ap.error('property id required')
    return run_check(a.prop.upper(), a.tier, a.repo)


if __name__ == '__main__':
    sys.exit(main())
