"""Idioms the rules were confirmed against.

Every rule of /verif/sa/rules was armed after reading the idioms of the pinned
tree (and of the behaviour-preserving rewrites collected under /verif/benign).
Three idioms do not occur in the code the properties are anchored in and are
not modelled by the engine: *generator functions* other than the nine of the
pinned tree (a generator's body runs when it is consumed; the inliner reads a
call as running the callee), *namedtuple* results (field flow is not tracked)
and *module-level sentinel objects* (`X = object()`, told apart with `is`).

A VIOLATED obligation that sits in (or reaches, through calls on the same
object / module, depth 3) a function using one of them is reported as
*undecided* (exit 2) with the reason, never as a violation: the rule has not
been confirmed on that shape, and a definite alarm there would be a guess.
Rules that are *about* such an idiom (table IDIOM_AWARE) are exempt.
"""
from __future__ import annotations

import ast
import re
from typing import Optional

from .model import walk_own

PINNED_GENERATORS = {
    'slimta.cloudstorage.CloudStorage.wait',
    'slimta.cloudstorage.aws.SimpleQueueService.poll',
    'slimta.cloudstorage.aws.SimpleStorageService.list_messages',
    'slimta.diskstorage.DiskStorage.load',
    'slimta.lookup.drivers.dbapi2.DBAPI2Lookup.__init__.get_conn',
    'slimta.queue.dict.DictStorage.load',
    'slimta.redisstorage.RedisStorage.load',
    'slimta.smtp.datasender.DataSender._process_part',
    'slimta.util.dns.DNSResolver._distinct',
}
# rules whose subject is one of the idioms (they read it on purpose)
IDIOM_AWARE = {'R7.19', 'R5.19', 'T11', 'I24', 'W14', 'R4.12', 'P13',
               'P8', 'I21', 'R5.15', 'R5.8',
               'R8.18', 'I26', 'R4.14', 'X20', 'R7.21', 'V10'}


def _module_marks(m):
    """names bound at module level to a namedtuple class / an object()"""
    out = {}
    for st in m.tree.body:
        if isinstance(st, ast.Assign) and isinstance(st.value, ast.Call):
            fn = ast.unparse(st.value.func)
            kind = None
            if fn.rpartition('.')[2] in ('namedtuple', 'NamedTuple'):
                kind = 'the namedtuple `%s`'
            elif fn == 'object' and not st.value.args:
                kind = 'the sentinel object `%s`'
            if kind:
                for t in st.targets:
                    if isinstance(t, ast.Name):
                        out[t.id] = kind % t.id
        if isinstance(st, ast.Assign) and isinstance(st.value, ast.Call) \
                and isinstance(st.value.func, ast.Name) and \
                st.value.func.id in out and \
                'namedtuple' in out[st.value.func.id]:
            for t in st.targets:
                if isinstance(t, ast.Name):
                    out[t.id] = 'the namedtuple value `%s`' % t.id
        elif isinstance(st, ast.ClassDef) and any(
                ast.unparse(b).rpartition('.')[2] == 'NamedTuple'
                for b in st.bases):
            out[st.name] = 'the namedtuple `%s`' % st.name
    return out


def _idiom_of(f) -> Optional[str]:
    if f.qname not in PINNED_GENERATORS and any(
            isinstance(x, (ast.Yield, ast.YieldFrom))
            for x in walk_own(f.node)):
        return '%s is a generator function' % f.name
    marks = _module_marks(f.module)
    if marks:
        for x in walk_own(f.node):
            if isinstance(x, ast.Name) and x.id in marks:
                return '%s uses %s' % (f.name, marks[x.id])
    return None


def _closure(p, f, depth=3, seen=None):
    seen = seen if seen is not None else {}
    if f.qname in seen or depth < 0:
        return seen
    seen[f.qname] = f
    for x in walk_own(f.node):
        if not isinstance(x, ast.Call):
            continue
        tgt = None
        fx = x.func
        if isinstance(fx, ast.Attribute) and isinstance(fx.value, ast.Name) \
                and fx.value.id in ('self', 'cls') and f.cls is not None:
            tgt = p.lookup_method(f.cls.qname, fx.attr)
        elif isinstance(fx, ast.Name):
            tgt = p.functions.get(f.module.name + '.' + fx.id)
            if tgt is None and f.cls is not None:
                tgt = p.functions.get(f.cls.qname + '.' + fx.id)
        if tgt is not None:
            _closure(p, tgt, depth - 1, seen)
    return seen


def _functions_at(p, where: str, loc: str):
    out = []
    q = re.sub(r'\[.*\]$', '', where or '')
    if q in p.functions:
        out.append(p.functions[q])
    m = re.match(r'(.+?):(\d+)', loc or '')
    if m:
        rel, line = m.group(1), int(m.group(2))
        best = None
        for f in p.functions.values():
            if f.module.relpath == rel and f.node.lineno <= line <= (
                    getattr(f.node, 'end_lineno', None) or f.node.lineno):
                if best is None or f.node.lineno > best.node.lineno:
                    best = f
        if best is not None and best not in out:
            out.append(best)
    return out


def unconfirmed(p, rule: str, where: str, loc: str) -> Optional[str]:
    """reason why a violation of `rule` at this place is not asserted"""
    if rule in IDIOM_AWARE:
        return None
    starts = _functions_at(p, where, loc)
    # ... and the functions of the module that call them (the shape a helper
    # is used in is part of what the rule read)
    for f0 in starts:                  # (grows: callers of callers too,
        if len(starts) > 12:           #  bounded)
            break
        for g in p.functions.values():
            if g.module is not f0.module or g in starts:
                continue
            if any(isinstance(x, ast.Call) and (
                    (isinstance(x.func, ast.Attribute) and
                     x.func.attr == f0.name) or
                    (isinstance(x.func, ast.Name) and x.func.id == f0.name))
                    for x in walk_own(g.node)):
                starts.append(g)
    for f0 in starts:
        for f in _closure(p, f0).values():
            why = _idiom_of(f)
            if why:
                return why
    return None
