"""Must-facts analysis: which guard atoms hold on *every* path to a node.

An atom is (polarity, key) where key is the canonical text of a test
expression; local names are qualified with the id of the activation frame
(`reply#3.code == '250'`), `self` of frames that share the root receiver stays
unqualified.  Atoms are killed by writes to any access path they mention.
"""
from __future__ import annotations

import ast
import copy
from typing import Dict, FrozenSet, List, Optional, Set, Tuple

from .cfg import CFG, Node, Frame
from .model import walk_own, FuncInfo
from . import dataflow

Atom = Tuple[bool, str]

# keyed by the identity of the function's AST node; the node is kept in the
# entry so that the id cannot be reused while the entry exists (one process
# analyses several trees in the self-test / seed evaluation)
_LOCALS_CACHE: Dict[object, Tuple[object, Set[str]]] = {}


def local_names(f: FuncInfo) -> Set[str]:
    ent = _LOCALS_CACHE.get(id(f.node))
    if ent is not None and ent[0] is f.node:
        return ent[1]
    s = set(f.params) | set(f.kwonly)
    if f.vararg:
        s.add(f.vararg)
    if f.kwarg:
        s.add(f.kwarg)
    for n in walk_own(f.node):
        if isinstance(n, ast.Name) and isinstance(n.ctx, (ast.Store,
                                                          ast.Del)):
            s.add(n.id)
        elif isinstance(n, ast.ExceptHandler) and n.name:
            s.add(n.name)
    s |= set(f.nested)
    _LOCALS_CACHE[id(f.node)] = (f.node, s)
    return s


def _is_local(frame: Frame, name: str) -> Optional[Frame]:
    """Frame that owns `name` (closures read the defining frame's locals)."""
    f = frame.ctx.func
    if name in local_names(f):
        return frame
    g = f.parent
    fr = frame
    while g is not None:
        if name in local_names(g):
            # closure variable: qualify with the nearest frame of the parent
            p = fr.parent
            while p is not None and p.ctx.func is not g:
                p = p.parent
            return p or frame
        g = g.parent
    return None


_PROP_CACHE: Dict = {}


def _stores(func) -> Dict[str, list]:
    """name -> list of assigned values (None for a store that is not a
    plain `name = value`), attribute paths assigned in the function"""
    key = id(func.node)
    ent = _PROP_CACHE.get(key)
    if ent is not None and ent[0] is func.node:
        return ent[1]
    names: Dict[str, list] = {}
    attrs = set()
    for n in walk_own(func.node):
        if isinstance(n, ast.Assign):
            for t in n.targets:
                if isinstance(t, ast.Name):
                    names.setdefault(t.id, []).append(
                        n.value if len(n.targets) == 1 else None)
                elif isinstance(t, (ast.Tuple, ast.List)) and \
                        len(n.targets) == 1 and all(
                            isinstance(x, ast.Name) for x in t.elts) and \
                        isinstance(n.value, ast.Call):
                    # a, b = helper(...): element i of the helper's result
                    for i, x in enumerate(t.elts):
                        names.setdefault(x.id, []).append(
                            ('elt', n.value, i, len(t.elts)))
                else:
                    for x in ast.walk(t):
                        if isinstance(x, ast.Name) and \
                                isinstance(x.ctx, ast.Store):
                            names.setdefault(x.id, []).append(None)
                        if isinstance(x, ast.Attribute) and \
                                isinstance(x.ctx, ast.Store):
                            attrs.add(ast.unparse(x))
        elif isinstance(n, (ast.AugAssign, ast.AnnAssign)):
            t = n.target
            if isinstance(t, ast.Name):
                names.setdefault(t.id, []).append(None)
            elif isinstance(t, ast.Attribute):
                attrs.add(ast.unparse(t))
        elif isinstance(n, (ast.For, ast.comprehension, ast.With,
                            ast.ExceptHandler, ast.NamedExpr, ast.Delete,
                            ast.Import, ast.ImportFrom)):
            for x in ast.walk(n.target if hasattr(n, 'target') else n):
                if isinstance(x, ast.Name) and isinstance(
                        x.ctx, (ast.Store, ast.Del)):
                    names.setdefault(x.id, []).append(None)
            if isinstance(n, ast.ExceptHandler) and n.name:
                names.setdefault(n.name, []).append(None)
            if isinstance(n, ast.With):
                for it in n.items:
                    if it.optional_vars is not None:
                        for x in ast.walk(it.optional_vars):
                            if isinstance(x, ast.Name):
                                names.setdefault(x.id, []).append(None)
    _PROP_CACHE[key] = (func.node, (names, attrs))
    return _PROP_CACHE[key][1]


def _propagated(owner: Frame, name: str):
    """(expression, frame) that `name` of frame `owner` stands for, or
    None."""
    func = owner.ctx.func
    names, attrs = _stores(func)
    stores = names.get(name, [])
    if name in func.params:
        if stores:
            return None                     # parameter re-bound
        b = getattr(owner, 'bindings', {}).get(name)
        if b is not None:
            return b
        return None
    if len(stores) == 1 and isinstance(stores[0], tuple):
        # element of the tuple an inlined helper returns
        _, call, i, n_el = stores[0]
        kids = [c for c in getattr(owner, 'children', ()) if c.call is call]
        if len(kids) == 1:
            callee = kids[0]
            rets = [r for r in walk_own(callee.ctx.func.node)
                    if isinstance(r, ast.Return)]
            if len(rets) == 1 and isinstance(rets[0].value, ast.Tuple) and \
                    len(rets[0].value.elts) == n_el:
                el = rets[0].value.elts[i]
                x = el
                while isinstance(x, ast.Attribute):
                    x = x.value
                if isinstance(el, (ast.Name, ast.Attribute)) and \
                        isinstance(x, ast.Name):
                    return el, callee
        return None
    if len(stores) == 1 and stores[0] is not None:
        v = stores[0]
        x = v
        while isinstance(x, ast.Attribute):
            x = x.value
        if isinstance(v, ast.Attribute) and isinstance(x, ast.Name) and \
                x.id == func.self_name and ast.unparse(v) not in attrs:
            return v, owner
        # flag = bool(self.attr): as far as truth tests go, the attribute
        if isinstance(v, ast.Call) and isinstance(v.func, ast.Name) and \
                v.func.id == 'bool' and len(v.args) == 1 and \
                isinstance(v.args[0], ast.Attribute):
            y = v.args[0]
            while isinstance(y, ast.Attribute):
                y = y.value
            if isinstance(y, ast.Name) and y.id == func.self_name and \
                    ast.unparse(v.args[0]) not in attrs:
                return v.args[0], owner
    return None


class _Canon(ast.NodeTransformer):
    depth = 0

    def __init__(self, frame: Frame):
        self.frame = frame

    def _visit_comp(self, node):
        # variables bound by the comprehension itself are bound variables of
        # the expression, not locals of the frame
        names = {x.id for g in node.generators for x in ast.walk(g.target)
                 if isinstance(x, ast.Name)}
        old = getattr(self, 'bound', frozenset())
        self.bound = old | names
        try:
            return self.generic_visit(node)
        finally:
            self.bound = old
    visit_ListComp = visit_SetComp = visit_GeneratorExp = \
        visit_DictComp = _visit_comp

    def visit_Name(self, node):
        if node.id in getattr(self, 'bound', ()):
            return ast.Name(id=node.id, ctx=ast.Load())
        fr = self.frame
        sn = fr.ctx.func.self_name
        if node.id == sn:
            if fr.self_same:
                return ast.Name(id='self', ctx=ast.Load())
            return ast.Name(id='self#%d' % fr.id, ctx=ast.Load())
        owner = _is_local(fr, node.id)
        if owner is not None and owner.parent is not None and \
                node.id in owner.ctx.func.params and \
                not isinstance(getattr(node, 'ctx', None),
                               (ast.Store, ast.Del)):
            # a parameter the inlined call was given a literal for (and that
            # is never re-bound) is that literal
            from .model import walk_own
            for k, v in owner.ctx.consts:
                if k == node.id and isinstance(
                        v, (str, bytes, int, bool, type(None))) and not any(
                        isinstance(x, ast.Name) and x.id == node.id and
                        isinstance(x.ctx, (ast.Store, ast.Del))
                        for x in walk_own(owner.ctx.func.node)):
                    return ast.Constant(value=v)
        if owner is not None:
            # copy propagation, so that facts are phrased in one vocabulary:
            # a parameter of an inlined callee that is never re-bound stands
            # for the caller's argument; a local bound once to an attribute
            # path of self that the function never assigns stands for it
            if self.depth < 6 and not isinstance(
                    getattr(node, 'ctx', None), (ast.Store, ast.Del)):
                sub = _propagated(owner, node.id)
                if sub is not None:
                    ex, fr2 = sub
                    c = _Canon(fr2)
                    c.depth = self.depth + 1
                    c.bound = getattr(self, 'bound', frozenset())
                    return c.visit(copy.deepcopy(ex))
            return ast.Name(id='%s#%d' % (node.id, owner.id), ctx=ast.Load())
        # a module-level display of literals (CLOSE_CODES = ('221', '421'))
        # reads as the display: `x in CLOSE_CODES` is `x in ('221', '421')`
        try:
            m = fr.ctx.func.module
            v = m.globals.get(node.id)
            if isinstance(v, (ast.Tuple, ast.List, ast.Set)) and v.elts and \
                    all(isinstance(x, ast.Constant) for x in v.elts) and \
                    sum(1 for st in m.tree.body
                        if isinstance(st, ast.Assign) and any(
                            isinstance(t, ast.Name) and t.id == node.id
                            for t in st.targets)) == 1 and not isinstance(
                        getattr(node, 'ctx', None), (ast.Store, ast.Del)):
                return copy.deepcopy(v)
        except Exception:
            pass
        return ast.Name(id=node.id, ctx=ast.Load())

    def visit_Lambda(self, node):
        return node

    def visit_Attribute(self, node):
        # `self.<NAME>` with NAME a class-level literal (a constant or a
        # display of constants) that no method re-binds is that literal
        try:
            lit = self._class_literal(node)
        except Exception:
            lit = None
        if lit is not None:
            return lit
        return self.generic_visit(node)

    def _class_literal(self, node):
        fr = self.frame
        if not (isinstance(node.value, ast.Name) and
                isinstance(node.ctx, ast.Load) and
                node.value.id in (fr.ctx.func.self_name, 'cls')):
            return None
        cls = fr.ctx.func.cls
        if cls is None:
            return None
        v = cls.class_attrs.get(node.attr)
        if v is None:
            return None
        ok = isinstance(v, ast.Constant) and isinstance(
            v.value, (str, bytes, int)) and not isinstance(v.value, bool)
        if isinstance(v, (ast.Tuple, ast.List, ast.Set)) and v.elts and all(
                isinstance(x, ast.Constant) for x in v.elts):
            ok = True
        if not ok:
            return None
        for m in cls.methods.values():
            for x in ast.walk(m.node):
                if isinstance(x, ast.Attribute) and x.attr == node.attr and \
                        isinstance(x.ctx, (ast.Store, ast.Del)):
                    return None
        return copy.deepcopy(v)

    def visit_Subscript(self, node):
        # a look-up in a class-level table of literals with a key that is a
        # literal here (also: a parameter the inlined call was given a
        # literal for) is the literal it yields
        try:
            v = self._table_lookup(node)
        except Exception:
            v = None
        if v is not None:
            return v
        return self.generic_visit(node)

    def _table_lookup(self, node):
        fr = self.frame
        val = node.value
        if not (isinstance(val, ast.Attribute) and
                isinstance(val.value, ast.Name) and
                val.value.id in (fr.ctx.func.self_name, 'cls', 'self')):
            return None
        cls = fr.ctx.func.cls
        if cls is None:
            return None
        table = cls.class_attrs.get(val.attr)
        if not (isinstance(table, ast.Dict) and table.keys and all(
                isinstance(k, ast.Constant) for k in table.keys) and all(
                isinstance(x, ast.Constant) for x in table.values)):
            return None
        # the table is never re-bound or written through self
        for m in cls.methods.values():
            for x in ast.walk(m.node):
                if isinstance(x, ast.Attribute) and x.attr == val.attr and \
                        isinstance(x.ctx, (ast.Store, ast.Del)):
                    return None
                if isinstance(x, ast.Subscript) and \
                        isinstance(x.ctx, (ast.Store, ast.Del)) and \
                        isinstance(x.value, ast.Attribute) and \
                        x.value.attr == val.attr:
                    return None
        key = node.slice
        kv = None
        if isinstance(key, ast.Constant):
            kv = key.value
        elif isinstance(key, ast.Name) and key.id in fr.ctx.func.params:
            if _stores(fr.ctx.func)[0].get(key.id):
                return None
            for k, v in fr.ctx.consts:
                if k == key.id:
                    kv = v
        if kv is None:
            return None
        for k, v in zip(table.keys, table.values):
            if k.value == kv:
                return ast.Constant(value=v.value)
        return None


def canon(e: ast.expr, frame: Frame) -> str:
    t = _Canon(frame).visit(copy.deepcopy(e))
    return ast.unparse(t)


def path_of(e: ast.expr, frame: Frame) -> Optional[str]:
    """Canonical access path for Name / Attribute chains, else None."""
    if isinstance(e, (ast.Name, ast.Attribute)):
        x = e
        while isinstance(x, ast.Attribute):
            x = x.value
        if isinstance(x, ast.Name):
            return canon(e, frame)
    return None


def paths_in(e: ast.expr, frame: Frame) -> Set[str]:
    out = set()

    def rec(x):
        p = path_of(x, frame) if isinstance(x, (ast.Name, ast.Attribute)) \
            else None
        if p is not None:
            out.add(p)
            # prefixes as well
            y = x
            while isinstance(y, ast.Attribute):
                y = y.value
                q = path_of(y, frame)
                if q:
                    out.add(q)
            return
        for c in ast.iter_child_nodes(x):
            rec(c)
    rec(e)
    return out


_KEY_PATHS: Dict[str, FrozenSet[str]] = {}


def key_paths(key: str) -> FrozenSet[str]:
    ps = _KEY_PATHS.get(key)
    if ps is None:
        try:
            tree = ast.parse(key.replace('#', '__F__'), mode='eval').body
        except SyntaxError:
            ps = frozenset()
        else:
            out = set()

            def rec(x):
                if isinstance(x, (ast.Name, ast.Attribute)):
                    y = x
                    while isinstance(y, ast.Attribute):
                        y = y.value
                    if isinstance(y, ast.Name):
                        z = x
                        while True:
                            out.add(ast.unparse(z).replace('__F__', '#'))
                            if isinstance(z, ast.Attribute):
                                z = z.value
                            else:
                                break
                        return
                for c in ast.iter_child_nodes(x):
                    rec(c)
            rec(tree)
            ps = frozenset(out)
        _KEY_PATHS[key] = ps
    return ps


def _const(e) -> Tuple[bool, object]:
    if isinstance(e, ast.Constant):
        return True, e.value
    return False, None


def atoms_of_test(e: ast.expr, pol: bool, frame: Frame) -> List[Atom]:
    """Atoms established when test expression `e` evaluates to `pol`."""
    # bool(x) is the truth of x
    while isinstance(e, ast.Call) and isinstance(e.func, ast.Name) \
            and e.func.id == 'bool' and len(e.args) == 1 and \
            not e.keywords:
        e = e.args[0]
    if isinstance(e, ast.UnaryOp) and isinstance(e.op, ast.Not):
        return atoms_of_test(e.operand, not pol, frame)
    if isinstance(e, ast.Compare) and len(e.ops) == 1:
        op = e.ops[0]
        l, r = e.left, e.comparators[0]
        if isinstance(op, (ast.Is, ast.IsNot)):
            p = pol if isinstance(op, ast.Is) else not pol
            if isinstance(l, ast.Constant) and not isinstance(r,
                                                               ast.Constant):
                l, r = r, l
            return [(p, '%s is %s' % (canon(l, frame), canon(r, frame)))]
        if isinstance(op, (ast.Eq, ast.NotEq)):
            p = pol if isinstance(op, ast.Eq) else not pol
            if isinstance(l, ast.Constant) and not isinstance(r,
                                                               ast.Constant):
                l, r = r, l
            return [(p, '%s == %s' % (canon(l, frame), canon(r, frame)))]
        if isinstance(op, (ast.In, ast.NotIn)):
            p = pol if isinstance(op, ast.In) else not pol
            return [(p, '%s in %s' % (canon(l, frame), canon(r, frame)))]
        if isinstance(op, (ast.Lt, ast.LtE, ast.Gt, ast.GtE)):
            a, b = canon(l, frame), canon(r, frame)
            # normalise to '<' / '<=' with positive polarity
            if isinstance(op, ast.Gt):
                a, b, o = b, a, '<'
            elif isinstance(op, ast.GtE):
                a, b, o = b, a, '<='
            elif isinstance(op, ast.Lt):
                o = '<'
            else:
                o = '<='
            if not pol:
                a, b = b, a
                o = '<=' if o == '<' else '<'
            return [(True, '%s %s %s' % (a, o, b))]
    out = [(pol, canon(e, frame))]
    if pol and isinstance(e, ast.Name):
        # `m = arg and pattern.match(arg)` ... `if m:` - a truthy `a and b`
        # means every operand was truthy
        try:
            fn = frame.ctx.func
            from .model import walk_own
            stores = [x for x in walk_own(fn.node) if isinstance(x, ast.Name)
                      and x.id == e.id and isinstance(x.ctx, ast.Store)]
            if len(stores) == 1 and e.id not in fn.params:
                for a in walk_own(fn.node):
                    if isinstance(a, ast.Assign) and len(a.targets) == 1 and \
                            a.targets[0] is stores[0] and \
                            isinstance(a.value, ast.BoolOp) and \
                            isinstance(a.value.op, ast.And):
                        for v in a.value.values:
                            if isinstance(v, (ast.Name, ast.Attribute)):
                                # (the operand must not have been re-bound
                                # in between: parameters / single stores)
                                nm = v.id if isinstance(v, ast.Name) else None
                                if nm is not None and sum(
                                        1 for x in walk_own(fn.node)
                                        if isinstance(x, ast.Name) and
                                        x.id == nm and
                                        isinstance(x.ctx, ast.Store)) > (
                                        0 if nm in fn.params else 1):
                                    continue
                                out.append((True, canon(v, frame)))
        except Exception:
            pass
    return out


def parse_atom(text: str) -> Atom:
    """Rule-side helper: 'not self.x' / 'self.x' / "reply.code == '250'".
    The text must already use canonical names."""
    e = ast.parse(text.replace('#', '__F__'), mode='eval').body

    class Fr:      # minimal frame that keeps names as they are
        pass
    pol = True
    while isinstance(e, ast.UnaryOp) and isinstance(e.op, ast.Not):
        pol = not pol
        e = e.operand
    atoms = _atoms_plain(e, pol)
    return atoms[0]


def _atoms_plain(e, pol) -> List[Atom]:
    class _Id(ast.NodeTransformer):
        pass
    fake = _FakeFrame()
    out = atoms_of_test(e, pol, fake)
    return [(p, k.replace('__F__', '#')) for p, k in out]


class _FakeFunc:
    self_name = None
    parent = None
    qname = '<rule>'
    params: List[str] = []
    kwonly: List[str] = []
    vararg = None
    kwarg = None
    nested: Dict[str, object] = {}

    class node:
        body: List = []


class _FakeCtx:
    func = _FakeFunc()


class _FakeFrame:
    ctx = _FakeCtx()
    self_same = True
    id = 0
    parent = None


_LOCALS_CACHE[id(_FakeFunc.node)] = (_FakeFunc.node, set())


# ------------------------------------------------------------- entailment

def _split_eq(key: str):
    if ' == ' in key:
        l, _, r = key.partition(' == ')
        try:
            v = ast.literal_eval(r)
        except Exception:
            return None
        return l, v
    return None


def _const_truth(key: str):
    """truth value of an atom whose text is a comparison of literals only
    (`None is None`, after a parameter was replaced by the literal its call
    site - or its default - gives it), else None"""
    try:
        t = ast.parse(key, mode='eval').body
    except SyntaxError:
        return None
    ok = (ast.Compare, ast.Constant, ast.UnaryOp, ast.BoolOp, ast.cmpop,
          ast.unaryop, ast.boolop, ast.expr_context)
    if not isinstance(t, (ast.Compare, ast.Constant)) or any(
            not isinstance(x, ok) for x in ast.walk(t)):
        return None
    try:
        return bool(eval(compile(ast.Expression(t), '<atom>', 'eval'),
                         {'__builtins__': {}}, {}))
    except Exception:
        return None


def holds(state: FrozenSet[Atom], atom: Atom) -> bool:
    if state is None:
        return True      # unreachable node: vacuous
    if atom in state:
        return True
    pol, key = atom
    # truthiness of X
    if ' ' not in key and '(' not in key:
        for p, k in state:
            if p and k.startswith(key + ' == '):
                eq = _split_eq(k)
                if eq and eq[0] == key:
                    if bool(eq[1]) == pol:
                        return True
            if p and k == key + ' is None' and not pol:
                return True
    # X is None
    if key.endswith(' is None'):
        x = key[:-len(' is None')]
        for p, k in state:
            if not pol:
                if p and k == x:
                    return True
                if p and k.startswith(x + ' == '):
                    eq = _split_eq(k)
                    if eq and eq[0] == x and eq[1] is not None:
                        return True
                if p and k.startswith('isinstance(' + x + ', '):
                    return True
    # X == c
    eqw = _split_eq(key)
    if eqw is not None:
        x, c = eqw
        for p, k in state:
            if p and k.startswith(x + ' == '):
                e2 = _split_eq(k)
                if e2 and e2[0] == x:
                    if pol and e2[1] == c:
                        return True
                    if not pol and e2[1] != c:
                        return True
            if not pol and p and k == x + ' is None' and c is not None:
                return True
            if pol is False and p is False and k == x and c:
                return True      # falsy X cannot equal a truthy constant
    # X in (a, b)
    if ' in ' in key and pol:
        x, _, rest = key.partition(' in ')
        try:
            vals = ast.literal_eval(rest)
        except Exception:
            vals = None
        if isinstance(vals, (tuple, list, set)):
            for p, k in state:
                if p and k.startswith(x + ' == '):
                    e2 = _split_eq(k)
                    if e2 and e2[0] == x and e2[1] in vals:
                        return True
    return False


def holds_all(state, atoms) -> bool:
    return all(holds(state, a) for a in atoms)


# --------------------------------------------------------------- analysis

class Facts:
    """Runs the must-facts analysis on a CFG."""

    def __init__(self, cfg: CFG, writes_of=None, start: Node = None,
                 recv_writes=None, arg_mutated=None):
        """writes_of(call_node) -> set of self-attribute names the (non
        inlined) callee may assign on the *same* receiver, or None if unknown
        (then every self.* atom is killed)."""
        self.cfg = cfg
        self.writes_of = writes_of
        self.recv_writes = recv_writes
        self.arg_mutated = arg_mutated
        self.IN = dataflow.forward(cfg, frozenset(), self._transfer,
                                   lambda a, b: a & b, start=start)

    def at(self, node: Node) -> Optional[FrozenSet[Atom]]:
        return self.IN.get(node.id)

    def infeasible(self, node: Node, label) -> bool:
        """A test edge contradicted by the facts that hold on every path
        reaching the test (within this analysis' start region)."""
        if node.kind != 'test' or label not in ('T', 'F'):
            return False
        st = self.IN.get(node.id)
        if st is None:
            return True
        for p, k in atoms_of_test(node.ast, label == 'T', node.frame):
            if holds(st, (not p, k)):
                return True
            ct = _const_truth(k)
            if ct is not None and ct != p:
                return True
        return False

    def after(self, node: Node, label='next'):
        st = self.IN.get(node.id)
        if st is None:
            return None
        return dataflow.pick(self._transfer(node, st), label)

    # ...................................................................
    @staticmethod
    def _kill(st: FrozenSet[Atom], written: Set[str],
              under_only: Set[str] = frozenset(),
              content: Set[str] = frozenset()) -> FrozenSet[Atom]:
        if not written and not under_only and not content:
            return st
        keep = []
        for a in st:
            ps = key_paths(a[1])
            dead = False
            for w in content:
                # the object's contents changed: identity facts survive
                if w in ps and a[1] != w + ' is None':
                    dead = True
                    break
            if dead:
                continue
            for p in ps:
                for w in written:
                    if p == w or p.startswith(w + '.'):
                        dead = True
                        break
                if dead:
                    break
                for w in under_only:
                    if p.startswith(w + '.'):
                        dead = True
                        break
                if dead:
                    break
            if not dead:
                keep.append(a)
        return frozenset(keep)

    @staticmethod
    def _subst(st, old: str, new: str):
        add = []
        for p, k in st:
            ps = key_paths(k)
            if old in ps:
                # textual replace of whole-path occurrences
                k2 = _replace_path(k, old, new)
                if k2 != k:
                    add.append((p, k2))
        return add

    def _const_atoms(self, path: str, value) -> List[Atom]:
        out = [(bool(value), path), (value is None, path + ' is None')]
        if isinstance(value, (str, int, bool, bytes)) or value is None:
            if value is not None:
                out.append((True, '%s == %r' % (path, value)))
        return out

    def _assign(self, st, target, value, frame):
        written = set()
        under = set()

        def tg(t):
            if isinstance(t, (ast.Tuple, ast.List)):
                for el in t.elts:
                    tg(el)
            elif isinstance(t, ast.Starred):
                tg(t.value)
            elif isinstance(t, ast.Subscript):
                p = path_of(t.value, frame)
                if p:
                    under.add(p)
                    written.add(p)
            else:
                p = path_of(t, frame)
                if p:
                    written.add(p)
        tg(target)
        st2 = self._kill(st, written, under)
        p = path_of(target, frame) if isinstance(
            target, (ast.Name, ast.Attribute)) else None
        if p is not None and value is not None:
            add = []
            if isinstance(value, ast.Constant):
                add = self._const_atoms(p, value.value)
            elif isinstance(value, (ast.List, ast.Dict, ast.Set, ast.Tuple)):
                empty = not (value.elts if not isinstance(value, ast.Dict)
                             else value.keys)
                add = [(not empty, p), (False, p + ' is None')]
            elif isinstance(value, ast.Call) and \
                    isinstance(value.func, ast.Attribute) and \
                    value.func.attr in ('decode', 'encode', 'upper',
                                        'lower') and \
                    path_of(value.func.value, frame) is not None:
                # same emptiness as the source string
                src = path_of(value.func.value, frame)
                add = [(pp, kk.replace(src, p) if src != p else kk)
                       for pp, kk in st
                       if kk in (src, src + ' is None')]
            elif isinstance(value, ast.Call):
                add = [(False, p + ' is None')] if _is_ctor_like(value) \
                    else []
            else:
                vp = path_of(value, frame)
                if vp is not None and vp != p:
                    add = self._subst(st, vp, p)
            st2 = st2 | frozenset(add)
        return st2

    def _transfer(self, n: Node, st):
        k = n.kind
        fr = n.frame
        if k == 'test':
            t = frozenset(atoms_of_test(n.ast, True, fr))
            f = frozenset(atoms_of_test(n.ast, False, fr))
            # an outcome that contradicts what holds on every path to the
            # test does not happen: nothing flows along that edge
            ts = None if any(holds(st, (not p, k)) for p, k in t) \
                else st | t
            fs = None if any(holds(st, (not p, k)) for p, k in f) \
                else st | f
            return {'T': ts, 'F': fs, None: st, 'exc': st}
        if k == 'stmt':
            a = n.ast
            if isinstance(a, ast.Assign):
                out = st
                for t in a.targets:
                    out = self._assign(out, t, a.value, fr)
                nc = n.extra.get('null_class')
                if nc is not None and isinstance(a.targets[0], ast.Name):
                    tp = path_of(a.targets[0], fr)
                    if tp:
                        out = out | frozenset([(nc == 'N', tp + ' is None')])
                        if nc == 'O':
                            pass
                return {None: out, 'exc': st}
            if isinstance(a, ast.AnnAssign):
                return {None: self._assign(st, a.target, a.value, fr),
                        'exc': st}
            if isinstance(a, ast.AugAssign):
                return {None: self._assign(st, a.target, None, fr),
                        'exc': st}
            if isinstance(a, ast.Delete):
                out = st
                for t in a.targets:
                    out = self._assign(out, t, None, fr)
                return out
            if isinstance(a, ast.Assert):
                return st
            return st
        if k == 'iter':
            tgt = n.ast.target
            out = self._assign(st, tgt, None, fr)
            return {'body': out, 'done': st, None: out}
        if k == 'handler':
            if n.ast.name:
                p = canon(ast.Name(id=n.ast.name, ctx=ast.Load()), fr)
                # the bound exception instance is an object, never None
                return self._kill(st, {p}) | frozenset(
                    [(False, p + ' is None')])
            return st
        if k == 'with_enter':
            if n.ast.optional_vars is not None:
                return self._assign(st, n.ast.optional_vars, None, fr)
            return st
        if k == 'bind':
            return self._bind(n, st)
        if k == 'call_return':
            return self._call_return(n, st)
        if k == 'call':
            return self._call(n, st)
        return st

    def _call(self, n: Node, st):
        fr = n.frame
        e: ast.Call = n.ast
        under = set()
        written = set()
        content = set()
        # receiver object may be mutated
        if isinstance(e.func, ast.Attribute):
            rp = path_of(e.func.value, fr)
            res = n.extra.get('res')
            if rp is not None:
                if rp == 'self' or rp.startswith('self#'):
                    ws = self.writes_of(n) if self.writes_of else None
                    if ws is None:
                        if res is not None and (res.targets):
                            under.add(rp)
                    else:
                        for a in ws:
                            written.add(rp + '.' + a)
                else:
                    meth = e.func.attr
                    ws = self.recv_writes(n) if self.recv_writes else None
                    if ws is not None:
                        for a in ws:
                            written.add(rp + '.' + a)
                            written.add(rp + '.' + a.lstrip('_'))
                    elif meth not in _PURE_METHODS:
                        under.add(rp)
                        if meth in _MUTATORS:
                            content.add(rp)
        for i, a in enumerate(list(e.args) + [k.value for k in e.keywords]):
            if isinstance(a, ast.Starred):
                a = a.value
            ap = path_of(a, fr)
            if ap is not None and ap != 'self':
                if self.arg_mutated is not None and i < len(e.args) and \
                        self.arg_mutated(n, i) is False:
                    continue
                under.add(ap)
        out = self._kill(st, written, under, content)
        return {None: out, 'exc': out}

    def _bind(self, n: Node, st):
        x = n.extra
        callee: Frame = n.frame
        pname = x['param']
        if x.get('is_self'):
            if callee.self_same:
                return st
            new = 'self#%d' % callee.id
            arg = x.get('arg')
            if arg is not None:
                ap = path_of(arg, x['arg_frame'])
                if ap is not None:
                    return st | frozenset(self._subst(st, ap, new))
            return st
        new = '%s#%d' % (pname, callee.id)
        arg = x.get('arg')
        if arg is None:
            arg = x.get('default')
            if arg is None:
                return st
            if isinstance(arg, ast.Constant):
                return st | frozenset(self._const_atoms(new, arg.value))
            return st
        if isinstance(arg, ast.Constant):
            return st | frozenset(self._const_atoms(new, arg.value))
        ap = path_of(arg, x['arg_frame'])
        if ap is not None:
            return st | frozenset(self._subst(st, ap, new))
        return st

    def _call_return(self, n: Node, st):
        """Translate facts the callee established about its parameters /
        receiver back to the caller's names, then drop callee locals."""
        callee: Frame = n.extra['callee_frame']
        # collect alias pairs from the bind nodes of this call
        add = []
        tag = '#%d' % callee.id
        for b in self.cfg.nodes:
            if b.kind == 'bind' and b.frame is callee:
                x = b.extra
                arg = x.get('arg')
                if arg is None:
                    continue
                ap = path_of(arg, x['arg_frame'])
                if ap is None:
                    continue
                if x.get('is_self'):
                    if callee.self_same:
                        continue
                    old = 'self' + tag
                else:
                    old = x['param'] + tag
                # only sub-path facts (object state) flow back, not the
                # binding itself, which the callee may have re-assigned
                for p, k in st:
                    for kp in key_paths(k):
                        if kp.startswith(old + '.'):
                            k2 = _replace_path(k, old, ap)
                            if k2 != k:
                                add.append((p, k2))
                            break
        # locals the callee hands back by name (`return a, b`) live on in
        # the caller under the caller's names (canon() maps those to the
        # callee's): what is known about them stays
        kept = set()
        from .model import walk_own as _walk_own
        for r in _walk_own(callee.ctx.func.node):
            if isinstance(r, ast.Return) and r.value is not None:
                for el in (r.value.elts if isinstance(r.value, ast.Tuple)
                           else [r.value]):
                    if isinstance(el, ast.Name):
                        kept.add(el.id + tag)
        # ... and when the caller goes on according to what the helper
        # returned (threaded continuations), what the helper had tested on
        # the way to that return is what the caller's branch rests on
        threaded = n.extra.get('ret_class') is not None or \
            n.extra.get('null_ret') is not None
        # what held at every return of the helper still holds after the
        # call (its locals are not touched again until it is re-entered,
        # where its own assignments kill what they change)
        out = frozenset(st) | frozenset(add)
        # a threaded call (the caller branches on the result): this
        # continuation is the one on which the call was true / false
        cls = n.extra.get('ret_class')
        if cls is not None:
            try:
                out = out | frozenset([(cls == 'T', canon(n.ast, n.frame))])
            except Exception:
                pass
        return out


_PURE_METHODS = {
    'get', 'keys', 'values', 'items', 'index', 'count', 'startswith',
    'endswith', 'decode', 'encode', 'upper', 'lower', 'strip', 'rstrip',
    'lstrip', 'split', 'rsplit', 'join', 'format', 'match', 'search',
    'group', 'end', 'start', 'is_error', 'ready', 'locked', 'copy_',
    'find', 'getvalue', 'tobytes', 'isdigit', 'fileno', 'getpeername',
}
_MUTATORS = {
    'append', 'appendleft', 'extend', 'insert', 'pop', 'popleft', 'remove',
    'clear', 'add', 'discard', 'update', 'setdefault', 'sort', 'reverse',
}


def _is_ctor_like(call: ast.Call) -> bool:
    f = call.func
    name = f.id if isinstance(f, ast.Name) else (
        f.attr if isinstance(f, ast.Attribute) else '')
    return name[:1].isupper() or name in ('set', 'dict', 'list', 'tuple',
                                          'bytearray', 'object')


def _replace_path(key: str, old: str, new: str) -> str:
    """Replace whole-path occurrences of `old` (not as a prefix of a longer
    identifier) in canonical text."""
    out = []
    i = 0
    n = len(old)
    while True:
        j = key.find(old, i)
        if j < 0:
            out.append(key[i:])
            break
        before = key[j - 1] if j > 0 else ' '
        after = key[j + n] if j + n < len(key) else ' '
        if (before.isalnum() or before in '_.#') or \
                (after.isalnum() or after in '_#'):
            out.append(key[i:j + n])
        else:
            out.append(key[i:j])
            out.append(new)
        i = j + n
    return ''.join(out)
