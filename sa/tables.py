"""Hand-confirmed tables.  One line of reason per entry.

Everything the rules *trust* (rather than derive from the source on each run)
is collected here, so the trusted base is visible in one place and is listed in
every evidence file.
"""

# ---------------------------------------------------------------------------
# Duck-typed collaborators that no constructor call reveals.  The contract is
# stated in the docstring of the class named in the reason.
# (class qname, attribute) -> list of class qnames (subclasses are implied)
SEED_ATTR_TYPES = {
    ('slimta.queue.Queue', 'store'):
        ['slimta.queue.QueueStorage'],      # Queue docstring: ":param store: Object implementing QueueStorage"
    ('slimta.queue.Queue', 'relay'):
        ['slimta.relay.Relay'],             # Queue docstring: ":param relay: |Relay| object"
    ('slimta.queue.Queue', 'bounce_queue'):
        ['slimta.queue.Queue'],             # Queue docstring: "|Queue| object ... default is self"
    ('slimta.queue.proxy.ProxyQueue', 'relay'):
        ['slimta.relay.Relay'],             # ProxyQueue docstring
    ('slimta.edge.Edge', 'queue'):
        ['slimta.queue.Queue', 'slimta.queue.proxy.ProxyQueue'],  # Edge docstring: "|Queue| (Or |Queue|-like)"
    ('slimta.smtp.server.Server', 'handlers'):
        ['slimta.edge.smtp.SmtpSession'],   # the only handlers object the library itself passes (SmtpEdge.handle)
    ('slimta.relay.pool.RelayPoolClient', 'queue'):
        ['slimta.util.deque.BlockingDeque'],  # RelayPool._add_client: client.queue = self.queue
    ('slimta.relay.http.HttpRelayClient', 'relay'):
        ['slimta.relay.http.HttpRelay'],    # HttpRelay.add_client: HttpRelayClient(self)
    ('slimta.cloudstorage.CloudStorage', 'obj_store'):
        ['slimta.cloudstorage.aws.SimpleStorageService'],  # CloudStorage docstring
    ('slimta.cloudstorage.CloudStorage', 'msg_queue'):
        ['slimta.cloudstorage.aws.SimpleQueueService'],    # CloudStorage docstring
    ('slimta.edge.smtp.SmtpSession', 'handoff'):
        ['method:slimta.edge.Edge.handoff:slimta.edge.smtp.SmtpEdge'],  # SmtpEdge.handle: session_class(address, validator_class, self.handoff)
    ('slimta.smtp.auth.AuthSession', 'io'):
        ['slimta.smtp.io.IO'],              # Server.__init__: AuthSession(auth_obj, self.io)
    ('slimta.smtp.datareader.DataReader', 'io'):
        ['slimta.smtp.io.IO'],              # DataReader docstring ":param io: |IO| object"
}

# Parameter names that are used uniformly for one type in this code base.
SEED_PARAM_TYPES = {
    'io': ['slimta.smtp.io.IO'],            # Reply.send/recv, DataSender.send
    'reply': ['slimta.smtp.reply.Reply'],
    'envelope': ['slimta.envelope.Envelope'],
    'env': ['slimta.envelope.Envelope'],
    'result': ['gevent.event.AsyncResult'],
}

# (function qname, parameter) overrides of the above where the uniform naming
# does not hold.
SEED_PARAM_OVERRIDES = {
}

# Extension objects: Extensions.getparam('AUTH') returns the AuthSession that
# Server.__init__ registered with extensions.add('AUTH', auth_session).
GETPARAM_TYPES = {
    'AUTH': ['slimta.smtp.auth.AuthSession'],
}

# External callables that construct instances (qname -> instance class qname).
EXTERNAL_FACTORIES = {
    're.compile': 're.Pattern',
}

# ---------------------------------------------------------------------------
# Blocking receive-side primitives for C14 (external qualified method names or
# attribute-call names on objects whose type is external).
BLOCKING_PRIMITIVES = {
    # name of attribute call -> reason
    'recv': 'socket.recv blocks until the peer sends',
    'recv_into': 'socket.recv_into blocks until the peer sends',
    'wrap_socket': 'TLS handshake reads from the peer',
    'communicate': 'Popen.communicate waits for the child process',
    'unwrap': 'SSLSocket.unwrap waits for the peer\'s close_notify',
    'getresponse': 'HTTPConnection.getresponse reads the peer response',
    'putrequest': 'HTTPConnection.putrequest connects to the peer (auto_open)',
    'endheaders': 'HTTPConnection.endheaders connects/sends to the peer',
}
# send-side primitives: they block once the peer stops reading and the
# kernel buffers are full.  Judged on the relay-attempt entries only (C14
# bounds every blocking step of a relay attempt; on the server side the
# property is about what the remote side SENDS).
BLOCKING_SEND_PRIMITIVES = {
    'sendall': 'socket.sendall blocks while the peer does not read',
}
# the same, but only inside the named modules (names too common elsewhere)
BLOCKING_PRIMITIVES_IN = {
    ('slimta.relay.http', 'read'): 'HTTPResponse.read reads the response '
                                   'body from the peer',
    ('slimta.relay.http', 'readline'): 'HTTPResponse.readline reads from '
                                       'the peer',
    ('slimta.relay.http', 'readinto'): 'HTTPResponse.readinto reads from '
                                       'the peer',
}
