"""Resolved call graph queries: callees per context, transitive self-attribute
write summaries, reachability of primitives."""
from __future__ import annotations

import ast
from typing import Callable, Dict, List, Optional, Set, Tuple

from .model import Program, walk_own, FuncInfo
from .resolve import Resolver, Ctx, Target


class CallGraph:
    def __init__(self, prog: Program, resolver: Resolver):
        self.p = prog
        self.r = resolver
        self._callees: Dict[Tuple, List[Tuple[ast.Call, Target]]] = {}
        self._writes: Dict[Tuple, Optional[Set[str]]] = {}

    def calls_in(self, ctx: Ctx) -> List[ast.Call]:
        return [n for n in walk_own(ctx.func.node)
                if isinstance(n, ast.Call)]

    def callees(self, ctx: Ctx, deferred: bool = True
                ) -> List[Tuple[ast.Call, Target]]:
        key = ctx.key() + (deferred,)
        out = self._callees.get(key)
        if out is None:
            out = []
            for c in self.calls_in(ctx):
                res = self.r.resolve_call(c, ctx)
                for t in res.targets:
                    out.append((c, t))
                if deferred:
                    for t in self.r.func_ref_args(c, ctx):
                        out.append((c, t))
            self._callees[key] = out
        return out

    # ------------------------------------------------- self attribute writes
    def direct_self_writes(self, f: FuncInfo) -> Set[str]:
        sn = f.self_name
        out = set()
        if not sn:
            return out
        for n in walk_own(f.node):
            tgts = []
            if isinstance(n, ast.Assign):
                tgts = n.targets
            elif isinstance(n, (ast.AugAssign, ast.AnnAssign)):
                tgts = [n.target]
            elif isinstance(n, ast.Delete):
                tgts = n.targets
            elif isinstance(n, (ast.For, ast.comprehension)):
                tgts = [n.target]
            stack = list(tgts)
            while stack:
                t = stack.pop()
                if isinstance(t, (ast.Tuple, ast.List)):
                    stack.extend(t.elts)
                elif isinstance(t, ast.Starred):
                    stack.append(t.value)
                elif isinstance(t, ast.Attribute) and \
                        isinstance(t.value, ast.Name) and t.value.id == sn:
                    out.add(t.attr)
                elif isinstance(t, ast.Subscript):
                    v = t.value
                    if isinstance(v, ast.Attribute) and \
                            isinstance(v.value, ast.Name) and \
                            v.value.id == sn:
                        out.add(v.attr)
            if isinstance(n, ast.Call) and isinstance(n.func, ast.Name) and \
                    n.func.id == 'setattr' and n.args and \
                    isinstance(n.args[0], ast.Name) and n.args[0].id == sn:
                out.add('*')
        return out

    def self_writes(self, ctx: Ctx, _stack=None) -> Set[str]:
        """Attributes of `self` that ctx.func or any callee invoked on the
        same receiver may assign ('*' = anything)."""
        key = ctx.key()
        if key in self._writes and self._writes[key] is not None:
            return self._writes[key]
        _stack = _stack or set()
        if key in _stack:
            return set()
        _stack = _stack | {key}
        out = set(self.direct_self_writes(ctx.func))
        for c, t in self.callees(ctx, deferred=False):
            if t.recv_is_self:
                out |= self.self_writes(t.ctx(), _stack)
        if len(_stack) == 1:
            self._writes[key] = out
        return out

    # ---------------------------------------------------------- reachability
    def reach(self, ctx: Ctx, deferred: bool = True,
              stop: Optional[Callable] = None, limit: int = 4000
              ) -> Dict[Tuple, Ctx]:
        """All contexts reachable from ctx through resolved calls."""
        seen = {ctx.key(): ctx}
        work = [ctx]
        while work:
            c = work.pop()
            for call, t in self.callees(c, deferred):
                if stop is not None and stop(c, call, t):
                    continue
                k = t.ctx().key()
                if k not in seen:
                    if len(seen) > limit:
                        return seen
                    seen[k] = t.ctx()
                    work.append(t.ctx())
        return seen


    # ------------------------------------------------- parameter mutation
    _SAFE_EXTERNALS = {'str', 'len', 'isinstance', 'repr', 'format', 'bool',
                       'int', 'hasattr', 'getattr', 'id', 'type', 'print',
                       'bytes', 'sorted', 'list', 'tuple', 'set', 'dict',
                       'enumerate', 'zip', 'iter', 'min', 'max', 'any',
                       'all', 'sum', '__init__', 'join', 'hex'}
    _PURE_METHODS = {
        'get', 'keys', 'values', 'items', 'index', 'count', 'startswith',
        'endswith', 'decode', 'encode', 'upper', 'lower', 'strip', 'rstrip',
        'lstrip', 'split', 'rsplit', 'join', 'format', 'match', 'search',
        'group', 'end', 'start', 'is_error', 'ready', 'locked', 'find',
        'getvalue', 'tobytes', 'isdigit', 'fileno', 'getpeername', 'copy'}

    def mutates_param(self, ctx: Ctx, pname: str, depth: int = 0,
                      _stack=None) -> bool:
        """May the function change the state of the object bound to
        parameter `pname` (attribute / item assignment, mutating method,
        or handing it to something that may)?  Storing the reference is not
        a mutation."""
        key = ctx.key() + (pname,)
        memo = self.__dict__.setdefault('_mut', {})
        if key in memo:
            return memo[key]
        _stack = _stack or set()
        if key in _stack:
            return False
        if depth > 4:
            return True
        _stack = _stack | {key}
        f = ctx.func
        if ctx.func.module.name.startswith('slimta.logging'):
            memo[key] = False
            return False
        out = False
        for n in walk_own(f.node):
            tg = []
            if isinstance(n, ast.Assign):
                tg = n.targets
            elif isinstance(n, (ast.AugAssign, ast.AnnAssign)):
                tg = [n.target]
            elif isinstance(n, ast.Delete):
                tg = n.targets
            for t in tg:
                for x in ast.walk(t):
                    if isinstance(x, (ast.Attribute, ast.Subscript)) and \
                            isinstance(x.value, ast.Name) and \
                            x.value.id == pname:
                        out = True
            if out:
                break
            if isinstance(n, ast.Call):
                fn = n.func
                if isinstance(fn, ast.Attribute) and \
                        isinstance(fn.value, ast.Name) and \
                        fn.value.id == pname:
                    res = self.r.resolve_call(n, ctx)
                    if res.targets and not res.externals:
                        for t in res.targets:
                            if self.self_writes(t.ctx()):
                                out = True
                    elif fn.attr not in self._PURE_METHODS:
                        out = True
                for i, a in enumerate(n.args):
                    if isinstance(a, ast.Name) and a.id == pname:
                        res = self.r.resolve_call(n, ctx)
                        for t in res.targets:
                            ps = list(t.func.params)
                            if t.func.kind in ('method', 'classmethod') and \
                                    t.self_cls is not None and ps:
                                ps = ps[1:]
                            if i < len(ps):
                                if self.mutates_param(t.ctx(), ps[i],
                                                      depth + 1, _stack):
                                    out = True
                            else:
                                out = True
                        for q in res.externals:
                            last = q.rpartition('.')[2].replace('()', '')
                            if last not in self._SAFE_EXTERNALS and \
                                    not last[:1].isupper():
                                out = True
                        if res.unresolved:
                            out = True
                for k in n.keywords:
                    if isinstance(k.value, ast.Name) and k.value.id == pname:
                        out = True
            if out:
                break
        if len(_stack) == 1:
            memo[key] = out
        return out
