"""A deliberately tiny abstract domain of value *kinds*, propagated flow-
sensitively over sa.cfg graphs (forward may-analysis with isinstance / None
narrowing) and across resolved calls (return kinds).

Kinds: 'None' 'Str' 'Bytes' 'Int' 'Bool' 'Float' 'List' 'Dict' 'Set'
'Tuple' 'Reply' 'Gen' 'Unknown' ('exc', class_qname) ('inst', class_qname)
('tuple', (kinds, kinds, ...))  - a tuple display with known element kinds.
`Unknown` never produces a violation in the rules.
"""
from __future__ import annotations

import ast
from typing import Callable, Dict, FrozenSet, List, Optional, Tuple

from .cfg import CFG, Node
from .engine import Engine
from .facts import path_of
from .resolve import Ctx
from . import dataflow

U = 'Unknown'
REPLY = 'slimta.smtp.reply.Reply'
KS = FrozenSet


def ks(*a) -> KS:
    return frozenset(a)


UNKNOWN = ks(U)

EXTERNAL_RESULTS = {
    # last component of an external callee -> kinds
    'dict': ks('Dict'), 'fromkeys': ks('Dict'), 'OrderedDict': ks('Dict'),
    'set': ks('Set'), 'frozenset': ks('Set'),
    'list': ks('List'), 'sorted': ks('List'), 'reversed': ks('List'),
    'tuple': ks('Tuple'), 'zip': ks('List'), 'map': ks('List'),
    'enumerate': ks('List'), 'range': ks('List'), 'filter': ks('List'),
    'keys': ks('DictView'), 'values': ks('DictView'),
    'items': ks('DictView'),
    'str': ks('Str'), 'format': ks('Str'), 'join': ks(U), 'repr': ks('Str'),
    'bytes': ks('Bytes'), 'bytearray': ks('Bytes'), 'tobytes': ks('Bytes'),
    'dumps': ks(U), 'hexlify': ks('Bytes'), 'b64encode': ks('Bytes'),
    'b64decode': ks('Bytes'),
    'int': ks('Int'), 'len': ks('Int'), 'float': ks('Float'),
    'time': ks('Float'), 'hincrby': ks('Int'),
    'isinstance': ks('Bool'), 'hasattr': ks('Bool'), 'bool': ks('Bool'),
    'startswith': ks('Bool'), 'endswith': ks('Bool'),
    'uuid4': ks(U), 'hex': ks('Str'),
}
STR_PRESERVING = {'rstrip', 'strip', 'lstrip', 'upper', 'lower', 'title',
                  'replace', 'rsplit_', 'capitalize'}


class Kinds:
    def __init__(self, e: Engine):
        self.e = e
        self._ret: Dict = {}
        self._stack = set()
        self._set_sites: Optional[KS] = None

    # ---------------------------------------------------------- expressions
    def class_kind(self, cq: str):
        p = self.e.p
        if cq == REPLY or p.is_subclass(cq, REPLY):
            return 'Reply'
        if p.is_subclass(cq, 'builtins.BaseException'):
            return ('exc', cq)
        b = {'builtins.dict': 'Dict', 'builtins.list': 'List',
             'builtins.set': 'Set', 'builtins.tuple': 'Tuple',
             'builtins.str': 'Str', 'builtins.bytes': 'Bytes',
             'builtins.int': 'Int', 'builtins.frozenset': 'Set',
             'collections.OrderedDict': 'Dict',
             'builtins.bytearray': 'Bytes'}
        if cq in b:
            return b[cq]
        return ('inst', cq)

    def eval(self, x, ctx: Ctx, env: Callable = None, frame=None) -> KS:
        e = self.e
        if x is None:
            return ks('None')
        if isinstance(x, ast.Constant):
            v = x.value
            if v is None:
                return ks('None')
            if isinstance(v, bool):
                return ks('Bool')
            if isinstance(v, str):
                return ks('Str')
            if isinstance(v, bytes):
                return ks('Bytes')
            if isinstance(v, int):
                return ks('Int')
            if isinstance(v, float):
                return ks('Float')
            return UNKNOWN
        if isinstance(x, (ast.Dict, ast.DictComp)):
            return ks('Dict')
        if isinstance(x, (ast.List, ast.ListComp)):
            return ks('List')
        if isinstance(x, (ast.Set, ast.SetComp)):
            return ks('Set')
        if isinstance(x, ast.GeneratorExp):
            return ks('Gen')
        if isinstance(x, ast.Tuple):
            return ks(('tuple', tuple(self.eval(el, ctx, env, frame)
                                      for el in x.elts)))
        if isinstance(x, ast.JoinedStr):
            return ks('Str')
        if isinstance(x, (ast.Name, ast.Attribute)):
            if env is not None and frame is not None:
                p = path_of(x, frame)
                if p is not None:
                    got = env(p)
                    if got is not None:
                        return got
            if isinstance(x, ast.Attribute) and x.attr == 'reply':
                base = self.eval(x.value, ctx, env, frame)
                if base and all(isinstance(k, tuple) and k[0] == 'exc'
                                for k in base):
                    return ks('Reply')
            if isinstance(x, ast.Attribute):
                ak = self.attr_kinds(x, ctx)
                if ak is not None:
                    return ak
            # class / module level objects
            ts = e.r.infer(x, ctx)
            out = set()
            for t in ts:
                if t[0] == 'inst':
                    out.add(self.class_kind(t[1]))
            return frozenset(out) if out else UNKNOWN
        if isinstance(x, ast.BoolOp):
            out = set()
            for i, v in enumerate(x.values):
                k = set(self.eval(v, ctx, env, frame))
                if isinstance(x.op, ast.Or) and i < len(x.values) - 1:
                    k.discard('None')     # a None operand is skipped by `or`
                out |= k
            return frozenset(out) or UNKNOWN
        if isinstance(x, ast.IfExp):
            t = x.test
            if isinstance(t, ast.Call) and isinstance(t.func, ast.Name) and \
                    t.func.id == 'isinstance' and len(t.args) == 2 and \
                    env is not None and frame is not None and \
                    path_of(t.args[0], frame) is not None:
                # `v.decode() if isinstance(v, bytes) else v`: each arm
                # under what the test says about v
                tp = path_of(t.args[0], frame)
                cur = self.eval(t.args[0], ctx, env, frame)
                yes, no = isinstance_split(self, t, ctx.func.module, cur)
                out = frozenset()
                if yes:
                    out |= self.eval(x.body, ctx, lambda q: yes
                                     if q == tp else env(q), frame)
                if no:
                    out |= self.eval(x.orelse, ctx, lambda q: no
                                     if q == tp else env(q), frame)
                return out or UNKNOWN
            return self.eval(x.body, ctx, env, frame) | \
                self.eval(x.orelse, ctx, env, frame)
        if isinstance(x, ast.Compare):
            return ks('Bool')
        if isinstance(x, ast.UnaryOp) and isinstance(x.op, ast.Not):
            return ks('Bool')
        if isinstance(x, ast.BinOp):
            l = self.eval(x.left, ctx, env, frame)
            r = self.eval(x.right, ctx, env, frame)
            if isinstance(x.op, ast.Add):
                for k in ('Str', 'Bytes', 'List'):
                    if l == ks(k) or r == ks(k):
                        return ks(k)
                if l <= ks('Int', 'Float') and r <= ks('Int', 'Float'):
                    return l | r
            if isinstance(x.op, ast.Mod) and l == ks('Str'):
                return ks('Str')
            return UNKNOWN
        if isinstance(x, ast.Subscript):
            base = self.eval(x.value, ctx, env, frame)
            if isinstance(x.slice, ast.Slice):
                if base <= ks('Str', 'Bytes', 'List') and U not in base:
                    return base
            if isinstance(x.slice, ast.Constant) and \
                    isinstance(x.slice.value, int) and len(base) == 1:
                (k,) = tuple(base)
                if isinstance(k, tuple) and k[0] == 'tuple' and \
                        0 <= x.slice.value < len(k[1]):
                    return k[1][x.slice.value]
            return UNKNOWN
        if isinstance(x, ast.Call):
            return self.eval_call(x, ctx, env, frame)
        if isinstance(x, ast.Await):
            return self.eval(x.value, ctx, env, frame)
        if isinstance(x, (ast.Yield, ast.YieldFrom)):
            return UNKNOWN
        return UNKNOWN

    def attr_kinds(self, x: ast.Attribute, ctx: Ctx) -> Optional[KS]:
        """Flow-insensitive kinds of an instance attribute of a repo class:
        join over every `self.attr = <expr>` in the class hierarchy."""
        e = self.e
        out = set()
        found = False
        memo = self.__dict__.setdefault('_attr_memo', {})
        for rt in e.r.infer(x.value, ctx):
            if rt[0] != 'inst' or rt[1] not in e.p.classes:
                continue
            key = (rt[1], x.attr)
            if key in memo:
                if memo[key] is not None:
                    out |= memo[key]
                    found = True
                continue
            memo[key] = None         # recursion guard
            acc = set()
            hit = False
            for k in e.p.mro(rt[1]):
                c = e.p.classes.get(k)
                if c is None:
                    continue
                for m in c.methods.values():
                    sn = m.self_name
                    if not sn:
                        continue
                    for n in ast.walk(m.node):
                        if isinstance(n, ast.Assign):
                            for t in n.targets:
                                if isinstance(t, ast.Attribute) and \
                                        t.attr == x.attr and \
                                        isinstance(t.value, ast.Name) and \
                                        t.value.id == sn:
                                    hit = True
                                    acc |= self.eval(n.value, Ctx(m, rt[1]))
            if hit:
                memo[key] = frozenset(acc)
                out |= acc
                found = True
        return frozenset(out) if found and out else None

    def eval_call(self, x: ast.Call, ctx: Ctx, env, frame) -> KS:
        e = self.e
        ov = getattr(self, 'call_overrides', None)
        if ov and id(x) in ov:
            return ov[id(x)]
        if env is not None:
            # the call was inlined in the graph being analysed: what its
            # return statements handed back on the paths that got here
            try:
                r = env('$ret:%d' % id(x))
            except Exception:
                r = None
            if r is not None:
                return r
        res = e.r.resolve_call(x, ctx)
        out = set()
        fn = x.func
        name = fn.attr if isinstance(fn, ast.Attribute) else (
            fn.id if isinstance(fn, ast.Name) else '')
        # AsyncResult.get(): whatever any pool client sets
        if name == 'get' and isinstance(fn, ast.Attribute):
            base = self.eval(fn.value, ctx, env, frame)
            if ('inst', 'gevent.event.AsyncResult') in base:
                return self.async_set_kinds()
        # str / bytes methods keep the receiver kind
        if isinstance(fn, ast.Attribute) and not res.targets:
            if name in STR_PRESERVING:
                base = self.eval(fn.value, ctx, env, frame)
                if base <= ks('Str', 'Bytes'):
                    return base
            if name == 'decode':
                return ks('Str')
            if name == 'encode':
                return ks('Bytes')
            if name == 'communicate':
                # Popen without text mode hands back bytes
                return ks(('tuple', (ks('Bytes'), ks('Bytes'))))
            if name == 'copy':
                base = self.eval(fn.value, ctx, env, frame)
                if U not in base:
                    return base
        # a callable held in an instance attribute (user supplied hook such
        # as Queue.backoff): the statically known default is not the only
        # possible callee
        if isinstance(fn, ast.Attribute) and res.targets and \
                not res.ctor_of:
            for rt in e.r.infer(fn.value, ctx):
                if rt[0] == 'inst' and rt[1] in e.p.classes and \
                        e.p.lookup_method(rt[1], fn.attr) is None:
                    out.add(U)
        for cq in res.ctor_of:
            out.add(self.class_kind(cq))
        for t in res.targets:
            if res.ctor_of and t.func.name == '__init__':
                continue
            out |= self.return_kinds(t.ctx())
        for q in res.externals:
            if q in res.ctor_of:
                continue
            last = q.rpartition('.')[2].replace('()', '')
            if last in EXTERNAL_RESULTS:
                out |= EXTERNAL_RESULTS[last]
            elif last[:1].isupper() and '.' in q:
                out.add(self.class_kind(q))
            else:
                out.add(U)
        if res.unresolved:
            out.add(U)
        return frozenset(out) or UNKNOWN

    # ----------------------------------------------------- return kinds
    def return_kinds(self, ctx: Ctx, seeds: Optional[Dict[str, KS]] = None
                     ) -> KS:
        key = ctx.key() + (tuple(sorted((k, tuple(sorted(map(str, v))))
                                        for k, v in (seeds or {}).items())),)
        if key in self._ret:
            return self._ret[key]
        if key in self._stack:
            return frozenset()
        if ctx.func.is_generator:
            return ks('Gen')
        self._stack.add(key)
        try:
            g = self.e.build(ctx)
            flow = KindFlow(self, g, seeds)
            out = set()
            for n in g.of_kind('stmt'):
                if isinstance(n.ast, ast.Return) and \
                        flow.IN.get(n.id) is not None:
                    if n.ast.value is None:
                        out.add('None')
                    else:
                        out |= flow.eval_at(n, n.ast.value)
            # falling off the end
            for l, p in g.exit.pred:
                if not (p.kind == 'stmt' and isinstance(p.ast, ast.Return)) \
                        and flow.IN.get(p.id) is not None:
                    out.add('None')
        finally:
            self._stack.discard(key)
        res = frozenset(out)
        self._ret[key] = res
        return res

    def async_set_kinds(self) -> KS:
        """Join of the kinds passed to `<AsyncResult>.set(x)` anywhere in the
        pool clients (what RelayPool.attempt's result.get() can return)."""
        if self._set_sites is not None:
            return self._set_sites
        self._set_sites = frozenset()     # recursion guard
        e = self.e
        out = set()
        self.set_sites = []
        for cq in e.p.subclasses('slimta.relay.pool.RelayPoolClient'):
            c = e.p.classes[cq]
            for m in c.methods.values():
                ctx = Ctx(m, cq)
                g = e.build(ctx)
                flow = None
                for n in g.of_kind('call'):
                    if e.call_name(n) != 'set' or not n.ast.args or \
                            not isinstance(n.ast.func, ast.Attribute):
                        continue
                    ts = e.r.infer(n.ast.func.value, ctx)
                    if not any(t[0] == 'inst' and t[1].endswith(
                            'AsyncResult') for t in ts):
                        continue
                    if flow is None:
                        flow = KindFlow(self, g)
                    k = flow.eval_at(n, n.ast.args[0])
                    self.set_sites.append((ctx, n, k))
                    out |= k
        self._set_sites = frozenset(out) or UNKNOWN
        return self._set_sites


class KindFlow:
    """Forward may-analysis of the kinds of local variables / attribute
    paths over one CFG."""

    def __init__(self, kinds: Kinds, g: CFG,
                 seeds: Optional[Dict[str, KS]] = None):
        self.k = kinds
        self.g = g
        init = {}
        fid = g.entry.frame.id
        for name, v in (seeds or {}).items():
            init['%s#%d' % (name, fid)] = v
        self.IN = dataflow.forward(g, _freeze(init), self._transfer,
                                   _join)

    def env_at(self, n: Node):
        st = self.IN.get(n.id)
        d = dict(st) if st is not None else {}
        return lambda p: d.get(p)

    def eval_at(self, n: Node, x) -> KS:
        return self.k.eval(x, n.ctx, self.env_at(n), n.frame)

    def var_at(self, n: Node, path: str) -> Optional[KS]:
        st = self.IN.get(n.id)
        if st is None:
            return None
        return dict(st).get(path)

    # ..................................................................
    def _assign(self, d: dict, target, kinds: KS, n: Node):
        if isinstance(target, (ast.Tuple, ast.List)):
            elts = None
            if len(kinds) == 1:
                (k,) = tuple(kinds)
                if isinstance(k, tuple) and k[0] == 'tuple' and \
                        len(k[1]) == len(target.elts):
                    elts = k[1]
            for i, el in enumerate(target.elts):
                self._assign(d, el, elts[i] if elts else UNKNOWN, n)
            return
        if isinstance(target, ast.Starred):
            self._assign(d, target.value, ks('List'), n)
            return
        p = path_of(target, n.frame)
        if p is not None:
            # drop everything below the assigned path
            for q in [q for q in d if q == p or q.startswith(p + '.')]:
                del d[q]
            d[p] = kinds

    def _comp_elements(self, a: ast.Assign, n: Node, d: dict):
        """kinds of the elements of `[elt for v in (x, y, ...)]` unpacked into
        as many targets, or None"""
        c = a.value
        if not (isinstance(c, (ast.ListComp, ast.GeneratorExp)) and
                len(a.targets) == 1 and
                isinstance(a.targets[0], (ast.Tuple, ast.List)) and
                len(c.generators) == 1 and not c.generators[0].ifs and
                isinstance(c.generators[0].target, ast.Name) and
                isinstance(c.generators[0].iter, (ast.Tuple, ast.List)) and
                len(c.generators[0].iter.elts) == len(a.targets[0].elts)):
            return None
        gen = c.generators[0]
        tp = path_of(gen.target, n.frame)
        if tp is None:
            return None
        out = []
        for el in gen.iter.elts:
            k_el = self.k.eval(el, n.ctx, lambda p: d.get(p), n.frame)
            out.append(self.k.eval(
                c.elt, n.ctx, lambda q, k_el=k_el: k_el if q == tp
                else d.get(q), n.frame))
        return out

    def _transfer(self, n: Node, st):
        d = dict(st)
        k = n.kind
        if k == 'stmt':
            a = n.ast
            if isinstance(a, ast.Assign):
                ek = self._comp_elements(a, n, d)
                if ek is not None:
                    # a, b = [f(v) for v in (a, b)]: element by element
                    for t, kk in zip(a.targets[0].elts, ek):
                        self._assign(d, t, kk, n)
                    return {None: _freeze(d), 'exc': st}
                v = self.k.eval(a.value, n.ctx, lambda p: d.get(p), n.frame)
                for t in a.targets:
                    self._assign(d, t, v, n)
            elif isinstance(a, ast.AnnAssign) and a.value is not None:
                v = self.k.eval(a.value, n.ctx, lambda p: d.get(p), n.frame)
                self._assign(d, a.target, v, n)
            elif isinstance(a, ast.Return) and n.frame.call is not None \
                    and n.frame is not self.g.entry.frame:
                d['$ret:%d' % id(n.frame.call)] = self.k.eval(
                    a.value, n.ctx, lambda p: d.get(p), n.frame)
            elif isinstance(a, ast.AugAssign):
                p = path_of(a.target, n.frame)
                if p is not None and p in d:
                    cur = d[p]
                    r = self.k.eval(a.value, n.ctx, lambda q: d.get(q),
                                    n.frame)
                    if not (cur <= ks('Str', 'Bytes', 'List', 'Int') and
                            U not in cur):
                        d[p] = UNKNOWN
            return {None: _freeze(d), 'exc': st}
        if k == 'iter':
            self._assign(d, n.ast.target, UNKNOWN, n)
            return {'body': _freeze(d), 'done': st, None: _freeze(d)}
        if k == 'handler':
            if n.ast.name:
                kinds = frozenset(('exc', t) for t in
                                  n.extra.get('types', [])) or UNKNOWN
                self._assign(d, ast.Name(id=n.ast.name, ctx=ast.Store()),
                             kinds, n)
            return _freeze(d)
        if k == 'with_enter':
            if n.ast.optional_vars is not None:
                self._assign(d, n.ast.optional_vars, UNKNOWN, n)
            return _freeze(d)
        if k == 'test':
            t, f = dict(d), dict(d)
            self._narrow(n.ast, n, t, f)
            # a side on which some variable has no possible kind left is
            # infeasible in the abstraction
            ts = None if any(v == frozenset() for v in t.values()) \
                else _freeze(t)
            fs = None if any(v == frozenset() for v in f.values()) \
                else _freeze(f)
            return {'T': ts, 'F': fs, None: st, 'exc': st}
        if k == 'call_enter':
            d.pop('$ret:%d' % id(n.ast), None)
            return {None: _freeze(d), 'exc': st}
        if k == 'bind':
            x = n.extra
            if x.get('is_self'):
                return st
            new = '%s#%d' % (x['param'], n.frame.id)
            arg = x.get('arg') if x.get('arg') is not None \
                else x.get('default')
            if arg is None:
                d[new] = UNKNOWN
            else:
                fr = x['arg_frame'] if x.get('arg') is not None else n.frame
                d[new] = self.k.eval(arg, fr.ctx, lambda p: d.get(p), fr)
            return _freeze(d)
        return st

    def _narrow(self, test, n: Node, t: dict, f: dict):
        p = self.k.e.p
        if isinstance(test, ast.Call) and isinstance(test.func, ast.Name) \
                and test.func.id == 'isinstance' and len(test.args) == 2:
            path = path_of(test.args[0], n.frame)
            if path is None:
                return
            cur = t.get(path, UNKNOWN)
            yes, no = isinstance_split(self.k, test, n.ctx.func.module, cur)
            t[path] = yes
            f[path] = no
            return
        if isinstance(test, ast.Compare) and len(test.ops) == 1 and \
                isinstance(test.ops[0], (ast.Is, ast.IsNot)) and \
                isinstance(test.comparators[0], ast.Constant) and \
                test.comparators[0].value is None:
            path = path_of(test.left, n.frame)
            if path is None or path not in t:
                return
            cur = t[path]
            isn = ks('None') if ('None' in cur or U in cur) \
                else frozenset()
            notn = frozenset(cur - ks('None'))
            if isinstance(test.ops[0], ast.Is):
                t[path], f[path] = isn, notn
            else:
                t[path], f[path] = notn, isn
            return
        path = path_of(test, n.frame) if isinstance(
            test, (ast.Name, ast.Attribute)) else None
        if path is not None and path in t:
            cur = t[path]
            t[path] = frozenset(cur - ks('None')) or UNKNOWN


def isinstance_split(K, test, module, cur):
    """(kinds of `cur` for which isinstance(x, T) holds, kinds for which it
    does not), for the isinstance() call `test` written in `module`"""
    p = K.e.p
    want = []
    types = test.args[1].elts if isinstance(
        test.args[1], ast.Tuple) else [test.args[1]]
    for ty in types:
        q = p.resolve_expr_qname(module, ty)
        if q:
            want.append(K.class_kind(q))

    ABC = {
        'collections.abc.Mapping': ('Dict',),
        'collections.abc.MutableMapping': ('Dict',),
        'collections.abc.Sequence': ('List', 'Tuple', 'Str',
                                     'Bytes'),
        'collections.abc.MutableSequence': ('List',),
        'collections.abc.Set': ('Set',),
        'collections.abc.Iterable': ('List', 'Tuple', 'Str',
                                     'Bytes', 'Dict', 'Set',
                                     'DictView', 'Gen'),
    }

    def matches(kind, w):
        if kind == w:
            return True
        if isinstance(w, tuple) and w[0] == 'inst' and w[1] in ABC:
            if kind in ABC[w[1]]:
                return True
            if isinstance(kind, tuple) and kind[0] == 'tuple' and \
                    'Tuple' in ABC[w[1]]:
                return True
            return False
        if isinstance(kind, tuple) and isinstance(w, tuple) and \
                kind[0] == w[0] and kind[0] in ('exc', 'inst'):
            return p.is_subclass(kind[1], w[1])
        if isinstance(kind, tuple) and kind[0] == 'tuple' and \
                w == 'Tuple':
            return True
        return False
    yes = frozenset(kk for kk in cur if kk != U and
                    any(matches(kk, w) for w in want))
    no = frozenset(kk for kk in cur if kk == U or
                   not any(matches(kk, w) for w in want))
    if U in cur:
        yes = yes | frozenset(want)
    return yes, no


def _freeze(d: dict):
    return tuple(sorted(d.items(), key=lambda kv: kv[0]))


def _join(a, b):
    da, db = dict(a), dict(b)
    out = {}
    for k in set(da) | set(db):
        if k in da and k in db:
            out[k] = da[k] | db[k]
        else:
            out[k] = (da.get(k) or db.get(k)) | UNKNOWN
    return _freeze(out)


def show(kinds: KS) -> str:
    def one(k):
        if isinstance(k, tuple):
            if k[0] in ('exc', 'inst'):
                return '%s(%s)' % (k[0], k[1].rpartition('.')[2])
            return 'tuple(%s)' % ', '.join(show(x) for x in k[1])
        return k
    return '|'.join(sorted(one(k) for k in kinds))
