"""Control-flow graph builder (statement + call granularity) with exception
edges, try/finally duplication, `with` scopes and optional inlining of resolved
repo callees.

Nodes
-----
kind      ast                 meaning
entry     FunctionDef         function entry
exit      -                   normal return of the root function
raise     -                   exception escapes the root function
stmt      simple statement    effect of the statement (after its calls)
call      ast.Call            evaluation of a call that is not inlined
call_enter / call_return      ast.Call   brackets of an inlined callee body
bind      -                   parameter binding of an inlined call
test      expr                branch condition (edges 'T' / 'F')
iter      ast.For / comprehension   loop head (edges 'body' / 'done')
with_enter / with_exit        ast.withitem
handler   ast.ExceptHandler   entry of an except clause
nop       -                   join point

Edges carry labels: 'next', 'T', 'F', 'body', 'done', 'alt', ('exc', token).
"""
from __future__ import annotations

import ast
from typing import Callable, Dict, List, Optional, Set, Tuple

from .model import Program, AnalysisError
from .resolve import Resolver, Ctx, Target, Resolution

ANY = 'ANY'                 # some Exception subclass we know nothing about
TIMEOUT = 'gevent.Timeout'  # BaseException, not Exception (verified)

MAX_NODES = 60000


class Frame:
    """One activation (root function or an inlined callee)."""
    _next = 0

    def __init__(self, ctx: Ctx, parent: Optional['Frame'], call,
                 self_same: bool):
        Frame._next += 1
        self.id = Frame._next
        self.ctx = ctx
        self.parent = parent
        self.call = call
        self.self_same = self_same      # `self` is the root frame's self
        self.depth = 0 if parent is None else parent.depth + 1
        # parameter -> (argument path expression, caller frame), for
        # parameters bound to a plain name / attribute path
        self.bindings = {}
        self.arg_exprs = {}     # param -> (any argument expression, frame)
        # what landed in *args at this call: [(expression, frame)], or None
        # when it is not known (a star argument that cannot be expanded)
        self.star_args = None
        self.children = []
        if parent is not None:
            parent.children.append(self)

    def chain(self) -> List['Frame']:
        out, f = [], self
        while f is not None:
            out.append(f)
            f = f.parent
        return out[::-1]

    def __repr__(self):
        return '<Frame %d %s>' % (self.id, self.ctx.func.qname)


class Node:
    __slots__ = ('id', 'kind', 'ast', 'frame', 'scopes', 'succ', 'pred',
                 'extra')

    def __init__(self, id, kind, ast_node, frame, scopes):
        self.id = id
        self.kind = kind
        self.ast = ast_node
        self.frame = frame
        self.scopes = scopes
        self.succ: List[Tuple[object, 'Node']] = []
        self.pred: List[Tuple[object, 'Node']] = []
        self.extra = {}

    @property
    def ctx(self) -> Ctx:
        return self.frame.ctx

    @property
    def lineno(self):
        return getattr(self.ast, 'lineno', None) or \
            getattr(getattr(self.ast, 'context_expr', None), 'lineno', 0)

    def loc(self) -> str:
        return '%s:%s' % (self.frame.ctx.func.module.relpath, self.lineno)

    def text(self, limit=90) -> str:
        a = self.ast
        if a is None:
            return self.kind
        try:
            if isinstance(a, ast.withitem):
                t = 'with ' + ast.unparse(a.context_expr)
            elif isinstance(a, ast.ExceptHandler):
                t = 'except ' + (ast.unparse(a.type) if a.type else '')
            elif isinstance(a, (ast.FunctionDef, ast.AsyncFunctionDef)):
                t = 'def ' + a.name
            elif isinstance(a, ast.For):
                t = 'for %s in %s' % (ast.unparse(a.target),
                                      ast.unparse(a.iter))
            elif isinstance(a, ast.comprehension):
                t = 'for %s in %s' % (ast.unparse(a.target),
                                      ast.unparse(a.iter))
            else:
                t = ast.unparse(a)
        except Exception:
            t = type(a).__name__
        t = ' '.join(t.split())
        return t if len(t) <= limit else t[:limit - 3] + '...'

    def __repr__(self):
        return '<N%d %s %s %s>' % (self.id, self.kind, self.loc(),
                                   self.text(50))


class CFG:
    def __init__(self, root_ctx: Ctx):
        self.root_ctx = root_ctx
        self.nodes: List[Node] = []
        self.entry: Node = None
        self.exit: Node = None
        self.raise_exit: Node = None
        self.truncated = False

    def of_kind(self, *kinds):
        return [n for n in self.nodes if n.kind in kinds]

    def calls(self):
        """All call sites: non-inlined 'call' nodes and 'call_enter' of
        inlined ones."""
        return [n for n in self.nodes if n.kind in ('call', 'call_enter')]

    def dump(self) -> str:
        out = []
        for n in self.nodes:
            out.append('%4d %-11s %-28s %-60s -> %s' % (
                n.id, n.kind, n.loc(), n.text(60),
                ', '.join('%s:%d' % (_lab(l), t.id) for l, t in n.succ)))
        return '\n'.join(out)


def _lab(l):
    if isinstance(l, tuple):
        return 'exc[%s]' % l[1].rpartition('.')[2]
    return l


class Scope:
    __slots__ = ('kind', 'ast', 'frame', 'data')

    def __init__(self, kind, ast_node, frame, **data):
        self.kind = kind
        self.ast = ast_node
        self.frame = frame
        self.data = data

    def __repr__(self):
        return '<Scope %s %s>' % (self.kind, getattr(self.ast, 'lineno', ''))


def default_raises(builder, node: Node, res: Optional[Resolution]):
    """Conservative default: every non-inlined call may raise an arbitrary
    Exception; blocking under a Timeout scope is handled by rules."""
    return {ANY}


def never_inline(builder, call, target, frame):
    return False


class Builder:
    def __init__(self, prog: Program, resolver: Resolver,
                 inline: Callable = never_inline,
                 raises: Callable = default_raises,
                 max_depth: int = 6, assert_raises: bool = True,
                 thread_returns: bool = True):
        self.assert_raises = assert_raises
        self.thread_returns = thread_returns
        self.split_ifexp = True
        self.p = prog
        self.r = resolver
        self.inline = inline
        self.raises = raises
        self.max_depth = max_depth

    # ------------------------------------------------------------ plumbing
    def build(self, ctx: Ctx) -> CFG:
        self.cfg = CFG(ctx)
        self.stack: List[Scope] = []
        self.dangling: List[Tuple[Node, object]] = []
        root = Frame(ctx, None, None, True)
        self.cfg.exit = self._new('exit', None, root)
        self.cfg.raise_exit = self._new('raise', None, root)
        self.cfg.entry = self._new('entry', ctx.func.node, root)
        self.dangling = [(self.cfg.entry, 'next')]
        fscope = Scope('func', ctx.func.node, root, returns=[], root=True)
        self.stack.append(fscope)
        self._body(ctx.func.node.body, root)
        # fall off the end
        for n, l in self.dangling:
            self._edge(n, l, self.cfg.exit)
        for n, l in fscope.data['returns']:
            self._edge(n, l, self.cfg.exit)
        self.stack.pop()
        for n in self.cfg.nodes:
            for l, t in n.succ:
                t.pred.append((l, n))
        return self.cfg

    def _new(self, kind, ast_node, frame) -> Node:
        if len(self.cfg.nodes) > MAX_NODES:
            raise AnalysisError('CFG node bound exceeded for %s'
                                % self.cfg.root_ctx.func.qname)
        n = Node(len(self.cfg.nodes), kind, ast_node, frame,
                 tuple(self.stack))
        self.cfg.nodes.append(n)
        return n

    @staticmethod
    def _edge(a: Node, label, b: Node):
        for l, t in a.succ:
            if t is b and l == label:
                return
        a.succ.append((label, b))

    def _emit(self, kind, ast_node, frame) -> Node:
        n = self._new(kind, ast_node, frame)
        for a, l in self.dangling:
            self._edge(a, l, n)
        self.dangling = [(n, 'next')]
        if kind in ('stmt', 'test') and ast_node is not None:
            self._lookup_errors(n)
        return n

    def _lookup_errors(self, n: Node):
        """Subscripts / del raise IndexError / KeyError.  These are modelled
        only towards an enclosing handler that names them (so that such
        handlers are live); they are never propagated as escapes."""
        a = n.ast
        subs = [x for x in ast.walk(a) if isinstance(x, ast.Subscript)]
        if not subs:
            return
        for tok in ('builtins.IndexError', 'builtins.KeyError'):
            for i in range(len(self.stack) - 1, -1, -1):
                sc = self.stack[i]
                if sc.kind == 'func':
                    break
                if sc.kind == 'try':
                    hit = None
                    for types, hnode in sc.data['handlers']:
                        if self.match(tok, types) == 'yes' and not any(
                                t in ('builtins.Exception',
                                      'builtins.BaseException')
                                for t in types):
                            hit = hnode
                            break
                    if hit is not None:
                        self._edge(n, ('exc', tok), hit)
                        hit.extra.setdefault('tokens', set()).add(tok)
                        break

    def _join(self, frame, *lists) -> None:
        d = []
        for lst in lists:
            d.extend(lst)
        self.dangling = d

    # ---------------------------------------------------------- exceptions
    def match(self, token: str, handler_types: List[str]) -> str:
        """'yes' | 'maybe' | 'no'"""
        p = self.p
        best = 'no'
        for h in handler_types:
            if h.startswith('unknown.'):
                best = 'maybe' if best == 'no' else best
                continue
            if token == ANY:
                if h in ('builtins.Exception', 'builtins.BaseException'):
                    return 'yes'
                if p.is_subclass(h, 'builtins.Exception'):
                    best = 'maybe'
                continue
            if token.startswith('unknown.'):
                if h == 'builtins.BaseException':
                    return 'yes'
                best = 'maybe'
                continue
            if p.is_subclass(token, h):
                return 'yes'
            if p.is_subclass(h, token):
                best = 'maybe'
        return best

    def _raise_from(self, src: Node, label_token: str, level: int = None):
        """Route an exception `token` raised at `src` outward through the
        scope stack, starting below index `level` (default: innermost)."""
        token = label_token
        i = (len(self.stack) if level is None else level) - 1
        while i >= 0:
            sc = self.stack[i]
            if sc.kind == 'try':
                caught = False
                for types, hnode in sc.data['handlers']:
                    m = self.match(token, types)
                    if m == 'no':
                        continue
                    tok_in = token
                    if m == 'maybe' and len(types) >= 1:
                        # inside the handler the exception is known to be an
                        # instance of (one of) the handler classes
                        narrowed = [t for t in types
                                    if token == ANY or
                                    self.p.is_subclass(t, token)]
                        tok_in = narrowed[0] if len(narrowed) == 1 else token
                    self._edge(src, ('exc', token), hnode)
                    hnode.extra.setdefault('tokens', set()).add(tok_in)
                    if m == 'yes':
                        caught = True
                        break
                if caught:
                    return
            elif sc.kind in ('finally', 'with'):
                if sc.kind == 'with' and token == TIMEOUT and \
                        sc.data.get('swallows_timeout'):
                    # with Timeout(x, False): own timeout is swallowed; a
                    # foreign Timeout still propagates (kept as well)
                    sc.data['pending_exc'].append((src, token, 'swallow'))
                sc.data['pending_exc'].append((src, token, None))
                return
            elif sc.kind == 'func':
                pass   # exception leaves the inlined callee: keep unwinding
            i -= 1
        self._edge(src, ('exc', token), self.cfg.raise_exit)

    def _flush_pending(self, sc: Scope, level: int, frame):
        """Build the exceptional copies of a finally body / with exit (one
        per exception token, so that the token stays correlated with the
        path) and continue propagation outward.  `level` is the index of
        `sc` in the stack (which must already be popped)."""
        pend = sc.data['pending_exc']
        if not pend:
            return
        saved = self.dangling
        tokens = []
        for src, token, mode in pend:
            if mode != 'swallow' and token not in tokens:
                tokens.append(token)
        for tok in tokens:
            self.dangling = [(src, ('exc', token))
                             for src, token, mode in pend
                             if mode != 'swallow' and token == tok]
            if sc.kind == 'with':
                n = self._emit('with_exit', sc.ast, sc.frame)
                n.extra['exceptional'] = True
            else:
                m = self._emit('nop', None, sc.frame)
                m.extra['finally_exc'] = True
                self.stack.append(Scope('finally_body', sc.ast, sc.frame))
                self._body(sc.ast.finalbody, sc.frame)
                self.stack.pop()
            ends = self.dangling
            self.dangling = []
            if ends:
                relay = self._new('nop', None, sc.frame)
                relay.extra['reraise'] = True
                for a, l in ends:
                    self._edge(a, l, relay)
                self._raise_from(relay, tok, level)
        # swallowed timeouts continue normally after the with statement
        out = []
        swallow_src = [(src, token) for src, token, mode in pend
                       if mode == 'swallow']
        if swallow_src:
            n2 = self._new('with_exit', sc.ast, sc.frame)
            n2.extra['exceptional'] = True
            n2.extra['swallowed'] = True
            for src, token in swallow_src:
                self._edge(src, ('exc', token), n2)
            out.append((n2, 'next'))
        self.dangling = saved + out

    def _abrupt(self, upto: int, frame):
        """Run copies of the cleanup code (finally bodies, with exits) of all
        scopes above stack index `upto` (exclusive), innermost first.  The
        current dangling edges flow through them."""
        saved_stack = self.stack
        i = len(saved_stack) - 1
        while i > upto:
            sc = saved_stack[i]
            if sc.kind == 'finally':
                self.stack = saved_stack[:i]
                self.stack.append(Scope('finally_body', sc.ast, sc.frame))
                self._body(sc.ast.finalbody, sc.frame)
                self.stack = saved_stack
            elif sc.kind == 'with':
                self.stack = saved_stack[:i]
                self._emit('with_exit', sc.ast, sc.frame)
                self.stack = saved_stack
            i -= 1

    # ---------------------------------------------------------- statements
    def _body(self, stmts, frame):
        for s in stmts:
            if not self.dangling:
                break      # unreachable code
            self._stmt(s, frame)

    def _stmt(self, s, frame):
        hook = getattr(self, '_yield_hook', None)
        if hook is not None and isinstance(s, (ast.Expr, ast.Assign)) and \
                (s.value is hook[0] or (
                    isinstance(hook[0], frozenset) and
                    id(s.value) in hook[0])):
            # the yield of a context manager / generator being inlined by
            # _with / a for statement
            self._yield_hook = None
            self._yield_frame = frame
            try:
                if isinstance(hook[0], frozenset):
                    hook[1](s.value, frame)
                else:
                    hook[1]()
            finally:
                self._yield_hook = hook
            return
        if isinstance(s, ast.Expr):
            if isinstance(s.value, ast.Constant):
                return
            self._expr(s.value, frame)
            if not isinstance(s.value, ast.Call):
                self._emit('stmt', s, frame)
        elif isinstance(s, ast.Assign) and isinstance(s.value, ast.IfExp) \
                and self.split_ifexp:
            # x = A if c else B   ==   if c: x = A  else: x = B
            # (keeps which value was assigned correlated with the test)
            a = ast.Assign(targets=s.targets, value=s.value.body)
            b = ast.Assign(targets=s.targets, value=s.value.orelse)
            for n2 in (a, b):
                ast.copy_location(n2, s)
                n2.end_lineno = getattr(s, 'end_lineno', None)
            iff = ast.If(test=s.value.test, body=[a], orelse=[b])
            ast.copy_location(iff, s)
            self._stmt(iff, frame)
        elif isinstance(s, ast.Assign) and self.thread_returns and \
                self._assign_null_split(s, frame):
            pass
        elif isinstance(s, (ast.Assign, ast.AugAssign, ast.AnnAssign)):
            if getattr(s, 'value', None) is not None:
                self._expr(s.value, frame)
            targets = s.targets if isinstance(s, ast.Assign) else [s.target]
            for t in targets:
                self._target_exprs(t, frame)
            self._emit('stmt', s, frame)
        elif isinstance(s, ast.Return):
            fi = self._func_index(frame)
            fs = self.stack[fi]
            if fs.data.get('thread') == 'null':
                # the caller assigns the result and tests it for None right
                # away: keep "returned None" and "returned an object" apart
                is_none = s.value is None or (
                    isinstance(s.value, ast.Constant) and
                    s.value.value is None)
                if not is_none:
                    self._expr(s.value, frame)
                # U: a value that is not known to be an object - no claim
                # about it, the caller's test stays a test on that path
                is_obj = fs.data.get('null_obj')
                cls = 'F' if is_none else (
                    'T' if is_obj is None or is_obj(s) else 'U')
                if self.dangling:
                    n = self._emit('stmt', s, frame)
                    n.extra['ret_class'] = {'F': 'N', 'T': 'O',
                                            'U': 'U'}[cls]
                    self._abrupt(fi, frame)
                    fs.data.setdefault('ret_' + cls, []).extend(
                        self.dangling)
                self.dangling = []
                return
            if fs.data.get('thread') == 'raise':
                # `raise self._error_for(...)`: what the helper returns is
                # raised - each `return E` is a `raise E` where it stands,
                # under whatever the helper tested on the way
                if s.value is not None and self.dangling:
                    rs = ast.Raise(exc=s.value, cause=None)
                    ast.copy_location(rs, s)
                    rs.end_lineno = getattr(s, 'end_lineno', None)
                    self._expr(s.value, frame)
                    if self.dangling:
                        n = self._emit('stmt', rs, frame)
                        self.dangling = []
                        for tok in self._raise_tokens(rs, frame):
                            self._raise_from(n, tok)
                self.dangling = []
                return
            if fs.data.get('thread'):
                # the caller branches on the returned value: `return E` is a
                # branch on E (jump threading), so that what the helper
                # tested is visible on the caller's true / false edges
                if s.value is None:
                    t_edges, f_edges = [], self.dangling
                else:
                    t_edges, f_edges = self._cond(s.value, frame)
                saved = list(self.stack)
                for cls, edges in (('T', t_edges), ('F', f_edges)):
                    if not edges:
                        continue
                    self.stack = list(saved)
                    self.dangling = edges
                    n = self._emit('stmt', s, frame)
                    n.extra['ret_class'] = cls
                    self._abrupt(fi, frame)
                    fs.data['ret_' + cls].extend(self.dangling)
                self.stack = saved
                self.dangling = []
                return
            if s.value is not None:
                self._expr(s.value, frame)
            self._emit('stmt', s, frame)
            self._abrupt(fi, frame)
            self.stack[fi].data['returns'].extend(self.dangling)
            self.dangling = []
        elif isinstance(s, ast.Raise) and self._raise_helper(s, frame):
            pass
        elif isinstance(s, ast.Raise):
            if s.exc is not None:
                self._expr(s.exc, frame)
            n = self._emit('stmt', s, frame)
            self.dangling = []
            for tok in self._raise_tokens(s, frame):
                self._raise_from(n, tok)
        elif isinstance(s, ast.Assert):
            t, f = self._cond(s.test, frame)
            self.dangling = f
            if f and self.assert_raises:
                n = self._emit('stmt', s, frame)
                self.dangling = []
                self._raise_from(n, 'builtins.AssertionError')
            self.dangling = t
        elif isinstance(s, ast.If):
            t, f = self._cond(s.test, frame)
            self.dangling = t
            self._body(s.body, frame)
            after_t = self.dangling
            self.dangling = f
            self._body(s.orelse, frame)
            self.dangling = after_t + self.dangling
        elif isinstance(s, ast.While):
            head = self._emit('nop', None, frame)
            head.extra['loop_head'] = s
            sc = Scope('loop', s, frame, cont=head, breaks=[])
            self.stack.append(sc)     # the test is re-evaluated per iteration
            t, f = self._cond(s.test, frame)
            self.dangling = t
            self._body(s.body, frame)
            for a, l in self.dangling:
                self._edge(a, l, head)
            self.stack.pop()
            self.dangling = f
            self._body(s.orelse, frame)
            self.dangling = self.dangling + sc.data['breaks']
        elif isinstance(s, ast.For) and self._literal_iter(s) is not None:
            # `for x in (a, b):` - the body runs once per element, with the
            # target bound to it
            for el in self._literal_iter(s):
                if not self.dangling:
                    break
                asg = ast.Assign(targets=[s.target], value=el)
                ast.copy_location(asg, s)
                asg.end_lineno = getattr(s, 'end_lineno', None)
                self._expr(el, frame)
                self._emit('stmt', asg, frame)
                body = s.body
                tn = s.target.id
                if isinstance(el, (ast.Name, ast.Attribute)) and any(
                        isinstance(x, ast.Call) and
                        isinstance(x.func, ast.Name) and x.func.id == tn
                        for st in s.body for x in ast.walk(st)) and not any(
                        isinstance(x, ast.Name) and x.id == tn and
                        isinstance(x.ctx, (ast.Store, ast.Del))
                        for st in s.body for x in ast.walk(st)):
                    # `for f in (self.a.x, self.a.y): f(id)`: the call is a
                    # call of what the element names in this copy of the body
                    import copy as _copy

                    class _SubL(ast.NodeTransformer):
                        def visit_Name(self, node, tn=tn, el=el):
                            if isinstance(node.ctx, ast.Load) and \
                                    node.id == tn:
                                return ast.copy_location(
                                    _copy.deepcopy(el), node)
                            return node
                    body = [_SubL().visit(_copy.deepcopy(st))
                            for st in s.body]
                    for st in body:
                        ast.fix_missing_locations(st)
                self._body(body, frame)
        elif isinstance(s, ast.For) and \
                self._table_iter(s, frame) is not None:
            # `for cls, handler in _TABLE:` over a module-level display of
            # module-level names / constants: the body runs once per row,
            # the loop variables read as what the row names
            import copy as _copy
            for subst in self._table_iter(s, frame):
                if not self.dangling:
                    break

                class _Sub(ast.NodeTransformer):
                    def visit_Name(self, node, subst=subst):
                        if isinstance(node.ctx, ast.Load) and \
                                node.id in subst:
                            new = _copy.deepcopy(subst[node.id])
                            return ast.copy_location(new, node)
                        return node
                body = [_Sub().visit(_copy.deepcopy(st)) for st in s.body]
                for st in body:
                    ast.fix_missing_locations(st)
                self._body(body, frame)
        elif isinstance(s, ast.For) and \
                self._star_iter(s, frame) is not None:
            # `for cond, reply in checks:` over the *args of an inlined
            # helper whose call site spells them out: the body runs once per
            # argument; a loop variable bound to a pure test of the caller
            # is that test where the body branches on it
            for pairs in self._star_iter(s, frame):
                if not self.dangling:
                    break
                saved_lt = dict(getattr(self, '_local_tests', {}))
                lt = dict(saved_lt)
                subst = {}
                for nm, ex, ef in pairs:
                    lt[(id(frame), nm)] = (ex, ef)
                    if self._same_everywhere(ex, ef, frame):
                        subst[nm] = ex
                self._local_tests = lt
                body = s.body
                if subst:
                    # a loop variable bound to a constant / module-level
                    # name reads as that name in this copy of the body
                    # (`reply.send(io)` is `bad_sequence.send(io)`)
                    import copy as _copy

                    class _Sub(ast.NodeTransformer):
                        def visit_Name(self, node):
                            if isinstance(node.ctx, ast.Load) and \
                                    node.id in subst:
                                new = _copy.deepcopy(subst[node.id])
                                return ast.copy_location(new, node)
                            return node
                    body = [_Sub().visit(_copy.deepcopy(st))
                            for st in s.body]
                    for st in body:
                        ast.fix_missing_locations(st)
                try:
                    self._body(body, frame)
                finally:
                    self._local_tests = saved_lt
        elif isinstance(s, ast.For) and \
                self._const_trips(s, frame) is not None:
            # `for _ in range(<known small constant>)`: the body runs exactly
            # that many times
            self._expr(s.iter, frame)
            for _ in range(self._const_trips(s, frame)):
                self._body(s.body, frame)
        elif isinstance(s, ast.For) and \
                self._gen_target(s.iter, frame) is not None:
            # for <targets> in <generator function of the repository>(...):
            # the generator's code runs with the loop body in place of every
            # `yield v` (targets = v; body); `continue` resumes the
            # generator, `break` leaves it
            t, res, yields = self._gen_target(s.iter, frame)
            e2 = s.iter
            self._expr(e2.func, frame)
            for a in e2.args:
                self._expr(a.value if isinstance(a, ast.Starred) else a,
                           frame)
            for k in e2.keywords:
                self._expr(k.value, frame)
            if self.dangling:
                breaks = []

                def body(ynode, gframe):
                    if not self.dangling:
                        return
                    asg = ast.Assign(targets=[s.target], value=ynode.value
                                     if ynode.value is not None
                                     else ast.Constant(value=None))
                    ast.copy_location(asg, s)
                    asg.end_lineno = getattr(s, 'end_lineno', None)
                    an = self._emit('stmt', asg, frame)
                    an.extra['yield_value'] = ynode.value
                    an.extra['yield_frame'] = gframe
                    resume = self._new('nop', None, frame)
                    sc = Scope('loop', s, frame, cont=resume, breaks=breaks)
                    self.stack.append(sc)
                    # loop variables this yield binds to literals (a flag
                    # yielded as True / False) are known in this copy of
                    # the body, unless the body re-binds them
                    saved_lc = dict(getattr(self, '_local_consts', {}))
                    lc = dict(saved_lc)
                    tg, yv = s.target, ynode.value
                    pairs = []
                    if isinstance(tg, ast.Name) and yv is not None:
                        pairs = [(tg, yv)]
                    elif isinstance(tg, (ast.Tuple, ast.List)) and \
                            isinstance(yv, (ast.Tuple, ast.List)) and \
                            len(tg.elts) == len(yv.elts):
                        pairs = list(zip(tg.elts, yv.elts))
                    for a2, b2 in pairs:
                        if isinstance(a2, ast.Name):
                            lc.pop((id(frame), a2.id), None)
                            if isinstance(b2, ast.Constant) and not any(
                                    isinstance(x, ast.Name) and
                                    x.id == a2.id and
                                    isinstance(x.ctx, (ast.Store, ast.Del))
                                    for st in s.body for x in ast.walk(st)):
                                lc[(id(frame), a2.id)] = b2.value
                    self._local_consts = lc
                    try:
                        self._body(s.body, frame)
                    finally:
                        self._local_consts = saved_lc
                    self.stack.pop()
                    for a, l in self.dangling:
                        self._edge(a, l, resume)
                    self.dangling = [(resume, 'next')]
                saved = getattr(self, '_yield_hook', None)
                self._yield_hook = (frozenset(id(y) for y in yields), body)
                try:
                    self.dangling = self._inline(e2, t, frame, res)
                finally:
                    self._yield_hook = saved
                self._body(s.orelse, frame)
                self.dangling = self.dangling + breaks
        elif isinstance(s, (ast.For, ast.AsyncFor)):
            self._expr(s.iter, frame)
            head = self._emit('iter', s, frame)
            sc = Scope('loop', s, frame, cont=head, breaks=[])
            self.stack.append(sc)
            self.dangling = [(head, 'body')]
            self._body(s.body, frame)
            for a, l in self.dangling:
                self._edge(a, l, head)
            self.stack.pop()
            self.dangling = [(head, 'done')]
            self._body(s.orelse, frame)
            self.dangling = self.dangling + sc.data['breaks']
        elif isinstance(s, ast.Break):
            n = self._emit('stmt', s, frame)
            li = self._loop_index()
            self._abrupt(li, frame)
            self.stack[li].data['breaks'].extend(self.dangling)
            self.dangling = []
        elif isinstance(s, ast.Continue):
            n = self._emit('stmt', s, frame)
            li = self._loop_index()
            self._abrupt(li, frame)
            for a, l in self.dangling:
                self._edge(a, l, self.stack[li].data['cont'])
            self.dangling = []
        elif isinstance(s, ast.Try):
            self._try(s, frame)
        elif isinstance(s, (ast.With, ast.AsyncWith)):
            self._with(s, 0, frame)
        elif isinstance(s, (ast.FunctionDef, ast.AsyncFunctionDef,
                            ast.ClassDef, ast.Pass, ast.Global, ast.Nonlocal,
                            ast.Import, ast.ImportFrom)):
            if not isinstance(s, ast.Pass):
                self._emit('stmt', s, frame)
        elif isinstance(s, ast.Delete):
            for t in s.targets:
                self._target_exprs(t, frame)
            self._emit('stmt', s, frame)
        else:
            raise AnalysisError('unsupported statement %s at %s' % (
                type(s).__name__, frame.ctx.func.loc(s)))

    def _func_index(self, frame) -> int:
        for i in range(len(self.stack) - 1, -1, -1):
            sc = self.stack[i]
            if sc.kind == 'func' and sc.frame is frame:
                return i
        raise AnalysisError('return outside function')

    def _loop_index(self) -> int:
        for i in range(len(self.stack) - 1, -1, -1):
            if self.stack[i].kind == 'loop':
                return i
            if self.stack[i].kind == 'func':
                break
        raise AnalysisError('break/continue outside loop')

    def _raise_tokens(self, s: ast.Raise, frame) -> List[str]:
        ctx = frame.ctx
        if s.exc is None:
            return self._handler_tokens() or [ANY]
        e = s.exc
        if isinstance(e, ast.Name):
            # `raise e` where e is bound by an enclosing handler
            for sc in reversed(self.stack):
                if sc.kind == 'handler' and sc.ast.name == e.id:
                    toks = sorted(sc.data['node'].extra.get('tokens', []))
                    return toks or [ANY]
        ts = self.r.infer(e, ctx)
        out = []
        for t in ts:
            if t[0] == 'inst':
                out.append(t[1])
            elif t[0] == 'cls':
                out.append(t[1])
            elif t[0] == 'ext':
                q = t[1]
                if q.endswith('()'):
                    q = q[:-2]
                out.append(q)
        from .model import EXC_ALIASES
        out = [EXC_ALIASES.get(q, q) for q in out if q]
        return sorted(set(out)) or [ANY]

    def _handler_tokens(self) -> List[str]:
        for sc in reversed(self.stack):
            if sc.kind == 'handler':
                return sorted(sc.data['node'].extra.get('tokens', []))
            if sc.kind == 'func':
                break
        return []

    def _try(self, s: ast.Try, frame):
        ctx = frame.ctx
        fin_scope = None
        base_level = len(self.stack)
        if s.finalbody:
            fin_scope = Scope('finally', s, frame, pending_exc=[])
            self.stack.append(fin_scope)
        hnodes = []
        saved = self.dangling
        self.dangling = []
        for h in s.handlers:
            htype, hctx = h.type, ctx
            if isinstance(htype, ast.Name) and frame.parent is not None and \
                    htype.id in ctx.func.params:
                # `except errors:` with the classes handed in by this
                # inlining site (or left to the parameter's default)
                from .model import walk_own
                fn = ctx.func
                if not any(isinstance(x, ast.Name) and x.id == htype.id and
                           isinstance(x.ctx, (ast.Store, ast.Del))
                           for x in walk_own(fn.node)):
                    ax = frame.arg_exprs.get(htype.id)
                    if ax is not None:
                        if isinstance(ax[0], (ast.Tuple, ast.Name,
                                              ast.Attribute)):
                            htype, hctx = ax[0], ax[1].ctx
                    else:
                        fa = fn.node.args
                        allp = [a.arg for a in fa.posonlyargs + fa.args]
                        if htype.id in allp:
                            di = allp.index(htype.id) - (
                                len(allp) - len(fa.defaults))
                            if 0 <= di < len(fa.defaults):
                                htype = fa.defaults[di]
                        else:
                            for a, d in zip(fa.kwonlyargs, fa.kw_defaults):
                                if a.arg == htype.id and d is not None:
                                    htype = d
            types = self.r.exc_type_names(htype, hctx)
            hn = self._new('handler', h, frame)
            hn.extra['types'] = types
            hnodes.append((types, hn))
        self.dangling = saved
        try_scope = Scope('try', s, frame, handlers=hnodes)
        self.stack.append(try_scope)
        self._body(s.body, frame)
        self.stack.pop()
        # else clause: exceptions there are not caught by these handlers
        if s.orelse and self.dangling:
            self.stack.append(Scope('else', s, frame))
            self._body(s.orelse, frame)
            self.stack.pop()
        ends = list(self.dangling)
        for (types, hn), h in zip(hnodes, s.handlers):
            if not hn.extra.get('tokens'):
                hn.extra['unreached'] = True
                # still build the body so that its nodes exist for rules
            self.dangling = [(hn, 'next')]
            hs = Scope('handler', h, frame, node=hn)
            self.stack.append(hs)
            self._body(h.body, frame)
            self.stack.pop()
            ends.extend(self.dangling)
        self.dangling = ends
        if fin_scope is not None:
            self.stack.pop()
            # normal completion: a copy of the finally body
            if self.dangling:
                self.stack.append(Scope('finally_body', s, frame))
                self._body(s.finalbody, frame)
                self.stack.pop()
            self._flush_pending(fin_scope, base_level, frame)

    def _gen_target(self, e, frame):
        """(target, resolution, yield nodes) when `e` calls a generator
        function of the repository (not a context manager) that may be
        inlined into the for statement iterating it"""
        if not isinstance(e, ast.Call) or frame.depth >= self.max_depth:
            return None
        memo = self.__dict__.setdefault('_gen_memo', {})
        key = (id(e), id(frame))
        if key in memo:
            return memo[key]
        memo[key] = None
        res = self._resolve(e, frame)
        if len(res.targets) != 1 or res.externals or res.unresolved or \
                getattr(res, 'via', None) is not None:
            return None
        t = res.targets[0]
        f = t.func
        if not f.is_generator or any(
                d.rpartition('.')[2] == 'contextmanager'
                for d in f.decorators):
            return None
        active = {fr.ctx.key() for fr in frame.chain()}
        if t.ctx().key() in active or not self.inline(self, e, t, frame):
            return None
        from .model import walk_own
        ys = [x for x in walk_own(f.node)
              if isinstance(x, (ast.Yield, ast.YieldFrom))]
        if not ys or any(isinstance(y, ast.YieldFrom) for y in ys):
            return None
        # only `yield v` as a statement (or `x = yield v`)
        stmts = [x for x in walk_own(f.node)
                 if isinstance(x, (ast.Expr, ast.Assign)) and
                 any(x.value is y for y in ys)]
        if len(stmts) != len(ys):
            return None
        memo[key] = (t, res, ys)
        return memo[key]

    def _cm_target(self, e, frame):
        """(target, resolution) when `e` calls a @contextmanager generator
        of the repository that may be inlined here: one `yield` statement,
        not inside a loop"""
        if not isinstance(e, ast.Call) or frame.depth >= self.max_depth:
            return None
        res = self._resolve(e, frame)
        if len(res.targets) != 1 or res.externals or res.unresolved:
            return None
        t = res.targets[0]
        f = t.func
        if not f.is_generator or not any(
                d.rpartition('.')[2] == 'contextmanager'
                for d in f.decorators):
            return None
        active = {fr.ctx.key() for fr in frame.chain()}
        if t.ctx().key() in active or not self.inline(self, e, t, frame):
            return None
        from .model import walk_own
        ys = [x for x in walk_own(f.node)
              if isinstance(x, (ast.Yield, ast.YieldFrom))]
        if len(ys) != 1 or isinstance(ys[0], ast.YieldFrom):
            return None

        def in_loop(stmts):
            for st in stmts:
                if isinstance(st, (ast.For, ast.While)) and any(
                        y is ys[0] for y in ast.walk(st)):
                    return True
                for fld in ('body', 'orelse', 'finalbody', 'handlers'):
                    sub = getattr(st, fld, None) or []
                    for x in sub:
                        if isinstance(x, ast.ExceptHandler):
                            if in_loop(x.body):
                                return True
                    if sub and isinstance(sub[0], ast.stmt) and in_loop(sub):
                        return True
            return False
        if in_loop(f.node.body):
            return None
        return t, res, ys[0]

    def _with(self, s, idx, frame):
        item = s.items[idx]
        cm = self._cm_target(item.context_expr, frame)
        if cm is not None:
            # with <contextmanager>(...): the generator's code up to its
            # yield, the block, the rest of the generator - the block sits
            # where the yield is, inside the generator's try/finally
            t, res, y = cm
            e = item.context_expr
            self._expr(e.func, frame)
            for a in e.args:
                self._expr(a.value if isinstance(a, ast.Starred) else a,
                           frame)
            for k in e.keywords:
                self._expr(k.value, frame)
            if not self.dangling:
                return

            def block():
                if item.optional_vars is not None:
                    we = self._emit('with_enter', item, frame)
                    # what `as <vars>` receives, for value-flow rules
                    we.extra['yield_value'] = y.value
                    we.extra['yield_frame'] = self._yield_frame
                if idx + 1 < len(s.items):
                    self._with(s, idx + 1, frame)
                else:
                    self._body(s.body, frame)
            saved = getattr(self, '_yield_hook', None)
            self._yield_hook = (y, block)
            try:
                self.dangling = self._inline(e, t, frame, res)
            finally:
                self._yield_hook = saved
            return
        self._expr(item.context_expr, frame)
        self._emit('with_enter', item, frame)
        sc = Scope('with', item, frame, pending_exc=[], stmt=s,
                   swallows_timeout=_swallows_timeout(item.context_expr))
        level = len(self.stack)
        self.stack.append(sc)
        if idx + 1 < len(s.items):
            self._with(s, idx + 1, frame)
        else:
            self._body(s.body, frame)
        self.stack.pop()
        if self.dangling:
            self._emit('with_exit', item, frame)
        self._flush_pending(sc, level, frame)

    # --------------------------------------------------------- expressions
    def _cond(self, e, frame):
        """Evaluate a branch condition; returns (true_edges, false_edges)."""
        if isinstance(e, ast.BoolOp):
            is_and = isinstance(e.op, ast.And)
            outs = []
            for i, v in enumerate(e.values):
                t, f = self._cond(v, frame)
                if i == len(e.values) - 1:
                    if is_and:
                        return t, outs + f
                    return outs + t, f
                if is_and:
                    outs += f
                    self.dangling = t
                else:
                    outs += t
                    self.dangling = f
        if isinstance(e, ast.UnaryOp) and isinstance(e.op, ast.Not):
            t, f = self._cond(e.operand, frame)
            return f, t
        if isinstance(e, ast.Constant):
            if not self.dangling:
                return [], []
            n = self._emit('test', e, frame)
            if e.value:
                return [(n, 'T')], []
            return [], [(n, 'F')]
        pe = self._prop_test(e, frame)
        if pe is not None:
            # `if self._in_data:` with a property that is one pure test of
            # the object's own attributes: branch on that test
            return self._cond(pe, frame)
        if isinstance(e, ast.Call) and self.thread_returns:
            r = self._cond_call(e, frame)
            if r is not None:
                return r
        if self.thread_returns:
            r = self._null_test(e, frame)
            if r is not None:
                return r
        if isinstance(e, ast.Compare) and len(e.ops) == 1 and \
                isinstance(e.ops[0], (ast.Is, ast.IsNot)) and \
                isinstance(e.left, ast.Name) and \
                isinstance(e.comparators[0], ast.Constant) and \
                e.comparators[0].value is None and \
                e.left.id in frame.ctx.func.params and \
                frame.parent is not None:
            # `param is None` where this inlining site hands the parameter a
            # display / a literal (or leaves it to its literal default):
            # only one way to go
            from .model import walk_own
            nm = e.left.id
            isnone = None
            if not any(isinstance(x, ast.Name) and x.id == nm and
                       isinstance(x.ctx, (ast.Store, ast.Del))
                       for x in walk_own(frame.ctx.func.node)):
                for k, v in frame.ctx.consts:
                    if k == nm:
                        isnone = v is None
                ax = frame.arg_exprs.get(nm)
                if isnone is None and ax is not None and (
                        self._provably_object(ax[0]) or
                        isinstance(ax[0], ast.Lambda) or
                        (isinstance(ax[0], ast.Name) and
                         ax[0].id in getattr(ax[1].ctx.func, 'nested', {})
                         and not any(
                             isinstance(x, ast.Name) and x.id == ax[0].id
                             and isinstance(x.ctx, (ast.Store, ast.Del))
                             for x in walk_own(ax[1].ctx.func.node)))):
                    # (a lambda / a local def handed over is an object)
                    isnone = False
            if isnone is not None:
                if not self.dangling:
                    return [], []
                n = self._emit('test', e, frame)
                if isnone == isinstance(e.ops[0], ast.Is):
                    return [(n, 'T')], []
                return [], [(n, 'F')]
        if isinstance(e, ast.Name) and e.id in frame.ctx.func.params and \
                frame.parent is not None:
            # a flag parameter whose literal value is known at this
            # inlining site: only one way to go
            for k, v in frame.ctx.consts:
                if k == e.id and isinstance(v, (bool, int, str, bytes,
                                                type(None))):
                    from .model import walk_own
                    if not any(isinstance(x, ast.Name) and x.id == e.id and
                               isinstance(x.ctx, (ast.Store, ast.Del))
                               for x in walk_own(frame.ctx.func.node)):
                        if not self.dangling:
                            return [], []
                        n = self._emit('test', e, frame)
                        if v:
                            return [(n, 'T')], []
                        return [], [(n, 'F')]
        if isinstance(e, ast.Name) and e.id in frame.ctx.func.params and \
                e.id in frame.bindings and \
                getattr(self, '_local_consts', None):
            # ... or that was handed a loop variable of the caller whose
            # literal value is known in this copy of the loop body
            from .model import walk_own
            arg, afr = frame.bindings[e.id]
            hops = 0
            while isinstance(arg, ast.Name) and arg.id in afr.bindings and \
                    arg.id in afr.ctx.func.params and hops < 4:
                arg, afr = afr.bindings[arg.id]
                hops += 1
            if isinstance(arg, ast.Name) and \
                    (id(afr), arg.id) in self._local_consts and not any(
                        isinstance(x, ast.Name) and x.id == e.id and
                        isinstance(x.ctx, (ast.Store, ast.Del))
                        for x in walk_own(frame.ctx.func.node)):
                v = self._local_consts[(id(afr), arg.id)]
                if not self.dangling:
                    return [], []
                n = self._emit('test', e, frame)
                if v:
                    return [(n, 'T')], []
                return [], [(n, 'F')]
        if isinstance(e, ast.Name) and \
                (id(frame), e.id) in getattr(self, '_local_consts', {}):
            v = self._local_consts[(id(frame), e.id)]
            if not self.dangling:
                return [], []
            n = self._emit('test', e, frame)
            if v:
                return [(n, 'T')], []
            return [], [(n, 'F')]
        if isinstance(e, ast.Name) and \
                (id(frame), e.id) in getattr(self, '_local_tests', {}):
            ex, ef = self._local_tests[(id(frame), e.id)]
            pure = (ast.Name, ast.Attribute, ast.Constant, ast.Compare,
                    ast.BoolOp, ast.UnaryOp, ast.expr_context, ast.cmpop,
                    ast.boolop, ast.unaryop)
            if isinstance(ex, ast.Name):
                adj = self._adjacent_flag_def(ex, ef)
                if adj is not None:
                    ex = adj
            if all(isinstance(x, pure) for x in ast.walk(ex)):
                return self._cond(ex, ef)
        if isinstance(e, ast.Name) and self.thread_returns:
            d = self._bool_def(e, frame)
            if d is not None:
                # `flag = <pure test>` ... `if flag:` branches on the test
                # itself (its operands are unchanged in between): what the
                # flag stands for is visible on the edges
                return self._cond(d, frame)
            hd = self._bool_helper_def(e, frame)
            if hd is not None:
                # `flag = self._predicate(...)` with the predicate inlined:
                # branch on what it returned
                return self._cond(hd[0], hd[1])
        self._expr(e, frame)
        if not self.dangling:
            return [], []
        n = self._emit('test', e, frame)
        return [(n, 'T')], [(n, 'F')]

    def _bool_helper_def(self, e: ast.Name, frame):
        """(test expression, callee frame) when the local flag was
        assigned once from a call that was inlined, the callee has a single
        `return <test over names / attributes / constants>`, and nothing
        but plain attribute assignments of constants stands between the
        assignment and this use (same block)"""
        from .model import walk_own
        fn = frame.ctx.func
        if e.id in fn.params:
            return None
        stores = [x for x in walk_own(fn.node) if isinstance(x, ast.Name)
                  and x.id == e.id and isinstance(x.ctx, (ast.Store,
                                                            ast.Del))]
        if len(stores) != 1:
            return None

        def find(stmts):
            for i, st in enumerate(stmts):
                if isinstance(st, ast.Assign) and len(st.targets) == 1 and \
                        st.targets[0] is stores[0] and \
                        isinstance(st.value, ast.Call):
                    return stmts, i
                for fld in ('body', 'orelse', 'finalbody'):
                    sub = getattr(st, fld, None)
                    if isinstance(sub, list) and sub and \
                            isinstance(sub[0], ast.stmt):
                        r = find(sub)
                        if r:
                            return r
                for h in getattr(st, 'handlers', []) or []:
                    r = find(h.body)
                    if r:
                        return r
            return None
        got = find(fn.node.body)
        if not got:
            return None
        block, i = got
        # the use: the If / While in the same block whose test is e
        j = None
        for k in range(i + 1, len(block)):
            st = block[k]
            if isinstance(st, (ast.If, ast.While)) and any(
                    x is e for x in ast.walk(st.test)):
                j = k
                break
            ok = isinstance(st, ast.Assign) and \
                isinstance(st.value, ast.Constant) and all(
                    isinstance(t, ast.Attribute) for t in st.targets)
            if not ok:
                return None
        if j is None:
            return None
        call = block[i].value
        kids = [c for c in getattr(frame, 'children', ())
                if c.call is call]
        if len(kids) != 1:
            return None
        callee = kids[0]
        rets = [r for r in walk_own(callee.ctx.func.node)
                if isinstance(r, ast.Return)]
        if len(rets) != 1 or rets[0].value is None:
            return None
        v = rets[0].value

        def pure(x):
            if isinstance(x, (ast.Name, ast.Constant)):
                return True
            if isinstance(x, ast.Attribute):
                return pure(x.value)
            if isinstance(x, ast.Subscript):
                return pure(x.value) and pure(x.slice)
            if isinstance(x, ast.UnaryOp) and isinstance(x.op, ast.Not):
                return pure(x.operand)
            if isinstance(x, ast.BoolOp):
                return all(pure(y) for y in x.values)
            if isinstance(x, ast.Compare) and len(x.ops) == 1:
                return pure(x.left) and pure(x.comparators[0])
            return False
        if not (isinstance(v, (ast.Compare, ast.BoolOp)) or (
                isinstance(v, ast.UnaryOp) and isinstance(v.op, ast.Not))) \
                or not pure(v):
            return None
        # the attributes the test reads are not the ones assigned between
        reads = {x.attr for x in ast.walk(v) if isinstance(x, ast.Attribute)}
        for st in block[i + 1:j]:
            for t in st.targets:
                if t.attr in reads:
                    return None
        return v, callee

    def _bool_def(self, e: ast.Name, frame):
        """the expression a local flag stands for: the flag is assigned
        once, from a side-effect-free test over names (is / == / in /
        isinstance / not / and / or), and none of those names is assigned
        between that assignment and this use"""
        from .model import walk_own
        fn = frame.ctx.func
        if e.id in fn.params:
            return None
        memo = self.__dict__.setdefault('_bool_defs', {})
        key = (id(fn.node), e.id)
        if key not in memo:
            memo[key] = None
            stores = [x for x in walk_own(fn.node)
                      if isinstance(x, ast.Name) and x.id == e.id and
                      isinstance(x.ctx, (ast.Store, ast.Del))]
            defs = [a for a in walk_own(fn.node)
                    if isinstance(a, ast.Assign) and len(a.targets) == 1 and
                    isinstance(a.targets[0], ast.Name) and
                    a.targets[0].id == e.id]
            if len(stores) == 1 and len(defs) == 1:
                v = defs[0].value

                def pure(x):
                    if isinstance(x, (ast.Name, ast.Constant)):
                        return True
                    if isinstance(x, ast.UnaryOp) and \
                            isinstance(x.op, ast.Not):
                        return pure(x.operand)
                    if isinstance(x, ast.BoolOp):
                        return all(pure(y) for y in x.values)
                    if isinstance(x, ast.Compare) and len(x.ops) == 1:
                        return pure(x.left) and pure(x.comparators[0])
                    if isinstance(x, ast.Call) and \
                            isinstance(x.func, ast.Name) and \
                            x.func.id == 'isinstance' and \
                            len(x.args) == 2 and \
                            isinstance(x.args[0], ast.Name):
                        return True
                    return False
                testlike = isinstance(v, (ast.BoolOp, ast.Compare)) or (
                    isinstance(v, ast.UnaryOp) and
                    isinstance(v.op, ast.Not)) or (
                    isinstance(v, ast.Call) and
                    isinstance(v.func, ast.Name) and
                    v.func.id == 'isinstance')
                if testlike and pure(v):
                    ops = {x.id for x in ast.walk(v)
                           if isinstance(x, ast.Name) and
                           isinstance(x.ctx, ast.Load)} - {'isinstance'}
                    line = defs[0].lineno
                    ok = True
                    for o in ops:
                        for st in walk_own(fn.node):
                            if isinstance(st, ast.Name) and st.id == o and \
                                    isinstance(st.ctx, (ast.Store, ast.Del)) \
                                    and st.lineno >= line:
                                ok = False
                    if ok:
                        memo[key] = (v, line)
        got = memo[key]
        if got is None or e.lineno <= got[1]:
            return None
        return got[0]

    @staticmethod
    def _provably_object(v) -> bool:
        """expression that cannot evaluate to None"""
        if isinstance(v, ast.Constant):
            return v.value is not None
        if isinstance(v, (ast.Tuple, ast.List, ast.Dict, ast.Set,
                          ast.ListComp, ast.DictComp, ast.SetComp,
                          ast.JoinedStr, ast.Compare, ast.BinOp)):
            return True
        return False

    def _literal_iter(self, s: ast.For):
        """elements of `for x in (a, b, ...)` over a tuple / list display of
        at most 4 names / attributes / constants, the body neither breaking
        nor continuing and not re-binding what the elements name"""
        it = s.iter
        if s.orelse or not isinstance(it, (ast.Tuple, ast.List)) or \
                not (1 <= len(it.elts) <= 4):
            return None
        if not isinstance(s.target, ast.Name):
            return None

        def simple(x):
            if isinstance(x, (ast.Name, ast.Constant)):
                return True
            return isinstance(x, ast.Attribute) and simple(x.value)
        if not all(simple(x) for x in it.elts):
            return None
        for st in s.body:
            for x in ast.walk(st):
                if isinstance(x, (ast.Break, ast.Continue)):
                    return None
        return list(it.elts)

    def _table_iter(self, s: ast.For, frame):
        """per iteration {loop variable: expression} for a `for` over a
        module-level tuple / list display (at most 6 rows) whose rows are
        constants / module-level names (or displays of them, for a tuple
        target); the body neither breaks nor continues nor re-binds the
        loop variables"""
        from .model import walk_own
        fn = frame.ctx.func
        it = s.iter
        if s.orelse or not isinstance(it, ast.Name):
            return None
        if it.id in fn.params or any(
                isinstance(x, ast.Name) and x.id == it.id and
                isinstance(x.ctx, (ast.Store, ast.Del))
                for x in walk_own(fn.node)):
            return None
        table = fn.module.globals.get(it.id)
        if not isinstance(table, (ast.Tuple, ast.List)) or \
                not (1 <= len(table.elts) <= 6):
            return None
        tg = s.target
        names = [tg] if isinstance(tg, ast.Name) else (
            list(tg.elts) if isinstance(tg, (ast.Tuple, ast.List)) else None)
        if names is None or not all(isinstance(x, ast.Name) for x in names):
            return None
        ids = {x.id for x in names}
        for st in s.body:
            for x in ast.walk(st):
                if isinstance(x, (ast.Break, ast.Continue)):
                    return None
                if isinstance(x, ast.Name) and x.id in ids and \
                        isinstance(x.ctx, (ast.Store, ast.Del)):
                    return None

        def fixed(x):
            if isinstance(x, ast.Constant):
                return True
            if isinstance(x, ast.Attribute):
                return fixed(x.value)
            if not isinstance(x, ast.Name):
                return False
            if x.id in fn.params or any(
                    isinstance(y, ast.Name) and y.id == x.id and
                    isinstance(y.ctx, (ast.Store, ast.Del))
                    for y in walk_own(fn.node)):
                return False
            m = fn.module
            return x.id in m.globals or x.id in getattr(m, 'imports', {}) \
                or x.id in getattr(m, 'functions', {}) or \
                x.id in getattr(m, 'classes', {})
        out = []
        for row in table.elts:
            if isinstance(tg, ast.Name):
                if not fixed(row):
                    return None
                out.append({tg.id: row})
            else:
                if not (isinstance(row, (ast.Tuple, ast.List)) and
                        len(row.elts) == len(names) and
                        all(fixed(el) for el in row.elts)):
                    return None
                out.append({n.id: el for n, el in zip(names, row.elts)})
        return out

    def _same_everywhere(self, ex, ef, frame):
        """the expression means the same in both frames: a constant, or a
        module-level name of the module both functions live in that
        neither function binds"""
        if isinstance(ex, ast.Constant):
            return True
        if not isinstance(ex, ast.Name):
            return False
        from .model import walk_own
        f1, f2 = ef.ctx.func, frame.ctx.func
        if f1.module is not f2.module:
            return False
        for fn in (f1, f2):
            if ex.id in fn.params or any(
                    isinstance(x, ast.Name) and x.id == ex.id and
                    isinstance(x.ctx, (ast.Store, ast.Del))
                    for x in walk_own(fn.node)):
                return False
        m = f1.module
        return ex.id in m.globals or ex.id in getattr(m, 'imports', {}) or \
            ex.id in getattr(m, 'functions', {})

    def _adjacent_flag_def(self, e: ast.Name, frame):
        """`flag = <pure test over names / attributes / constants>` when
        that assignment is the only one of the flag and is the statement
        right before the one in which this use of the flag occurs (nothing
        runs in between), else None"""
        from .model import walk_own
        fn = frame.ctx.func
        if e.id in fn.params:
            return None
        stores = [x for x in walk_own(fn.node) if isinstance(x, ast.Name)
                  and x.id == e.id and isinstance(x.ctx, (ast.Store,
                                                            ast.Del))]
        if len(stores) != 1:
            return None
        pure = (ast.Name, ast.Attribute, ast.Constant, ast.Compare,
                ast.BoolOp, ast.UnaryOp, ast.expr_context, ast.cmpop,
                ast.boolop, ast.unaryop)

        def find(stmts):
            for i, st in enumerate(stmts):
                if i and any(x is e for x in ast.walk(
                        st.test if isinstance(st, (ast.If, ast.While))
                        else st)):
                    prev = stmts[i - 1]
                    if isinstance(prev, ast.Assign) and \
                            len(prev.targets) == 1 and \
                            prev.targets[0] is stores[0] and all(
                                isinstance(x, pure)
                                for x in ast.walk(prev.value)):
                        return prev.value
                    if not isinstance(st, (ast.If, ast.While, ast.For,
                                           ast.Try, ast.With)):
                        return None
                for fld in ('body', 'orelse', 'finalbody'):
                    sub = getattr(st, fld, None)
                    if isinstance(sub, list) and sub and \
                            isinstance(sub[0], ast.stmt):
                        r = find(sub)
                        if r is not None:
                            return r
                for h in getattr(st, 'handlers', []) or []:
                    r = find(h.body)
                    if r is not None:
                        return r
            return None
        return find(fn.node.body)

    def _star_iter(self, s: ast.For, frame):
        """per iteration [(loop variable, expression, its frame)] for
        `for <names> in <the *args parameter>` when the inlining site gives
        every argument as a display of the right arity (or the target is one
        name), the body neither breaks nor continues nor re-binds the loop
        variables, and every call in the body sits in a branch that ends in
        return / raise (so nothing runs between two tests of the
        conditions handed in)"""
        fn = frame.ctx.func
        va = fn.node.args.vararg
        if va is None or s.orelse or not isinstance(s.iter, ast.Name) or \
                s.iter.id != va.arg or frame.star_args is None or \
                not (1 <= len(frame.star_args) <= 6):
            return None
        from .model import walk_own
        if any(isinstance(x, ast.Name) and x.id == va.arg and
               isinstance(x.ctx, (ast.Store, ast.Del))
               for x in walk_own(fn.node)):
            return None
        tg = s.target
        names = [tg] if isinstance(tg, ast.Name) else (
            list(tg.elts) if isinstance(tg, (ast.Tuple, ast.List)) else None)
        if names is None or not all(isinstance(x, ast.Name) for x in names):
            return None
        ids = {x.id for x in names}
        for st in s.body:
            for x in ast.walk(st):
                if isinstance(x, (ast.Break, ast.Continue)):
                    return None
                if isinstance(x, ast.Name) and x.id in ids and \
                        isinstance(x.ctx, (ast.Store, ast.Del)):
                    return None

        def ends(block):
            return bool(block) and isinstance(block[-1], (ast.Return,
                                                          ast.Raise))

        def calm(block):
            for st in block:
                if isinstance(st, ast.If):
                    if any(isinstance(x, ast.Call)
                           for x in ast.walk(st.test)):
                        return False
                    if not ((ends(st.body) or calm(st.body)) and
                            (ends(st.orelse) or calm(st.orelse))):
                        return False
                elif any(isinstance(x, ast.Call) for x in ast.walk(st)):
                    return False
            return True
        if not calm(s.body):
            return None
        out = []
        for a, af in frame.star_args:
            if isinstance(a, ast.Starred):
                return None
            if isinstance(tg, ast.Name):
                out.append([(tg.id, a, af)])
            elif isinstance(a, (ast.Tuple, ast.List)) and \
                    len(a.elts) == len(names):
                out.append([(n.id, el, af)
                            for n, el in zip(names, a.elts)])
            else:
                return None
        return out

    def _const_trips(self, s: ast.For, frame):
        """number of iterations of `for x in range(N)` when N is a literal
        or a parameter whose value is known at this inlining site (and the
        body neither breaks, continues nor uses the loop variable)"""
        it = s.iter
        if s.orelse or not (isinstance(it, ast.Call) and
                            isinstance(it.func, ast.Name) and
                            it.func.id == 'range' and len(it.args) == 1 and
                            not it.keywords):
            return None
        a = it.args[0]
        n = None
        if isinstance(a, ast.Constant) and isinstance(a.value, int) and \
                not isinstance(a.value, bool):
            n = a.value
        elif isinstance(a, ast.Name):
            from .model import walk_own
            fn = frame.ctx.func
            if a.id in fn.params and not any(
                    isinstance(x, ast.Name) and x.id == a.id and
                    isinstance(x.ctx, (ast.Store, ast.Del))
                    for x in walk_own(fn.node)):
                for k, v in frame.ctx.consts:
                    if k == a.id and isinstance(v, int) and \
                            not isinstance(v, bool):
                        n = v
        if n is None or not (0 <= n <= 4):
            return None
        tnames = {x.id for x in ast.walk(s.target) if isinstance(x, ast.Name)}
        for st in s.body:
            for x in ast.walk(st):
                if isinstance(x, (ast.Break, ast.Continue)):
                    return None
                if isinstance(x, ast.Name) and x.id in tnames:
                    return None
        return n

    def _assign_null_split(self, s: ast.Assign, frame) -> bool:
        """`x = helper(...)` where the inlined helper returns None on some
        paths and an object on others: emit the assignment once per class
        and remember the two continuations, so that an immediately
        following `if x is None` / `if x` is threaded instead of joined."""
        if len(s.targets) != 1 or not isinstance(s.targets[0], ast.Name) or \
                not isinstance(s.value, ast.Call) or not self.dangling or \
                frame.depth >= self.max_depth:
            return False
        e = s.value
        res = self._resolve(e, frame)
        if len(res.targets) != 1 or res.externals or res.unresolved or \
                res.ctor_of or getattr(res, 'via', None) is not None:
            return False
        t = res.targets[0]
        active = {f.ctx.key() for f in frame.chain()}
        if t.ctx().key() in active or not self.inline(self, e, t, frame):
            return False
        from .model import walk_own
        body = t.func.node
        rets = [x for x in walk_own(body) if isinstance(x, ast.Return)]
        if any(isinstance(x, (ast.Yield, ast.YieldFrom))
               for x in walk_own(body)) or not rets:
            return False

        def is_none(r):
            return r.value is None or (isinstance(r.value, ast.Constant) and
                                       r.value.value is None)
        nones = [r for r in rets if is_none(r)]
        objs = [r for r in rets if not is_none(r)]
        # module-level names bound to objects count as objects
        mod = t.func.module

        def obj(v):
            if self._provably_object(v):
                return True
            if isinstance(v, (ast.Name, ast.Attribute)):
                # a module-level object (possibly imported)
                q = self.p.resolve_expr_qname(mod, v)
                if q:
                    mq, _, nm = q.rpartition('.')
                    m2 = self.p.modules.get(mq)
                    gv = getattr(m2, 'globals', {}).get(nm) if m2 else None
                    if gv is not None:
                        return isinstance(gv, ast.Call) or \
                            self._provably_object(gv)
                    if q in self.p.classes or q in self.p.functions:
                        return True
            if isinstance(v, ast.Call):
                r2 = self.r.resolve_call(v, t.ctx())
                return bool(r2.ctor_of)
            return False
        # `if isinstance(x, T): return x`: what is returned there is an
        # object (x is not re-bound in the helper)
        guarded = set()

        def scan(stmts, known):
            for st in stmts:
                if isinstance(st, ast.Return) and \
                        isinstance(st.value, ast.Name) and \
                        st.value.id in known:
                    guarded.add(id(st))
                elif isinstance(st, ast.If):
                    more = set()
                    tests = st.test.values if isinstance(
                        st.test, ast.BoolOp) and isinstance(
                        st.test.op, ast.And) else [st.test]
                    for c in tests:
                        if isinstance(c, ast.Call) and \
                                isinstance(c.func, ast.Name) and \
                                c.func.id == 'isinstance' and \
                                len(c.args) == 2 and \
                                isinstance(c.args[0], ast.Name):
                            more.add(c.args[0].id)
                    scan(st.body, known | more)
                    scan(st.orelse, known)
                elif isinstance(st, (ast.For, ast.While, ast.With, ast.Try)):
                    for fld in ('body', 'orelse', 'finalbody'):
                        scan(getattr(st, fld, []) or [], known)
                    for h in getattr(st, 'handlers', []) or []:
                        scan(h.body, known)
        stored = {x.id for x in walk_own(body) if isinstance(x, ast.Name) and
                  isinstance(x.ctx, (ast.Store, ast.Del))}
        scan(body.body, set())
        falls_off = True     # conservatively: the end of the body may be hit
        if not nones and not falls_off:
            return False
        if not objs:
            return False

        def null_obj(r):
            return obj(r.value) or (id(r) in guarded and
                                    r.value.id not in stored)
        self._expr(e.func, frame)
        for a in e.args:
            self._expr(a.value if isinstance(a, ast.Starred) else a, frame)
        for k in e.keywords:
            self._expr(k.value, frame)
        if not self.dangling:
            return True
        self._null_obj_next = null_obj
        o_edges, n_edges, u_edges = self._inline(e, t, frame, res,
                                                 thread='null')
        outs = {}
        for cls, edges in (('O', o_edges), ('N', n_edges), ('U', u_edges)):
            if not edges:
                outs[cls] = []
                continue
            self.dangling = edges
            n = self._emit('stmt', s, frame)
            if cls != 'U':
                n.extra['null_class'] = cls
            outs[cls] = list(self.dangling)
        self.dangling = outs['O'] + outs['N'] + outs['U']
        self._null_pending = dict(name=s.targets[0].id, frame=frame,
                                  O=outs['O'], N=outs['N'], U=outs['U'],
                                  at=len(self.cfg.nodes))
        return True

    def _null_test(self, e, frame):
        """(true edges, false edges) when `e` tests the variable of the
        pending null split for None-ness / truthiness, else None."""
        p = getattr(self, '_null_pending', None)
        if not p or p['frame'] is not frame or \
                p['at'] != len(self.cfg.nodes):
            return None
        nm = p['name']
        if isinstance(e, ast.Compare) and len(e.ops) == 1 and \
                isinstance(e.left, ast.Name) and e.left.id == nm and \
                isinstance(e.comparators[0], ast.Constant) and \
                e.comparators[0].value is None and \
                isinstance(e.ops[0], (ast.Is, ast.IsNot)):
            self._null_pending = None
            ut, uf = [], []
            if p.get('U'):
                # the continuation that carries no claim: an ordinary test
                self.dangling = list(p['U'])
                n = self._emit('test', e, frame)
                ut, uf = [(n, 'T')], [(n, 'F')]
            if isinstance(e.ops[0], ast.Is):
                return p['N'] + ut, p['O'] + uf
            return p['O'] + ut, p['N'] + uf
        return None

    def _prop_test(self, e, frame):
        """the test expression a read of `self.<property>` stands for: the
        property's body is `return <test over self.<attrs> and constants>`
        (same receiver, so the expression reads the same in this frame)"""
        if not (isinstance(e, ast.Attribute) and isinstance(e.value, ast.Name)
                and isinstance(e.ctx, ast.Load)):
            return None
        fn = frame.ctx.func
        if fn.cls is None or e.value.id != fn.self_name:
            return None
        cq = frame.ctx.self_cls or fn.cls.qname
        m = None
        for k in self.p.mro(cq):
            kc = self.p.classes.get(k)
            if kc is not None and e.attr in kc.methods:
                m = kc.methods[e.attr]
                break
        if m is None or m.kind != 'property' or not m.params:
            return None
        # (a setter of the same name replaces the getter in the table: look
        # the getter up in the class body)
        body = [st for st in m.node.body
                if not (isinstance(st, ast.Expr) and
                        isinstance(st.value, ast.Constant))]
        if len(body) != 1 or not isinstance(body[0], ast.Return) or \
                body[0].value is None:
            return None
        v = body[0].value
        sn = m.params[0]
        if sn != fn.self_name:
            return None

        def pure(x):
            if isinstance(x, ast.Constant):
                return True
            if isinstance(x, ast.Attribute):
                return isinstance(x.value, ast.Name) and x.value.id == sn
            if isinstance(x, ast.UnaryOp) and isinstance(x.op, ast.Not):
                return pure(x.operand)
            if isinstance(x, ast.BoolOp):
                return all(pure(y) for y in x.values)
            if isinstance(x, ast.Compare) and len(x.ops) == 1:
                return pure(x.left) and pure(x.comparators[0])
            return False
        if not isinstance(v, (ast.Compare, ast.BoolOp, ast.UnaryOp)) or \
                not pure(v):
            return None
        return v

    def _cond_call(self, e: ast.Call, frame):
        """Branch on the result of a call that is inlined: thread each
        `return` of the callee to the caller's true / false continuation.
        Returns None when the call is not a candidate (nothing emitted)."""
        if frame.depth >= self.max_depth or not self.dangling:
            return None
        res = self._resolve(e, frame)
        if len(res.targets) != 1 or res.externals or res.unresolved or \
                res.ctor_of:
            return None
        t = res.targets[0]
        active = {f.ctx.key() for f in frame.chain()}
        if t.ctx().key() in active or not self.inline(self, e, t, frame):
            return None
        from .model import walk_own
        body = t.func.node
        if any(isinstance(x, (ast.Yield, ast.YieldFrom))
               for x in walk_own(body)):
            return None
        if not any(isinstance(x, ast.Return) for x in walk_own(body)):
            return None
        self._expr(e.func, frame)
        for a in e.args:
            self._expr(a.value if isinstance(a, ast.Starred) else a, frame)
        for k in e.keywords:
            self._expr(k.value, frame)
        if not self.dangling:
            return [], []
        return self._inline(e, t, frame, res, thread=True)

    def _target_exprs(self, t, frame):
        if isinstance(t, ast.Subscript):
            self._expr(t.value, frame)
            self._expr(t.slice, frame)
        elif isinstance(t, ast.Attribute):
            self._expr(t.value, frame)
        elif isinstance(t, (ast.Tuple, ast.List)):
            for el in t.elts:
                self._target_exprs(el, frame)
        elif isinstance(t, ast.Starred):
            self._target_exprs(t.value, frame)

    def _expr(self, e, frame):
        if e is None or not self.dangling:
            return
        if isinstance(e, ast.Call):
            self._call(e, frame)
        elif isinstance(e, ast.BoolOp):
            is_and = isinstance(e.op, ast.And)
            outs = []
            for i, v in enumerate(e.values):
                if i == len(e.values) - 1:
                    self._expr(v, frame)
                    break
                t, f = self._cond(v, frame)
                if is_and:
                    outs += f
                    self.dangling = t
                else:
                    outs += t
                    self.dangling = f
            self.dangling = self.dangling + outs
        elif isinstance(e, ast.IfExp):
            t, f = self._cond(e.test, frame)
            self.dangling = t
            self._expr(e.body, frame)
            a = self.dangling
            self.dangling = f
            self._expr(e.orelse, frame)
            self.dangling = a + self.dangling
        elif isinstance(e, (ast.ListComp, ast.SetComp, ast.GeneratorExp,
                            ast.DictComp)):
            self._comp(e, 0, frame)
        elif isinstance(e, ast.Lambda):
            return
        else:
            for c in ast.iter_child_nodes(e):
                if isinstance(c, ast.expr):
                    self._expr(c, frame)
                elif isinstance(c, ast.keyword):
                    self._expr(c.value, frame)
                elif isinstance(c, ast.comprehension):
                    pass

    def _comp(self, e, i, frame):
        gens = e.generators
        if i == len(gens):
            if isinstance(e, ast.DictComp):
                self._expr(e.key, frame)
                self._expr(e.value, frame)
            else:
                self._expr(e.elt, frame)
            return
        g = gens[i]
        self._expr(g.iter, frame)
        head = self._emit('iter', g, frame)
        sc = Scope('loop', g, frame, cont=head, breaks=[])
        self.stack.append(sc)
        self.dangling = [(head, 'body')]
        for cond in g.ifs:
            t, f = self._cond(cond, frame)
            for a, l in f:
                self._edge(a, l, head)
            self.dangling = t
        if i + 1 == len(gens) and self.dangling:
            # where one element is produced (every filter passed)
            self._emit('nop', None, frame).extra['comp_elt'] = e
        self._comp(e, i + 1, frame)
        for a, l in self.dangling:
            self._edge(a, l, head)
        self.stack.pop()
        self.dangling = [(head, 'done')]

    def _raise_helper(self, s: ast.Raise, frame) -> bool:
        """`raise helper(...)` with the helper inlinable and every one of
        its returns a value: build it as the helper's body with `return E`
        read as `raise E`.  False = not such a raise (nothing emitted)."""
        e = s.exc
        if not isinstance(e, ast.Call) or s.cause is not None or \
                frame.depth >= self.max_depth or not self.dangling:
            return False
        res = self._resolve(e, frame)
        if len(res.targets) != 1 or res.externals or res.unresolved or \
                res.ctor_of:
            return False
        t = res.targets[0]
        active = {f.ctx.key() for f in frame.chain()}
        if t.ctx().key() in active or t.func.is_generator or \
                not self.inline(self, e, t, frame):
            return False
        from .model import walk_own
        rets = [x for x in walk_own(t.func.node) if isinstance(x, ast.Return)]
        if not rets or any(r.value is None for r in rets):
            return False
        self._expr(e.func, frame)
        for a in e.args:
            self._expr(a.value if isinstance(a, ast.Starred) else a, frame)
        for k in e.keywords:
            self._expr(k.value, frame)
        if self.dangling:
            self._inline(e, t, frame, res, thread='raise')
        self.dangling = []
        return True

    def _lambda_called(self, e: ast.Call, frame):
        """(lambda, frame it was written in) when the call is `p()` for a
        parameter p of an inlined function that was given a parameterless
        lambda (a deferred expression: `run(lambda: sender.send(io))`)"""
        f = e.func
        if not isinstance(f, ast.Name) or e.keywords:
            return None
        if e.args:
            return self._lambda_applied(e, frame)
        fr, depth = frame, 0
        name = f.id
        while depth < 4 and name in getattr(fr, 'arg_exprs', {}) and \
                name in fr.ctx.func.params:
            from .model import walk_own
            if any(isinstance(x, ast.Name) and x.id == name and
                   isinstance(x.ctx, (ast.Store, ast.Del))
                   for x in walk_own(fr.ctx.func.node)):
                return None
            x, xf = fr.arg_exprs[name]
            if isinstance(x, ast.Lambda):
                a = x.args
                if a.args or a.posonlyargs or a.kwonlyargs or a.vararg or \
                        a.kwarg:
                    return None
                return x, xf
            if not isinstance(x, ast.Name):
                return None
            name, fr = x.id, xf
            depth += 1
        return None

    def _lambda_applied(self, e: ast.Call, frame):
        """`write(self.io)` for a parameter bound to `lambda io: ...`: the
        lambda's body with its parameters replaced by the arguments, when
        these are attribute paths of self (both frames being methods of the
        same object) or constants.  (expression, frame) or None."""
        import copy as _copy
        name = e.func.id
        fr = frame
        if not (name in getattr(fr, 'arg_exprs', {}) and
                name in fr.ctx.func.params):
            return None
        from .model import walk_own
        if any(isinstance(x, ast.Name) and x.id == name and
               isinstance(x.ctx, (ast.Store, ast.Del))
               for x in walk_own(fr.ctx.func.node)):
            return None
        x, xf = fr.arg_exprs[name]
        if not isinstance(x, ast.Lambda):
            return None
        a = x.args
        if a.posonlyargs or a.kwonlyargs or a.vararg or a.kwarg or \
                a.defaults or len(a.args) != len(e.args):
            return None

        def portable(v):
            if isinstance(v, ast.Constant):
                return True
            while isinstance(v, ast.Attribute):
                v = v.value
            return isinstance(v, ast.Name) and \
                v.id == fr.ctx.func.self_name and \
                xf.ctx.func.self_name is not None and \
                fr.self_same and xf.self_same
        if not all(portable(v) for v in e.args):
            return None
        subst = {}
        for p0, v in zip(a.args, e.args):
            v2 = _copy.deepcopy(v)
            # spelled with the defining frame's name for self
            for y in ast.walk(v2):
                if isinstance(y, ast.Name) and \
                        y.id == fr.ctx.func.self_name:
                    y.id = xf.ctx.func.self_name
            subst[p0.arg] = v2

        class _Sub(ast.NodeTransformer):
            def visit_Name(self, node):
                if isinstance(node.ctx, ast.Load) and node.id in subst:
                    return ast.copy_location(
                        _copy.deepcopy(subst[node.id]), node)
                return node
        body = _Sub().visit(_copy.deepcopy(x.body))
        ast.fix_missing_locations(body)
        return ast.Lambda(args=ast.arguments(
            posonlyargs=[], args=[], kwonlyargs=[], kw_defaults=[],
            defaults=[]), body=body), xf

    def _call(self, e: ast.Call, frame):
        ctx = frame.ctx
        lam = self._lambda_called(e, frame)
        if lam is not None:
            # the body of the lambda runs here, in the scope it closes over
            self._expr(lam[0].body, lam[1])
            return
        # evaluation order: callee expression, positional, keywords
        self._expr(e.func, frame)
        for a in e.args:
            self._expr(a.value if isinstance(a, ast.Starred) else a, frame)
        for k in e.keywords:
            self._expr(k.value, frame)
        if not self.dangling:
            return
        res = self._resolve(e, frame)
        inl: List[Target] = []
        rest: List[Target] = []
        if frame.depth < self.max_depth:
            active = {f.ctx.key() for f in frame.chain()}
            for t in res.targets:
                # (calling a generator function runs none of its body: it
                # is never inlined as a call - see _with for context
                # managers)
                if t.ctx().key() not in active and \
                        not t.func.is_generator and \
                        self.inline(self, e, t, frame):
                    inl.append(t)
                else:
                    rest.append(t)
        else:
            rest = list(res.targets)
        if not inl:
            n = self._emit('call', e, frame)
            n.extra['res'] = res
            self.dangling = [(n, 'next')]
            for tok in sorted(self.raises(self, n, res)):
                self._raise_from(n, tok)
            return
        starts = self.dangling
        ends = []
        branch = None
        if len(inl) + (1 if (rest or res.externals) else 0) > 1:
            branch = self._emit('nop', None, frame)
            branch.extra['dispatch'] = e
        for t in inl:
            if branch is not None:
                self.dangling = [(branch, 'alt')]
            else:
                self.dangling = starts
            ends.extend(self._inline(getattr(res, 'via', None) or e, t,
                                     frame, res,
                                     arg_frame=getattr(res, 'via_frame',
                                                       None)))
        if rest or res.externals:
            self.dangling = [(branch, 'alt')] if branch is not None \
                else starts
            n = self._emit('call', e, frame)
            sub = Resolution()
            sub.targets = rest
            sub.externals = res.externals
            n.extra['res'] = sub
            n.extra['partial'] = True
            for tok in sorted(self.raises(self, n, sub)):
                self._raise_from(n, tok)
            ends.append((n, 'next'))
        self.dangling = ends

    @staticmethod
    def _copy_res(r):
        out = Resolution()
        out.targets = list(r.targets)
        out.externals = list(r.externals)
        out.unresolved = r.unresolved
        out.ctor_of = list(r.ctor_of)
        return out

    def _resolve(self, e: ast.Call, frame) -> Resolution:
        """resolve_call, plus calls of a parameter of an inlined callee
        that was bound to a function at the call site (a nested function of
        the caller, or a bound method such as self.client.ehlo)"""
        res = self.r.resolve_call(e, frame.ctx)
        if not res.targets and any(x.endswith('with_timeout')
                                   for x in res.externals) and \
                len(e.args) >= 2:
            # gevent.with_timeout(seconds, fn, *args): fn runs under the
            # timeout; follow fn
            kw = [k for k in e.keywords if k.arg != 'timeout_value']
            synth = ast.Call(func=e.args[1], args=list(e.args[2:]),
                             keywords=kw)
            ast.copy_location(synth, e)
            synth._via_with_timeout = e
            synth._orig = e
            try:
                r2 = self._resolve(synth, frame)
            except Exception:
                r2 = None
            if r2 is not None and r2.targets:
                r2 = self._copy_res(r2)
                r2.via = synth
                return r2
            return res
        if (res.targets or res.externals) and not res.unresolved:
            return res
        f = e.func
        if isinstance(f, ast.Name) and f.id not in frame.ctx.func.params:
            # a local alias of a bound method / function, assigned once:
            #   add = self._add_fragment ... add(x)
            from .model import walk_own
            fn = frame.ctx.func
            stores = [x for x in walk_own(fn.node) if isinstance(x, ast.Name)
                      and x.id == f.id and
                      isinstance(x.ctx, (ast.Store, ast.Del))]
            defs = [a for a in walk_own(fn.node)
                    if isinstance(a, ast.Assign) and len(a.targets) == 1 and
                    isinstance(a.targets[0], ast.Name) and
                    a.targets[0].id == f.id and
                    isinstance(a.value, ast.Attribute)]
            if len(stores) == 1 and len(defs) == 1:
                synth = ast.Call(func=defs[0].value, args=list(e.args),
                                 keywords=list(e.keywords))
                ast.copy_location(synth, e)
                synth._orig = e
                try:
                    r2 = self.r.resolve_call(synth, frame.ctx)
                except Exception:
                    return res
                if r2.targets or r2.externals:
                    r2 = self._copy_res(r2)
                    r2.via = synth
                    return r2
            return res
        if not (isinstance(f, ast.Name) and f.id in frame.bindings and
                f.id in frame.ctx.func.params):
            return res
        from .facts import _stores
        if _stores(frame.ctx.func)[0].get(f.id):
            return res                       # parameter re-bound
        arg, afr = frame.bindings[f.id]
        # chase parameters that were themselves passed through
        hops = 0
        while isinstance(arg, ast.Name) and arg.id in afr.bindings and \
                arg.id in afr.ctx.func.params and hops < 4:
            arg, afr = afr.bindings[arg.id]
            hops += 1
        if isinstance(arg, ast.Name):
            nf = afr.ctx.func.nested.get(arg.id)
            if nf is not None:
                out = Resolution()
                out.targets = [Target(nf, afr.ctx.self_cls,
                                      recv_is_self=True)]
                return out
            # a local of the caller bound once to partial(...) / a bound
            # method, over names that are bound once themselves:
            #   on_timeout = partial(self._fill, envelope, results)
            #   with self._time_limit(on_timeout): ...
            from .model import walk_own
            afn = afr.ctx.func

            def nstores(name):
                return sum(1 for x in walk_own(afn.node)
                           if isinstance(x, ast.Name) and x.id == name and
                           isinstance(x.ctx, (ast.Store, ast.Del)))
            defs = [a for a in walk_own(afn.node)
                    if isinstance(a, ast.Assign) and len(a.targets) == 1 and
                    isinstance(a.targets[0], ast.Name) and
                    a.targets[0].id == arg.id]
            if arg.id in afn.params or len(defs) != 1 or \
                    nstores(arg.id) != 1 or not isinstance(
                        defs[0].value, (ast.Call, ast.Attribute)):
                return res
            for x in ast.walk(defs[0].value):
                if isinstance(x, ast.Name) and isinstance(x.ctx, ast.Load) \
                        and nstores(x.id) > (0 if x.id in afn.params else 1):
                    return res
            if isinstance(defs[0].value, ast.Call) and not ast.unparse(
                    defs[0].value.func).endswith('partial'):
                return res
            arg = defs[0].value
        if isinstance(arg, ast.Call) and arg.args:
            # functools.partial(fn, a, b)(c)  ==  fn(a, b, c)
            synth = ast.Call(func=arg.args[0],
                             args=list(arg.args[1:]) + list(e.args),
                             keywords=list(arg.keywords) + list(e.keywords))
            ast.copy_location(synth, e)
            synth._orig = e
            try:
                r2 = self._resolve(synth, afr)
            except Exception:
                return res
            if r2.targets or r2.externals:
                r2 = self._copy_res(r2)
                r2.via = synth
                r2.via_frame = afr
                return r2
            return res
        if isinstance(arg, ast.Attribute):
            synth = ast.Call(func=arg, args=list(e.args),
                             keywords=list(e.keywords))
            ast.copy_location(synth, e)
            try:
                r2 = self.r.resolve_call(synth, afr.ctx)
            except Exception:
                return res
            if r2.targets or r2.externals:
                return r2
        return res

    def _inline(self, e: ast.Call, t: Target, frame, res, thread=False,
                arg_frame=None):
        af = arg_frame or frame
        same = frame.self_same and t.recv_is_self
        cctx = t.ctx()
        lits = []
        pl = list(t.func.params)
        if t.func.kind in ('method', 'classmethod', 'property', 'setter') \
                and pl and t.self_cls is not None:
            pl = pl[1:]
        for i, a in enumerate(e.args):
            if isinstance(a, ast.Starred):
                break
            if i < len(pl) and isinstance(a, ast.Constant) and \
                    isinstance(a.value, (str, bytes, int, bool, type(None))):
                lits.append((pl[i], a.value))
        for k in e.keywords:
            if k.arg in pl and isinstance(k.value, ast.Constant) and \
                    isinstance(k.value.value, (str, bytes, int, bool,
                                               type(None))):
                lits.append((k.arg, k.value.value))
        # parameters left to a literal default are known at this site too
        if not any(isinstance(a, ast.Starred) for a in e.args) and \
                not any(k.arg is None for k in e.keywords):
            fargs = t.func.node.args
            allp = list(t.func.params)
            dn = len(fargs.defaults)
            given = set(pl[:len(e.args)]) | {k.arg for k in e.keywords}
            for j, dflt in enumerate(fargs.defaults):
                pi = len(fargs.posonlyargs) + len(fargs.args) - dn + j
                if pi < len(allp) and allp[pi] in pl and \
                        allp[pi] not in given and \
                        isinstance(dflt, ast.Constant) and \
                        isinstance(dflt.value, (str, bytes, int, bool,
                                                type(None))):
                    lits.append((allp[pi], dflt.value))
        ptypes = []
        for i, a in enumerate(e.args):
            if isinstance(a, ast.Starred):
                break
            if i < len(pl) and isinstance(a, (ast.Name, ast.Attribute)):
                ts = self.r.infer(a, frame.ctx)
                ts = frozenset(x for x in ts if x[0] == 'inst')
                if ts:
                    ptypes.append((pl[i], ts))
        for k in e.keywords:
            if k.arg in pl and isinstance(k.value, (ast.Name,
                                                    ast.Attribute)):
                ts = frozenset(x for x in self.r.infer(k.value, frame.ctx)
                               if x[0] == 'inst')
                if ts:
                    ptypes.append((k.arg, ts))
        if lits or ptypes:
            cctx = Ctx(t.func, t.self_cls, frozenset(lits),
                       frozenset(ptypes))
        callee = Frame(cctx, frame, e, same)
        ce = self._emit('call_enter', e, frame)
        ce.extra['target'] = t
        ce.extra['callee_frame'] = callee
        ce.extra['res'] = res
        fscope = Scope('func', t.func.node, callee, returns=[], root=False,
                       call=e, thread=thread, ret_T=[], ret_F=[], ret_U=[],
                       null_obj=getattr(self, '_null_obj_next', None))
        self._null_obj_next = None
        self.stack.append(fscope)
        # parameter bindings
        f = t.func
        params = list(f.params)
        args = list(e.args)
        if f.kind in ('method', 'classmethod', 'property', 'setter') and \
                params and t.self_cls is not None:
            recv = e.func.value if isinstance(e.func, ast.Attribute) else None
            if res.ctor_of:
                recv = None
            b = self._emit('bind', None, callee)
            b.extra.update(param=params[0], arg=recv, arg_frame=af,
                           is_self=True)
            params = params[1:]
        # positional arguments with `*args` of the calling function expanded
        # to what it was given (a wrapper that forwards its star arguments)
        xargs, known = [], True
        cur_va = af.ctx.func.node.args.vararg
        for a in args:
            if isinstance(a, ast.Starred):
                if isinstance(a.value, ast.Name) and cur_va is not None and \
                        a.value.id == cur_va.arg and \
                        af.star_args is not None and not any(
                            isinstance(y, ast.Name) and y.id == cur_va.arg
                            and isinstance(y.ctx, ast.Store)
                            for y in ast.walk(af.ctx.func.node)):
                    xargs.extend(af.star_args)
                else:
                    known = False
                    break
            else:
                xargs.append((a, af))
        if known and f.node.args.vararg is not None:
            callee.star_args = xargs[len(params):]
        for i, pname in enumerate(params):
            arg = None
            this_af = af
            if i < len(args) and not any(isinstance(a0, ast.Starred)
                                         for a0 in args[:i + 1]):
                arg = args[i]
            elif known and i < len(xargs):
                arg, this_af = xargs[i]
            else:
                for k in e.keywords:
                    if k.arg == pname:
                        arg = k.value
            default = None
            if arg is None:
                # default value, if any
                dn = len(f.node.args.defaults)
                allp = f.params
                pi = allp.index(pname)
                di = pi - (len(allp) - dn)
                if 0 <= di < dn and not any(
                        isinstance(a, ast.Starred) for a in args) and \
                        not any(k.arg is None for k in e.keywords):
                    default = f.node.args.defaults[di]
            b = self._emit('bind', None, callee)
            b.extra.update(param=pname, arg=arg, arg_frame=this_af,
                           default=default, is_self=False)
            if arg is not None:
                callee.arg_exprs[pname] = (arg, this_af)
            if arg is not None and (isinstance(arg, (ast.Name,
                                                     ast.Attribute)) or (
                    isinstance(arg, ast.Call) and
                    ast.unparse(arg.func).endswith('partial') and arg.args)):
                callee.bindings[pname] = (arg, this_af)
        self._body(f.node.body, callee)
        if thread == 'raise':
            self.stack.pop()
            self.dangling = []
            return []
        if thread:
            # falling off the end returns None
            fscope.data['ret_F'].extend(self.dangling)
            self.stack.pop()
            outs = []
            for cls in (('T', 'F', 'U') if thread == 'null' else ('T', 'F')):
                edges = fscope.data['ret_' + cls]
                if not edges:
                    outs.append([])
                    continue
                cr = self._new('call_return', e, frame)
                cr.extra['target'] = t
                cr.extra['callee_frame'] = callee
                if thread == 'null':
                    # None / object / unknown: says nothing about truthiness
                    cr.extra['null_ret'] = cls
                else:
                    cr.extra['ret_class'] = cls
                for a, l in edges:
                    self._edge(a, l, cr)
                outs.append([(cr, 'next')])
            self.dangling = []
            if thread == 'null':
                return outs[0], outs[1], outs[2]
            return outs[0], outs[1]
        rets = self.dangling + fscope.data['returns']
        self.stack.pop()
        cr = self._new('call_return', e, frame)
        cr.extra['target'] = t
        cr.extra['callee_frame'] = callee
        for a, l in rets:
            self._edge(a, l, cr)
        if not rets:
            return []
        return [(cr, 'next')]


def _swallows_timeout(e) -> bool:
    """`Timeout(x, False)` swallows its own expiry at the end of the with."""
    if isinstance(e, ast.Call) and len(e.args) >= 2 and \
            isinstance(e.args[1], ast.Constant) and e.args[1].value is False:
        name = ast.unparse(e.func)
        return name.endswith('Timeout')
    return False
