"""Light-weight type inference and call resolution over the Program model.

Types are small tuples:
  ('inst', class_qname, exact)   instance of a repo or external class
  ('cls', class_qname)           a class object
  ('func', FuncInfo)             a plain function / staticmethod
  ('bound', FuncInfo, self_cls)  a method bound to a receiver of class self_cls
  ('mod', qname)                 a module
  ('super', after_cls, self_cls) result of super(K, self)
  ('ext', qname)                 external object / callable
"""
from __future__ import annotations

import ast
from typing import Dict, FrozenSet, List, Optional, Set, Tuple

from .model import Program, FuncInfo, ClassInfo, Module, walk_own
from . import tables


class Ctx:
    """Analysis context: a function analysed for a concrete receiver class."""
    __slots__ = ('func', 'self_cls', 'consts', 'ptypes')

    def __init__(self, func: FuncInfo, self_cls: Optional[str] = None,
                 consts: FrozenSet = frozenset(),
                 ptypes: FrozenSet = frozenset()):
        self.func = func
        if self_cls is None and func.cls is not None:
            self_cls = func.cls.qname
        self.self_cls = self_cls
        self.consts = consts      # {(param, literal value)} known at a site
        self.ptypes = ptypes      # {(param, frozenset(types))} from a site

    def key(self):
        return (self.func.qname, self.self_cls, self.consts, self.ptypes)

    def ptype_of(self, name: str):
        for k, v in self.ptypes:
            if k == name:
                return v
        return None

    def const_of(self, name: str):
        for k, v in self.consts:
            if k == name:
                return True, v
        return False, None

    def __repr__(self):
        return '<Ctx %s self=%s>' % (self.func.qname, self.self_cls)


class Target:
    __slots__ = ('func', 'self_cls', 'recv_is_self', 'deferred', 'fallback',
                 'consts')

    def __init__(self, func, self_cls, recv_is_self=False, deferred=False,
                 fallback=False, consts=frozenset()):
        self.func = func
        self.self_cls = self_cls
        self.recv_is_self = recv_is_self
        self.deferred = deferred
        self.fallback = fallback
        self.consts = consts

    def ctx(self) -> Ctx:
        return Ctx(self.func, self.self_cls, self.consts)

    def __repr__(self):
        return '<Target %s self=%s%s>' % (
            self.func.qname, self.self_cls, ' deferred' if self.deferred
            else '')


class Resolution:
    __slots__ = ('targets', 'externals', 'unresolved', 'fallback', 'ctor_of',
                 'via', 'via_frame')

    def __init__(self):
        self.targets: List[Target] = []
        self.externals: List[str] = []
        self.unresolved = False
        self.fallback = False
        self.ctor_of: List[str] = []   # class qnames instantiated
        self.via = None                # synthetic call to inline instead
        self.via_frame = None

    def names(self):
        return [t.func.qname for t in self.targets] + self.externals


class Resolver:
    def __init__(self, prog: Program):
        self.p = prog
        self._ret_memo: Dict[Tuple[str, Optional[str]], FrozenSet] = {}
        self._ret_stack: Set = set()
        self._attr_memo: Dict[Tuple[str, str], FrozenSet] = {}
        self._attr_stack: Set = set()
        self._local_memo: Dict[Tuple[str, Optional[str], str], FrozenSet] = {}
        self._local_stack: Set = set()
        self._call_memo: Dict[Tuple[int, str, Optional[str]], Resolution] = {}
        self.stats = {'seen': 0, 'resolved': 0, 'external': 0, 'fallback': 0,
                      'unresolved': 0}
        self.unresolved_sites: List[str] = []

    # ------------------------------------------------------------ inference
    def infer(self, e: ast.expr, ctx: Ctx) -> FrozenSet:
        try:
            return frozenset(self._infer(e, ctx))
        except RecursionError:
            return frozenset()

    def _infer(self, e, ctx: Ctx) -> Set:
        p = self.p
        f = ctx.func
        if isinstance(e, ast.Name):
            return self._infer_name(e.id, ctx)
        if isinstance(e, ast.Attribute):
            out = set()
            for t in self._infer(e.value, ctx):
                out |= self._attr_of(t, e.attr, ctx)
            return out
        if isinstance(e, ast.Call):
            return self._infer_call(e, ctx)
        if isinstance(e, ast.BoolOp):
            out = set()
            for v in e.values:
                out |= self._infer(v, ctx)
            return out
        if isinstance(e, ast.IfExp):
            return self._infer(e.body, ctx) | self._infer(e.orelse, ctx)
        if isinstance(e, ast.NamedExpr):
            return self._infer(e.value, ctx)
        if isinstance(e, ast.Await):
            return self._infer(e.value, ctx)
        if isinstance(e, (ast.List, ast.ListComp)):
            return {('inst', 'builtins.list', True)}
        if isinstance(e, (ast.Dict, ast.DictComp)):
            return {('inst', 'builtins.dict', True)}
        if isinstance(e, (ast.Set, ast.SetComp)):
            return {('inst', 'builtins.set', True)}
        if isinstance(e, ast.Tuple):
            return {('inst', 'builtins.tuple', True)}
        if isinstance(e, ast.JoinedStr):
            return {('inst', 'builtins.str', True)}
        if isinstance(e, ast.Constant):
            if isinstance(e.value, str):
                return {('inst', 'builtins.str', True)}
            if isinstance(e.value, bytes):
                return {('inst', 'builtins.bytes', True)}
            return set()
        return set()

    def _infer_name(self, name: str, ctx: Ctx) -> Set:
        f = ctx.func
        # self / cls
        g = f
        while g is not None:
            if g.kind in ('method', 'property', 'setter') and g.params and \
                    g.params[0] == name and ctx.self_cls:
                return {('inst', ctx.self_cls, True)}
            if g.kind == 'classmethod' and g.params and \
                    g.params[0] == name and ctx.self_cls:
                return {('cls', ctx.self_cls)}
            g = g.parent
        # locals (this function, then enclosing functions for closures)
        g = f
        while g is not None:
            ts = self._local_types(g, ctx.self_cls, name)
            if ts is not None:
                if g is f and name in f.params:
                    pt = ctx.ptype_of(name)
                    if pt and not any(t[0] in ('inst', 'cls', 'bound',
                                               'func') for t in ts):
                        return set(pt)
                return set(ts)
            g = g.parent
        # module level
        m = f.module
        return self._module_name(m, name)

    def _module_name(self, m: Module, name: str) -> Set:
        p = self.p
        if name in m.classes:
            return {('cls', m.classes[name].qname)}
        if name in m.functions:
            return {('func', m.functions[name])}
        if name in m.imports:
            return self._qname_type(p.resolve_qname(m.imports[name]))
        if name in m.globals:
            key = (m.name, None, name)
            if key in self._local_stack:
                return set()
            self._local_stack.add(key)
            try:
                fake = self._module_ctx(m)
                return set(self._infer(m.globals[name], fake))
            finally:
                self._local_stack.discard(key)
        if name in ('dict', 'list', 'set', 'tuple', 'str', 'bytes',
                    'bytearray', 'int', 'float', 'object', 'frozenset',
                    'memoryview', 'bool'):
            return {('cls', 'builtins.' + name)}
        q = p.resolve_name(m, name)
        if q:
            return {('ext', q)}
        return set()

    _mod_ctx_cache: Dict[str, Ctx] = {}

    def _module_ctx(self, m: Module) -> Ctx:
        c = self._mod_ctx_cache.get(m.path)
        if c is None:
            node = ast.FunctionDef(name='<module>', args=ast.arguments(
                posonlyargs=[], args=[], kwonlyargs=[], kw_defaults=[],
                defaults=[], vararg=None, kwarg=None), body=[],
                decorator_list=[], returns=None, lineno=0, col_offset=0)
            fi = FuncInfo('<module>', m.name + '.<module>', node, m, None,
                          None)
            c = Ctx(fi, None)
            self._mod_ctx_cache[m.path] = c
        return c

    def _qname_type(self, q: str) -> Set:
        p = self.p
        if q in p.classes:
            return {('cls', q)}
        if q in p.functions:
            return {('func', p.functions[q])}
        if q in p.modules:
            return {('mod', q)}
        # attribute of a repo module (global object)?
        mod, _, name = q.rpartition('.')
        if mod in p.modules:
            return self._module_name(p.modules[mod], name)
        return {('ext', q)}

    def _local_types(self, f: FuncInfo, self_cls, name: str):
        """Flow-insensitive types of a local name, None if not a local."""
        key = (f.qname, self_cls, name)
        if key in self._local_memo:
            return self._local_memo[key]
        if key in self._local_stack:
            return frozenset()
        is_param = name in f.params or name in f.kwonly or \
            name == f.vararg or name == f.kwarg
        sources = []
        found = is_param
        for n in walk_own(f.node):
            if isinstance(n, ast.Assign):
                for t in n.targets:
                    if isinstance(t, ast.Name) and t.id == name:
                        sources.append(('expr', n.value))
                        found = True
                    elif isinstance(t, (ast.Tuple, ast.List)):
                        for el in t.elts:
                            if isinstance(el, ast.Name) and el.id == name:
                                found = True
            elif isinstance(n, ast.AnnAssign) and \
                    isinstance(n.target, ast.Name) and n.target.id == name:
                found = True
                if n.value is not None:
                    sources.append(('expr', n.value))
            elif isinstance(n, ast.AugAssign) and \
                    isinstance(n.target, ast.Name) and n.target.id == name:
                found = True
            elif isinstance(n, (ast.For, ast.comprehension)):
                for el in ast.walk(n.target):
                    if isinstance(el, ast.Name) and el.id == name:
                        found = True
            elif isinstance(n, ast.With):
                for it in n.items:
                    if it.optional_vars is not None:
                        for el in ast.walk(it.optional_vars):
                            if isinstance(el, ast.Name) and el.id == name:
                                found = True
                                if isinstance(it.optional_vars, ast.Name):
                                    sources.append(('expr', it.context_expr))
            elif isinstance(n, ast.ExceptHandler) and n.name == name:
                found = True
                if n.type is not None:
                    sources.append(('exc', n.type))
            elif isinstance(n, ast.NamedExpr) and \
                    isinstance(n.target, ast.Name) and n.target.id == name:
                found = True
                sources.append(('expr', n.value))
        if name in f.nested:
            self._local_memo[key] = frozenset({('func', f.nested[name])})
            return self._local_memo[key]
        if not found:
            return None
        self._local_stack.add(key)
        try:
            ctx = Ctx(f, self_cls)
            out = set()
            for kind, e in sources:
                if kind == 'expr':
                    out |= self._infer(e, ctx)
                else:
                    for q in self.exc_type_names(e, ctx):
                        out.add(('inst', q, False))
            if not any(t[0] in ('inst', 'cls', 'func', 'bound') and
                       not t[1].startswith('builtins.') if t[0] != 'func'
                       and t[0] != 'bound' else True for t in out):
                seeds = tables.SEED_PARAM_OVERRIDES.get((f.qname, name)) or \
                    tables.SEED_PARAM_TYPES.get(name)
                if seeds:
                    for s in seeds:
                        out.add(('inst', s, False))
        finally:
            self._local_stack.discard(key)
        res = frozenset(out)
        self._local_memo[key] = res
        return res

    def exc_type_names(self, type_expr, ctx: Ctx) -> List[str]:
        """Qualified class names of an ``except <type_expr>`` clause."""
        if type_expr is None:
            return ['builtins.BaseException']
        if isinstance(type_expr, ast.Tuple):
            out = []
            for el in type_expr.elts:
                out.extend(self.exc_type_names(el, ctx))
            return out
        q = self.p.resolve_expr_qname(ctx.func.module, type_expr)
        if q is None:
            return ['unknown.' + ast.unparse(type_expr)]
        from .model import EXC_ALIASES
        return [EXC_ALIASES.get(q, q)]

    def _attr_of(self, t, attr: str, ctx: Ctx) -> Set:
        p = self.p
        kind = t[0]
        if kind == 'inst':
            return self._inst_attr(t[1], attr, t[2])
        if kind == 'cls':
            cq = t[1]
            m = p.lookup_method(cq, attr)
            if m is not None:
                if m.kind == 'staticmethod':
                    return {('func', m)}
                if m.kind == 'classmethod':
                    return {('bound', m, cq)}
                return {('func', m)}
            c, val = p.lookup_class_attr(cq, attr)
            if val is not None:
                return set(self._infer(val, self._module_ctx(c.module)))
            if cq not in p.classes:
                return {('ext', cq + '.' + attr)}
            return set()
        if kind == 'mod':
            return self._qname_type(p.resolve_qname(t[1] + '.' + attr))
        if kind == 'super':
            after, self_cls = t[1], t[2]
            m = p.lookup_method(self_cls, attr, after=after)
            if m is not None:
                return {('bound', m, self_cls)}
            return {('ext', 'super.' + attr)}
        if kind == 'ext':
            return {('ext', t[1] + '.' + attr)}
        return set()

    def _inst_attr(self, cq: str, attr: str, exact: bool) -> Set:
        p = self.p
        key = (cq, attr)
        if key in self._attr_memo:
            return set(self._attr_memo[key])
        if key in self._attr_stack:
            return set()
        if cq not in p.classes:
            return {('ext', cq + '.' + attr)}
        self._attr_stack.add(key)
        out: Set = set()
        try:
            m = p.lookup_method(cq, attr)
            if m is not None:
                if m.kind == 'property':
                    out |= set(self.return_types(Ctx(m, cq)))
                elif m.kind == 'staticmethod':
                    out.add(('func', m))
                else:
                    out.add(('bound', m, cq))
            else:
                # seeded duck-typed collaborators
                for k in p.mro(cq):
                    seeds = tables.SEED_ATTR_TYPES.get((k, attr))
                    if seeds:
                        for s in seeds:
                            if s.startswith('method:'):
                                _, fq, sc = s.split(':')
                                if fq in p.functions:
                                    out.add(('bound', p.functions[fq], sc))
                            else:
                                out.add(('inst', s, False))
                        break
                # instance attributes: self.attr = <expr> anywhere in the MRO
                if not out:
                    for k in p.mro(cq):
                        c = p.classes.get(k)
                        if c is None:
                            continue
                        for meth in list(c.methods.values()) + \
                                list(c.setters.values()):
                            sn = meth.self_name
                            if not sn or meth.kind in ('classmethod',
                                                       'staticmethod'):
                                continue
                            for n in walk_own(meth.node):
                                if isinstance(n, ast.Assign):
                                    for tg in n.targets:
                                        if self._is_self_attr(tg, sn, attr):
                                            out |= self._infer(
                                                n.value, Ctx(meth, cq))
                                elif isinstance(n, ast.AnnAssign) and \
                                        n.value is not None and \
                                        self._is_self_attr(n.target, sn,
                                                           attr):
                                    out |= self._infer(n.value,
                                                       Ctx(meth, cq))
                    c, val = p.lookup_class_attr(cq, attr)
                    if val is not None:
                        out |= self._infer(val, self._module_ctx(c.module))
                if not out:
                    for k in p.mro(cq):
                        if k not in p.classes and k != 'builtins.object':
                            out.add(('ext', k + '.' + attr))
                            break
        finally:
            self._attr_stack.discard(key)
        self._attr_memo[key] = frozenset(out)
        return out

    @staticmethod
    def _is_self_attr(t, self_name, attr):
        return isinstance(t, ast.Attribute) and t.attr == attr and \
            isinstance(t.value, ast.Name) and t.value.id == self_name

    def _infer_call(self, e: ast.Call, ctx: Ctx) -> Set:
        p = self.p
        fn = e.func
        # super(K, self) / super()
        if isinstance(fn, ast.Name) and fn.id == 'super':
            if e.args:
                after = p.resolve_expr_qname(ctx.func.module, e.args[0])
            else:
                after = ctx.func.cls.qname if ctx.func.cls else None
            if after and ctx.self_cls:
                return {('super', after, ctx.self_cls)}
            return set()
        # getattr(obj, <name>) with a statically known name or name prefix
        if isinstance(fn, ast.Name) and fn.id == 'getattr' and \
                len(e.args) >= 2:
            return self._infer_getattr(e, ctx)
        # extensions.getparam('AUTH')
        if isinstance(fn, ast.Attribute) and fn.attr == 'getparam' and \
                e.args and isinstance(e.args[0], ast.Constant) and \
                e.args[0].value in tables.GETPARAM_TYPES:
            return {('inst', s, False)
                    for s in tables.GETPARAM_TYPES[e.args[0].value]}
        out: Set = set()
        for t in self._infer(fn, ctx):
            k = t[0]
            if k == 'cls':
                out.add(('inst', t[1], True))
            elif k == 'func':
                out |= set(self.return_types(Ctx(t[1], None)))
            elif k == 'bound':
                out |= set(self.return_types(Ctx(t[1], t[2])))
            elif k == 'ext':
                q = t[1]
                if q in tables.EXTERNAL_FACTORIES:
                    out.add(('inst', tables.EXTERNAL_FACTORIES[q], True))
                else:
                    last = q.rpartition('.')[2]
                    if last[:1].isupper():
                        out.add(('inst', q, True))
                    else:
                        out.add(('ext', q + '()'))
        return out

    def _static_name(self, e, ctx: Ctx):
        """('exact', s) | ('prefix', s) | None for a string-valued expr."""
        if isinstance(e, ast.Constant) and isinstance(e.value, str):
            return ('exact', e.value)
        if isinstance(e, ast.Name):
            ok, v = ctx.const_of(e.id)
            if ok and isinstance(v, str):
                return ('exact', v)
            # single local assignment  name = 'prefix' + something
            vals = [n.value for n in walk_own(ctx.func.node)
                    if isinstance(n, ast.Assign) and len(n.targets) == 1 and
                    isinstance(n.targets[0], ast.Name) and
                    n.targets[0].id == e.id]
            if len(vals) == 1:
                return self._static_name(vals[0], ctx)
            return None
        if isinstance(e, ast.BinOp) and isinstance(e.op, ast.Add):
            l = self._static_name(e.left, ctx)
            if l and l[0] == 'exact':
                r = self._static_name(e.right, ctx)
                if r and r[0] == 'exact':
                    return ('exact', l[1] + r[1])
                return ('prefix', l[1])
        return None

    def _infer_getattr(self, e: ast.Call, ctx: Ctx) -> Set:
        sn = self._static_name(e.args[1], ctx)
        if sn is None:
            return set()
        out: Set = set()
        for t in self._infer(e.args[0], ctx):
            if t[0] != 'inst' or t[1] not in self.p.classes:
                continue
            classes = [t[1]] + ([] if t[2] else self.p.subclasses(t[1]))
            for cq in classes:
                if sn[0] == 'exact':
                    out |= self._inst_attr(cq, sn[1], True)
                else:
                    seen = set()
                    for k in self.p.mro(cq):
                        c = self.p.classes.get(k)
                        if c is None:
                            continue
                        for name, m in c.methods.items():
                            if name.startswith(sn[1]) and name not in seen:
                                seen.add(name)
                                out.add(('bound', m, cq))
        return out

    def return_types(self, ctx: Ctx) -> FrozenSet:
        key = ctx.key()
        if key in self._ret_memo:
            return self._ret_memo[key]
        if key in self._ret_stack:
            return frozenset()
        self._ret_stack.add(key)
        out: Set = set()
        try:
            for n in walk_own(ctx.func.node):
                if isinstance(n, ast.Return) and n.value is not None:
                    out |= self._infer(n.value, ctx)
        finally:
            self._ret_stack.discard(key)
        res = frozenset(out)
        self._ret_memo[key] = res
        return res

    # ------------------------------------------------------ call resolution
    def resolve_call(self, call: ast.Call, ctx: Ctx) -> Resolution:
        key = (id(call),) + ctx.key()
        r = self._call_memo.get(key)
        if r is not None:
            return r
        r = self._resolve_call(call, ctx)
        self._call_memo[key] = r
        self.stats['seen'] += 1
        if r.unresolved:
            self.stats['unresolved'] += 1
            self.unresolved_sites.append(
                '%s %s' % (ctx.func.loc(call), ast.unparse(call.func)))
        elif r.fallback:
            self.stats['fallback'] += 1
        elif r.targets:
            self.stats['resolved'] += 1
        else:
            self.stats['external'] += 1
        return r

    def _resolve_call(self, call: ast.Call, ctx: Ctx) -> Resolution:
        p = self.p
        r = Resolution()
        fn = call.func
        types = self._infer(fn, ctx)
        recv_is_self = False
        if isinstance(fn, ast.Attribute) and isinstance(fn.value, ast.Name) \
                and fn.value.id == ctx.func.self_name:
            recv_is_self = True
        if isinstance(fn, ast.Attribute) and \
                isinstance(fn.value, ast.Call) and \
                isinstance(fn.value.func, ast.Name) and \
                fn.value.func.id == 'super':
            recv_is_self = True
        if isinstance(fn, ast.Call) and isinstance(fn.func, ast.Name) and \
                fn.func.id == 'getattr' and fn.args and \
                isinstance(fn.args[0], ast.Name) and \
                fn.args[0].id == ctx.func.self_name:
            recv_is_self = True
        if isinstance(fn, ast.Name) and fn.id not in ctx.func.params:
            # a local assigned once from `self.<method>` (a bound method put
            # in a local): the receiver is still self
            from .model import walk_own
            stores = [x for x in walk_own(ctx.func.node)
                      if isinstance(x, ast.Name) and x.id == fn.id and
                      isinstance(x.ctx, (ast.Store, ast.Del))]
            defs = [a for a in walk_own(ctx.func.node)
                    if isinstance(a, ast.Assign) and len(a.targets) == 1 and
                    isinstance(a.targets[0], ast.Name) and
                    a.targets[0].id == fn.id]
            # (or once per branch: `f = self.a` ... else: `f = self.b`)
            def self_attr(v):
                # self.a, or `self.a if cond else self.b`
                if isinstance(v, ast.IfExp):
                    return self_attr(v.body) and self_attr(v.orelse)
                return isinstance(v, ast.Attribute) and \
                    isinstance(v.value, ast.Name) and \
                    v.value.id == ctx.func.self_name
            if stores and len(stores) == len(defs) and all(
                    self_attr(d.value) for d in defs):
                recv_is_self = True
        for t in types:
            k = t[0]
            if k == 'func':
                r.targets.append(Target(t[1], None))
            elif k == 'bound':
                fi, self_cls = t[1], t[2]
                r.targets.append(Target(fi, self_cls, recv_is_self))
            elif k == 'cls':
                cq = t[1]
                r.ctor_of.append(cq)
                init = p.lookup_method(cq, '__init__')
                if init is not None:
                    r.targets.append(Target(init, cq))
                else:
                    r.externals.append(cq)
            elif k == 'inst':
                # calling an instance: __call__
                m = p.lookup_method(t[1], '__call__')
                if m is not None:
                    r.targets.append(Target(m, t[1]))
                else:
                    r.externals.append(t[1] + '.__call__')
            elif k == 'ext':
                r.externals.append(t[1])
            elif k == 'super':
                r.externals.append('super')
        # virtual dispatch: non-exact receivers also reach subclass overrides
        if isinstance(fn, ast.Attribute):
            for rt in self._infer(fn.value, ctx):
                if rt[0] == 'inst' and not rt[2] and rt[1] in p.classes:
                    have = {(x.func.qname, x.self_cls) for x in r.targets}
                    for sub in p.subclasses(rt[1]):
                        m = p.lookup_method(sub, fn.attr)
                        if m is not None and m.kind not in ('property',):
                            if (m.qname, sub) not in have:
                                r.targets.append(Target(m, sub))
                                have.add((m.qname, sub))
        # drop abstract placeholders when a concrete override is present
        if len(r.targets) > 1:
            conc = [t for t in r.targets if not _is_abstract(t.func)]
            if conc:
                r.targets = conc
        if not r.targets and not r.externals:
            # No by-name fallback: an attribute call on a receiver of unknown
            # type is kept as an external '?.name' (see DESIGN 2.2: wrong
            # edges are worse than missing ones for the must-rules).
            if isinstance(fn, ast.Attribute):
                r.externals.append('?.' + fn.attr)
            else:
                r.unresolved = True
        return r

    def func_ref_args(self, call: ast.Call, ctx: Ctx) -> List[Target]:
        """Function references passed as arguments (spawn wrappers, link,
        partial, map(pool.spawn, repeat(f)...)): deferred call targets."""
        out = []
        args = list(call.args) + [k.value for k in call.keywords]
        for a in args:
            if isinstance(a, ast.Call) and isinstance(a.func, ast.Name) and \
                    a.func.id in ('repeat', 'partial') and a.args:
                a = a.args[0]
            if not isinstance(a, (ast.Name, ast.Attribute)):
                continue
            for t in self._infer(a, ctx):
                if t[0] == 'func':
                    out.append(Target(t[1], None, deferred=True))
                elif t[0] == 'bound':
                    ris = isinstance(a, ast.Attribute) and \
                        isinstance(a.value, ast.Name) and \
                        a.value.id == ctx.func.self_name
                    out.append(Target(t[1], t[2], ris, deferred=True))
                    # virtual dispatch on non-exact receivers
                    if isinstance(a, ast.Attribute):
                        for rt in self._infer(a.value, ctx):
                            if rt[0] == 'inst' and not rt[2] and \
                                    rt[1] in self.p.classes:
                                for sub in self.p.subclasses(rt[1]):
                                    m = self.p.lookup_method(sub, a.attr)
                                    if m is not None and \
                                            m.qname != t[1].qname:
                                        out.append(Target(m, sub,
                                                          deferred=True))
        if len(out) > 1:
            conc = [t for t in out if not _is_abstract(t.func)]
            if conc:
                seen = set()
                out = []
                for t in conc:
                    k = (t.func.qname, t.self_cls)
                    if k not in seen:
                        seen.add(k)
                        out.append(t)
        return out


def _is_abstract(f: FuncInfo) -> bool:
    body = [s for s in f.node.body
            if not (isinstance(s, ast.Expr) and
                    isinstance(s.value, ast.Constant))]
    if len(body) == 1 and isinstance(body[0], ast.Raise):
        exc = body[0].exc
        txt = ast.unparse(exc) if exc is not None else ''
        return txt.startswith('NotImplementedError')
    return False


def is_abstract(f: FuncInfo) -> bool:
    return _is_abstract(f)
