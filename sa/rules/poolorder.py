"""Pool-order analysis of slimta.queue.Queue (shared by C12 Q9 and C01 R1.11).

gevent's Pool.spawn waits for a free slot when the pool is bounded.  A
greenlet that itself occupies a slot of pool P and then asks for a slot of
pool Q therefore holds P while waiting for Q - exactly a lock-order edge
P -> Q.  A cycle in that graph (a self-loop included) is a configuration in
which every slot holder waits for a slot that only another waiting holder can
free: the messages they work on stay stored, marked in flight, in no
timetable, for ever.

The graph is read off the source on every run:
  pools        names X for which Queue.__init__ does self._use_pool('X_pool',
               ...)  (a `which` without such a pool falls back to the
               unbounded gevent.spawn and holds nothing)
  holders      every  self._pool_spawn / _pool_run / _pool_imap(W, f, ...)
               with W a pool: f runs holding a slot of W
  acquisitions inside f, followed through calls on the same receiver and
               through bounce_queue.enqueue (by default the same queue),
               every _pool_spawn/_pool_run/_pool_imap(W2, ...)
An obligation is produced for every edge that lies on a cycle, keyed by the
holder function, the two pools and the call chain to the acquiring site.
"""
from __future__ import annotations

import ast
from typing import Dict, List, Set, Tuple

from ..engine import Engine
from ..report import Report
from ..resolve import Ctx
from ..model import walk_own
from . import common

QUEUE = 'slimta.queue.Queue'
ACQ = ('_pool_spawn', '_pool_run', '_pool_imap')


def pool_names(e: Engine) -> Set[str]:
    init = common.merged_class(e, QUEUE).methods.get('__init__')
    out = set()
    if init is None:
        return out
    for n in walk_own(init.node):
        if isinstance(n, ast.Call) and ast.unparse(n.func).endswith(
                '_use_pool') and n.args and \
                isinstance(n.args[0], ast.Constant) and \
                str(n.args[0].value).endswith('_pool'):
            out.add(str(n.args[0].value)[:-5])
    return out


def _which(call: ast.Call):
    if call.args and isinstance(call.args[0], ast.Constant) and \
            isinstance(call.args[0].value, str):
        return call.args[0].value
    return None


def _acq_name(call: ast.Call):
    f = call.func
    if isinstance(f, ast.Attribute) and f.attr in ACQ and \
            isinstance(f.value, ast.Name) and f.value.id == 'self':
        return f.attr
    return None


def holders(e: Engine, pools: Set[str]):
    """[(pool, method name, spawning method, call ast)]"""
    out = []
    c = common.merged_class(e, QUEUE)
    for mname, m in sorted(c.methods.items()):
        for n in walk_own(m.node):
            if not (isinstance(n, ast.Call) and _acq_name(n)):
                continue
            w = _which(n)
            if w not in pools or len(n.args) < 2:
                continue
            f = n.args[1]
            if isinstance(f, ast.Attribute) and isinstance(
                    f.value, ast.Name) and f.value.id == 'self' and \
                    f.attr in c.methods:
                out.append((w, f.attr, m, n))
    return out


def acquisitions(e: Engine, mname: str, pools: Set[str]):
    """Pool slots requested, synchronously, while `mname` runs:
    [(pool, call chain, call ast, function)].  The holder is expanded
    through calls on the same receiver and through bounce_queue.<method>
    (by default the bounce queue is this very queue); branches that the
    literal arguments of the expansion contradict (`if id is not None` under
    _perm_fail(None, ...)) are pruned."""
    ctx = e.method_ctx(QUEUE, mname)

    def extra(builder, call, target, frame):
        f = call.func
        return isinstance(f, ast.Attribute) and \
            ast.unparse(f.value) == 'self.bounce_queue' and \
            target.func.cls is not None and target.func.cls.qname == QUEUE
    g = e.build(ctx, inline=e.inline_same_self(extra=extra, deny=ACQ),
                max_depth=8)
    fx = e.facts(g)
    from .. import dataflow
    live = dataflow.reachable(
        g, g.entry, lambda a, l, s2: not fx.infeasible(a, l))
    out = []
    for n in g.nodes:
        if n.kind != 'call' or not _acq_name(n.ast):
            continue
        w = _which(n.ast)
        if w not in pools or n.id not in live:
            continue
        chain = tuple(fr.ctx.func.name for fr in n.frame.chain())
        out.append((w, chain, n.ast, n.frame.ctx.func))
    return out


def spawn_defers(e: Engine, rep: Report, rule: str, pools: Set[str]):
    """Does _pool_spawn avoid waiting when its caller occupies a slot?  True
    when every direct (waiting) pool.spawn in it is reached only under `pool
    is gevent` (nothing to wait for) or `not self.<holder test>()`, and the
    holder test looks the running greenlet up in every bounded pool."""
    from . import common
    from ..facts import canon
    ctx = e.method_ctx(QUEUE, '_pool_spawn')
    g = e.build(ctx, raises=lambda b, n, r: set())
    waits = [n for n in g.nodes if n.kind == 'call' and
             e.call_name(n) == 'spawn' and
             isinstance(n.ast.func.value, ast.Name) and
             not n.extra.get('partial')]
    waits = [n for n in waits if n.ast.func.value.id != 'gevent']
    if not waits:
        rep.error('anchor vanished: pool.spawn in Queue._pool_spawn')
        return False
    # tests of _pool_spawn that ask "does the running greenlet occupy a
    # slot?": a call of a method of this class that looks getcurrent() up in
    # every bounded pool, or an inline test mentioning getcurrent()
    from ..facts import atoms_of_test
    holder_atoms = set()
    holder_ok = False
    for n in g.of_kind('test'):
        for lab in (True, False):
            for pol, k in atoms_of_test(n.ast, lab, n.frame):
                if 'getcurrent' in k:
                    # an inline test counts when it looks the greenlet up
                    # in every bounded pool (the pool being spawned into
                    # alone leaves the wait for the OTHER pool's slot)
                    src0 = ast.unparse(n.ast)
                    fsrc = ast.unparse(n.frame.ctx.func.node)
                    if all(('%s_pool' % p) in src0 for p in pools) or (
                            len(pools) > 1 and
                            all(('%s_pool' % p) in fsrc for p in pools) and
                            ' for ' in src0):
                        holder_atoms.add(k)
                        holder_ok = holder_ok or 'inline getcurrent() test'
        for c in ast.walk(n.ast):
            if isinstance(c, ast.Call) and isinstance(c.func, ast.Attribute) \
                    and isinstance(c.func.value, ast.Name) and \
                    c.func.value.id == 'self':
                m = common.merged_class(e, QUEUE).methods.get(c.func.attr)
                if m is None:
                    continue
                src = ast.unparse(m.node)
                consts = {x.value for x in ast.walk(m.node)
                          if isinstance(x, ast.Constant) and
                          isinstance(x.value, str)}
                # ... or named in a class-level table the method reads
                mc = common.merged_class(e, QUEUE)
                for x in ast.walk(m.node):
                    if isinstance(x, ast.Attribute) and \
                            isinstance(x.value, ast.Name) and \
                            x.value.id in ('self', 'cls'):
                        for st in getattr(mc, 'node', None).body if \
                                getattr(mc, 'node', None) is not None else []:
                            if isinstance(st, ast.Assign) and any(
                                    isinstance(t, ast.Name) and
                                    t.id == x.attr for t in st.targets):
                                consts |= {
                                    y.value for y in ast.walk(st.value)
                                    if isinstance(y, ast.Constant) and
                                    isinstance(y.value, str)}
                if 'getcurrent' in src and all(
                        p + '_pool' in consts for p in pools):
                    holder_atoms.add('self.%s()' % c.func.attr)
                    holder_ok = c.func.attr
    if not holder_ok:
        return False
    for n in waits:
        pv = canon(n.ast.func.value, n.frame)
        alts = [(True, '%s is gevent' % pv)] + [
            (False, k) for k in sorted(holder_atoms)]
        if common.unguarded_path(e, g, n, alts) is not None:
            return False
    return holder_ok


LOCK = 'queued_lock'


def _lock_acquire(n) -> bool:
    """CFG node that takes the timetable lock and may wait for it"""
    if n.kind == 'with_enter':
        ce = getattr(n.ast, 'context_expr', None)
        return ce is not None and ast.unparse(ce) == 'self.' + LOCK
    if n.kind == 'call' and isinstance(n.ast.func, ast.Attribute) and \
            n.ast.func.attr == 'acquire' and \
            ast.unparse(n.ast.func.value) == 'self.' + LOCK:
        a = n.ast.args
        nonblocking = (a and isinstance(a[0], ast.Constant) and
                       a[0].value is False) or any(
            k.arg == 'blocking' and isinstance(k.value, ast.Constant) and
            k.value.value is False for k in n.ast.keywords)
        return not nonblocking
    return False


def _lock_release(n) -> bool:
    if n.kind == 'with_exit':
        ce = getattr(n.ast, 'context_expr', None)
        return ce is not None and ast.unparse(ce) == 'self.' + LOCK
    return n.kind == 'call' and isinstance(n.ast.func, ast.Attribute) and \
        n.ast.func.attr == 'release' and \
        ast.unparse(n.ast.func.value) == 'self.' + LOCK


def lock_edges(e: Engine, pools: Set[str], hs):
    from .. import dataflow
    out = []
    c = common.merged_class(e, QUEUE)
    held_by_slot = {m for _, m, _, _ in hs}
    # lock -> W: a slot is requested on a path on which the lock is held
    for mname, m in sorted(c.methods.items()):
        if LOCK not in ast.unparse(m.node):
            continue
        ctx = e.method_ctx(QUEUE, mname)
        g = e.build(ctx, inline=e.inline_same_self(deny=ACQ), max_depth=6)
        acqs = [n for n in g.nodes if _lock_acquire(n)]
        if not acqs:
            continue

        def step(n, label, st):
            if _lock_acquire(n) and not isinstance(label, tuple):
                return True
            if _lock_release(n):
                return False
            return st
        IN = dataflow.typestate(g, False, step)
        for n in g.nodes:
            if n.kind == 'call' and _acq_name(n.ast) and \
                    _which(n.ast) in pools and True in (IN.get(n.id) or ()):
                chain = tuple(fr.ctx.func.name for fr in n.frame.chain())
                out.append((LOCK, _which(n.ast), mname, chain, n.ast,
                            n.frame.ctx.func))
    # W -> lock: a slot holder waits for the lock
    for w, mname, spawner, call in hs:
        ctx = e.method_ctx(QUEUE, mname)
        g = e.build(ctx, inline=e.inline_same_self(deny=ACQ), max_depth=8)
        for n in g.nodes:
            if _lock_acquire(n):
                chain = tuple(fr.ctx.func.name for fr in n.frame.chain())
                site = n.ast if isinstance(n.ast, ast.Call) else \
                    n.ast.context_expr
                out.append((w, LOCK, mname, chain, site, n.frame.ctx.func))
    seen, uniq = set(), []
    for t in out:
        k = (t[0], t[1], t[2], t[3], ast.unparse(t[4]))
        if k not in seen:
            seen.add(k)
            uniq.append(t)
    return uniq


def run(e: Engine, rep: Report, rule: str):
    pools = pool_names(e)
    if len(pools) < 2:
        rep.error('anchor vanished: bounded pools of Queue (%s)'
                  % sorted(pools))
        return
    hs = holders(e, pools)
    if len(hs) < 4:
        rep.error('anchor vanished: functions spawned into a queue pool '
                  '(%d < 4)' % len(hs))
        return
    # a holder that never gives its slot back: an endless loop whose only
    # ways out are exceptions.  In a pool of one that is every slot there is.
    cq = common.merged_class(e, QUEUE)
    for w, mname, spawner, call in hs:
        m = cq.methods.get(mname)
        if m is None:
            continue
        for lp in walk_own(m.node):
            if not (isinstance(lp, ast.While) and
                    isinstance(lp.test, ast.Constant) and lp.test.value):
                continue
            handlers = [h for t in ast.walk(lp) if isinstance(t, ast.Try)
                        for h in t.handlers]
            exits = [x for x in ast.walk(lp)
                     if isinstance(x, (ast.Return, ast.Break)) and not any(
                         any(y is x for y in ast.walk(h)) for h in handlers)]
            rep.evaluations += 1
            rep.check(bool(exits), rule, QUEUE + '.' + mname,
                      '%s gives its %s slot back' % (mname, w),
                      '%s is spawned into the %s pool and loops for ever '
                      '(the only ways out of its `while True` are exception '
                      'arms): it keeps a slot for the life of the queue - '
                      'with %s_pool=1 that is the only one, so no other '
                      '%s operation ever runs: stored messages are never '
                      'dequeued, new ones cannot be written'
                      % (mname, w, w, w), loc=m.loc(lp),
                      reason='the loop has a normal exit')
    edges = []         # (P, Q, holder method, chain, site ast, func)
    seen = set()
    defers = spawn_defers(e, rep, rule, pools)
    rep.evaluations += 1
    if defers:
        rep.ok(rule, QUEUE + '._pool_spawn', '_pool_spawn does not wait for '
               'a slot on behalf of a slot holder', reason='pool.spawn only '
               'under `pool is gevent` or `not self.%s()`; otherwise a '
               'helper greenlet waits' % defers)
    for w, mname, spawner, call in hs:
        for w2, chain, site, fn in acquisitions(e, mname, pools):
            if defers and _acq_name(site) == '_pool_spawn':
                continue
            k = (w, w2, mname, chain, ast.unparse(site))
            if k in seen:
                continue
            seen.add(k)
            edges.append((w, w2, mname, chain, site, fn))
    # the timetable lock is one more resource of the same kind: a greenlet
    # that blocks in queued_lock.acquire() / `with queued_lock` while in a
    # pool slot holds the slot and waits for the lock (W -> lock); one that
    # asks for a slot while it has the lock holds the lock and waits for
    # the slot (lock -> W; _pool_spawn does wait there: the scheduler and
    # flush() are not slot holders)
    edges += lock_edges(e, pools, hs)
    graph: Dict[str, Set[str]] = {}
    for p, q, *_ in edges:
        graph.setdefault(p, set()).add(q)

    def reaches(a, b, seen=None):
        seen = seen or set()
        for x in graph.get(a, ()):
            if x == b:
                return True
            if x not in seen:
                seen.add(x)
                if reaches(x, b, seen):
                    return True
        return False
    rep.functions |= {QUEUE + '.' + m for _, m, _, _ in hs}
    for p, q, mname, chain, site, fn in sorted(
            edges, key=lambda t: (t[0], t[1], t[2], t[3])):
        rep.evaluations += 1
        on_cycle = p == q or reaches(q, p)
        via = ' -> '.join(chain)
        def res(x):
            return 'the timetable lock' if x == LOCK else 'a %s slot' % x
        text = '%s holds %s and requests %s via %s: %s' % (
            mname, res(p), res(q), via,
            ' '.join(ast.unparse(site).split())[:70])
        if on_cycle:
            cyc = '%s -> %s' % (p, q) if p == q else \
                '%s -> %s -> ... -> %s' % (p, q, p)
            rep.bad(rule, QUEUE + '.' + mname, text,
                    'pool-order cycle %s: with bounded pools every holder '
                    'of a %s slot can be waiting for a %s slot that only '
                    'another waiting holder would free; the messages '
                    'involved stay stored and marked in flight and are '
                    'never attempted, bounced or removed' % (cyc, p, q),
                    loc=fn.loc(site))
        else:
            rep.ok(rule, QUEUE + '.' + mname, text,
                   reason='edge %s -> %s is on no cycle' % (p, q),
                   loc=fn.loc(site))
    if not edges:
        rep.ok(rule, QUEUE, 'no greenlet holding a pool slot requests '
               'another', reason='pool-order graph has no edges')
