"""C09 - server behaviour does not depend on segmentation / pipelining.
(also hosts the reader-half rules that C05 claims)

G1 one reader, one buffer: socket.recv only in IO.raw_recv; raw_recv only
   from IO.buffered_recv and DataReader.recv_piece; IO.recv_buffer written
   only inside IO and by the two DataReader hand-over methods
G2 the line parsers consume whole lines only (consumption dominated by a
   match of a pattern that ends in a newline; the no-match path reads more)
G3 hand-over in both directions between the command buffer and the DATA
   reader (R5.3)
G4 end-of-data sentinel discipline: an attribute that is None-or-index is
   never tested by truthiness (R5.1); nothing after EOD is transformed (R5.2)
G5 a DATA abort that leaves the stream mid-message ends the session
"""
from __future__ import annotations

import ast
import re
from typing import List, Optional, Set

from ..engine import Engine
from ..report import Report
from ..cfg import Node
from ..facts import path_of, canon, holds, atoms_of_test
from ..kinds import Kinds, KindFlow, show, U, ks
from ..model import walk_own
from ..resolve import Ctx
from .. import dataflow
from . import common, c07

IOC = 'slimta.smtp.io.IO'
READER = 'slimta.smtp.datareader.DataReader'
SERVER = c07.SERVER

RECV_BUFFER_WRITERS = {
    READER + '.from_recv_buffer': 'takes the buffered bytes into the reader',
    READER + '.return_all': 'hands the bytes after EOD back',
}
RAW_RECV_CALLERS = {IOC + '.buffered_recv', READER + '.recv_piece',
                    READER + '.recv'}
# the reader is driven through recv() only; its steps are internal
READER_INTERNALS = {'recv_piece', 'return_all', 'from_recv_buffer',
                    'add_lines', 'handle_finished_line'}


def run(e: Engine, rep: Report):
    rules(rep)
    rep.not_decided += ['equality of reply/callback traces across '
                        'segmentations as such (the single-buffer discipline '
                        'is what makes it hold by construction)']
    g1(e, rep, 'G1')
    g2(e, rep, 'G2')
    g3(e, rep, 'G3')
    g4(e, rep, 'G4')
    g5(e, rep, 'G5')
    g6(e, rep, 'G6')
    g7(e, rep, 'G7')
    g8(e, rep, 'G8')
    rep.rule('G9', 'if io.recv_buffer is a property, its setter assigns '
             'every attribute its getter reads (assign-then-read gives the '
             'assigned value)')
    g9(e, rep, 'G9')
    rep.rule('G10', 'message lines end at LF and nowhere else: the '
             'functions of the data reader cut the stream with a pattern '
             'whose last item is a literal LF, never with splitlines() / '
             'a universal-newline splitter (those also cut at a bare CR, '
             'so `x<CR>.<CRLF>` inside a body would end the message)')
    g10(e, rep, 'G10')
    rep.rule('G11', 'a line recv_line hands out has been taken off '
             'recv_buffer: on every path to the return the buffer is '
             're-assigned a slice of itself after the match (everybody '
             'else - the DATA reader, STARTTLS - reads recv_buffer as what '
             'has NOT been consumed yet; a consumed prefix kept behind an '
             'offset is read again as message content)')
    g11(e, rep, 'G11')
    rep.rule('G12', 'the receive path hands on what the socket returned: '
             'raw_recv / buffered_recv apply no rewriting operation (table '
             'c05.CONTENT_REWRITERS) to the bytes - a per-read rewrite sees '
             'where the stream was cut, so the same stream comes out '
             'differently for different segmentations')
    g12(e, rep, 'G12')
    rep.rule('G13', '= C05-R5.6: the end of the data is decided in one '
             'place - EOD is written only for a line that matched the '
             'end-of-data pattern (or on giving up), cursor and line table '
             'only by their owner methods (a second, whole-buffer grammar '
             'for the end marker disagrees with the line-wise one for some '
             'streams, and only when they arrive in one piece)')
    from . import c05 as _c05
    sub = Report(rep.prop, rep.tier, rep.repo)
    _c05.r56(e, sub)
    for o in sub.obls:
        if o.text.startswith('write of self.'):
            rep.add('G13', o.where, o.text, o.status, o.what, o.loc,
                    o.witness, o.nontrivial, o.reason)
    rep.errors += sub.errors
    rep.evaluations += sub.evaluations
    rep.rule('G14', '= C05-R5.5 (reader side): the DATA reader ends a line '
             'at a single byte (LF) that the line body cannot contain - the '
             'line cut runs on every piece as it arrives, so a terminator '
             'of two bytes is not seen when a read boundary falls between '
             'them (two lines are glued, the end-of-data line behind them '
             'is missed)')
    sub = Report(rep.prop, rep.tier, rep.repo)
    _c05.r55(e, sub)
    for o in sub.obls:
        if o.text.startswith('a line ends at every LF') or \
                o.text.startswith('shape of the line pattern'):
            rep.add('G14', o.where, o.text, o.status,
                    (o.what + ' [for the command stream: the same bytes cut '
                     'differently are taken apart differently]')
                    if o.what else '', o.loc, o.witness, o.nontrivial,
                    o.reason)
    rep.errors += sub.errors
    rep.evaluations += sub.evaluations
    from . import c10 as _c10
    common.reuse(e, rep, _c10.f11, 'G15',
                 '= C10-F11: one socket read per refill - buffered_recv '
                 'never reads again because the last read came back full (a '
                 'pipelined group that fills a read exactly would block the '
                 'server on bytes the client only sends after its replies)',
                 only={'F11'})
    rep.floor('G1', 6, 'buffer / socket access sites')


def rules(rep: Report):
    rep.rule('G1', 'who-may-call: socket.recv / raw_recv / writes of '
             'recv_buffer are confined to the enumerated functions')
    rep.rule('G2', 'every consumption of recv_buffer in recv_line / '
             'recv_reply is dominated by a successful match of a pattern '
             'ending in \\n; the no-match path reads more and retries')
    rep.rule('G3', 'DataReader.recv = from_recv_buffer (takes all, clears) '
             '... return_all (restores lines after EOD, returns lines '
             'before EOD)')
    rep.rule('G4', 'a None-or-index attribute is tested by identity only; '
             'lines are rewritten only while EOD is None')
    rep.rule('G5', 'when DataReader.recv can abort mid-message with an '
             'SmtpError, the server does not continue the session')
    rep.rule('G6', 'every piece appended to the line table was counted into '
             'self.size first (socket reads and the command buffer alike), '
             'counting happens only while EOD is None, MessageTooBig depends '
             'on size / max_size only')
    rep.rule('G7', 'Server.handle never ends (normally or by an '
             'exception) with replies still in the send buffer: after every '
             'command / reply.send an unconditional flush_send lies on '
             'every way out')
    rep.rule('G8', 'no raise in the line-buffering functions of IO is '
             'conditioned on how much is buffered (the amount in '
             'recv_buffer depends on how the stream was cut)')
    rep.tables.add('c09.RECV_BUFFER_WRITERS')


# ---------------------------------------------------------------------- G1
def g1(e: Engine, rep: Report, rule: str):
    p = e.p
    for f in p.functions.values():
        if not f.module.name.startswith('slimta.smtp'):
            continue
        ctx = Ctx(f)
        for n in walk_own(f.node):
            if isinstance(n, ast.Call) and isinstance(n.func, ast.Attribute):
                recv = ast.unparse(n.func.value)
                if n.func.attr in ('recv', 'recv_into') and \
                        recv.endswith('socket'):
                    rep.evaluations += 1
                    rep.check(f.qname == IOC + '.raw_recv', rule, f.qname,
                              'socket read `%s`' % ast.unparse(n.func),
                              'bytes are read from the socket outside '
                              'IO.raw_recv: they bypass the single receive '
                              'buffer, so what the parser sees depends on '
                              'segmentation', loc=f.loc(n),
                              reason='only in IO.raw_recv')
                if n.func.attr in READER_INTERNALS:
                    ts = e.r.infer(n.func.value, ctx)
                    if any(t[0] == 'inst' and t[1] == READER for t in ts) \
                            or (not ts and n.func.attr in (
                                'recv_piece', 'return_all',
                                'from_recv_buffer')):
                        rep.evaluations += 1
                        rep.check(f.cls is not None and
                                  f.cls.qname == READER, rule, f.qname,
                                  'use of DataReader.%s' % n.func.attr,
                                  'the DATA reader is driven step by step '
                                  'from %s instead of through recv(): the '
                                  'hand-over of already buffered bytes '
                                  '(from_recv_buffer ... return_all) is no '
                                  'longer guaranteed' % f.qname,
                                  loc=f.loc(n), reason='inside DataReader')
                if n.func.attr == 'raw_recv':
                    rep.evaluations += 1
                    # (a private helper used by the enumerated callers only
                    # is part of them)
                    allowed = set(RAW_RECV_CALLERS)
                    for cq0 in (IOC, READER):
                        own = {q.rpartition('.')[2] for q in RAW_RECV_CALLERS
                               if q.startswith(cq0 + '.')}
                        allowed |= {cq0 + '.' + nm for nm in
                                    common.owner_closure(e, cq0, own)}
                    rep.check(f.qname in allowed, rule, f.qname,
                              'caller of raw_recv',
                              'raw_recv is called from %s: bytes can be '
                              'consumed without going through recv_buffer '
                              'or the DATA reader' % f.qname, loc=f.loc(n),
                              reason='enumerated caller')
            if isinstance(n, ast.Attribute) and n.attr == 'recv_buffer' and \
                    isinstance(n.ctx, ast.Load):
                inside_io = f.cls is not None and f.cls.qname == IOC
                if not inside_io:
                    # who-may-read: what is buffered at a given moment is an
                    # accident of segmentation; outside IO only the DATA
                    # hand-over looks at it
                    rep.evaluations += 1
                    rep.check(f.qname in RECV_BUFFER_WRITERS, rule, f.qname,
                              'read of recv_buffer',
                              '%s looks at IO.recv_buffer: how much is '
                              'buffered when it runs depends on how the '
                              'peer\'s bytes were cut into reads, so what '
                              'it decides from it differs between '
                              'segmentations of one stream' % f.qname,
                              loc=f.loc(n),
                              reason='IO method or enumerated hand-over')
            tg = []
            if isinstance(n, ast.Assign):
                tg = n.targets
            elif isinstance(n, (ast.AugAssign, ast.AnnAssign)):
                tg = [n.target]
            for t in tg:
                if isinstance(t, ast.Attribute) and t.attr == 'recv_buffer':
                    rep.evaluations += 1
                    inside_io = f.cls is not None and f.cls.qname == IOC
                    rep.check(inside_io or f.qname in RECV_BUFFER_WRITERS,
                              rule, f.qname, 'write of recv_buffer',
                              'IO.recv_buffer is modified from %s, outside '
                              'IO and the two DATA hand-over methods'
                              % f.qname, loc=f.loc(n),
                              reason='IO method or enumerated hand-over')


# ---------------------------------------------------------------------- G2
def _regex_ends_in_newline(e: Engine, module, name: str) -> Optional[bool]:
    m = e.p.modules.get(module)
    v = m.globals.get(name) if m else None
    if not (isinstance(v, ast.Call) and v.args and
            isinstance(v.args[0], ast.Constant)):
        return None
    pat = v.args[0].value
    try:
        import re._parser as sre
        tree = sre.parse(pat)
    except Exception:
        return None
    items = list(tree)
    # strip a trailing '$'
    while items and str(items[-1][0]) == 'AT':
        items = items[:-1]
    if not items:
        return False
    op, arg = items[-1]
    return str(op) == 'LITERAL' and arg == 10


def _cut_after_found_newline(g, fx, n):
    """`buf = X[i + k:]` with i = X.find(<literal ending in LF>),
    k = len(literal), reached only where the find succeeded: returns the
    literal, else None."""
    v = n.ast.value
    if not (isinstance(v, ast.Subscript) and isinstance(v.slice, ast.Slice)
            and v.slice.upper is None and
            isinstance(v.slice.lower, ast.BinOp) and
            isinstance(v.slice.lower.op, ast.Add)):
        return None
    lo = v.slice.lower
    iv, kc = lo.left, lo.right
    if isinstance(iv, ast.Constant):
        iv, kc = kc, iv
    if not (isinstance(iv, ast.Name) and isinstance(kc, ast.Constant) and
            isinstance(kc.value, int)):
        return None
    src = ast.unparse(v.value)
    defs = [s for s in g.of_kind('stmt') if s.frame is n.frame and
            isinstance(s.ast, ast.Assign) and any(
                isinstance(t, ast.Name) and t.id == iv.id
                for t in s.ast.targets)]
    if len(defs) != 1:
        return None
    d = defs[0].ast.value
    if not (isinstance(d, ast.Call) and isinstance(d.func, ast.Attribute) and
            d.func.attr in ('find', 'index') and
            ast.unparse(d.func.value) == src and d.args and
            isinstance(d.args[0], ast.Constant) and
            isinstance(d.args[0].value, bytes) and
            d.args[0].value.endswith(b'\n') and
            kc.value == len(d.args[0].value) and len(d.args) == 1):
        return None
    ip = path_of(iv, n.frame)
    st = fx.at(n) or frozenset()
    found = d.func.attr == 'index' or any(
        (not p and k == '%s == -1' % ip) or (p and k == '0 <= %s' % ip) or
        (p and k == '-1 < %s' % ip) for p, k in st)
    return d.args[0].value if found else None


def consumed_match(g, n):
    """the Name of the match object whose end the consumption statement
    `buf = X[<end>:]` cuts at: <end> is `m.end(..)` itself, or a local whose
    every reaching definition is `m.end(..)` of one match variable"""
    v = n.ast.value
    if not (isinstance(v, ast.Subscript) and isinstance(v.slice, ast.Slice)
            and v.slice.upper is None and v.slice.lower is not None):
        return None
    lo = v.slice.lower

    def end_of(x):
        if isinstance(x, ast.Call) and isinstance(x.func, ast.Attribute) \
                and x.func.attr == 'end' and \
                isinstance(x.func.value, ast.Name):
            return x.func.value
        return None
    m = end_of(lo)
    if m is not None:
        return m
    if isinstance(lo, ast.Name):
        ds = common.reaching_defs(g, n, path_of(lo, n.frame))
        ms = []
        for d in ds:
            if d is None or not isinstance(d.ast, ast.Assign):
                return None
            mm = end_of(d.ast.value)
            if mm is None:
                return None
            ms.append(mm)
        if ms and len({x.id for x in ms}) == 1:
            return ms[0]
    return None


def _cut_by_partition(g, fx, n):
    """`buf = rest` with `line, sep, rest = X.partition(b'\\n')`, reached
    only where `sep` is truthy (a line feed was there): returns the
    separator literal, else None."""
    v = n.ast.value
    if not isinstance(v, ast.Name):
        return None
    for s in g.of_kind('stmt'):
        if s.frame is not n.frame or not isinstance(s.ast, ast.Assign) or \
                len(s.ast.targets) != 1:
            continue
        t = s.ast.targets[0]
        d = s.ast.value
        if isinstance(t, (ast.Tuple, ast.List)) and len(t.elts) == 3 and \
                all(isinstance(x, ast.Name) for x in t.elts) and \
                t.elts[2].id == v.id and isinstance(d, ast.Call) and \
                isinstance(d.func, ast.Attribute) and \
                d.func.attr == 'partition' and len(d.args) == 1 and \
                isinstance(d.args[0], ast.Constant) and \
                isinstance(d.args[0].value, bytes) and \
                d.args[0].value.endswith(b'\n') and \
                'recv_buffer' in ast.unparse(d.func.value):
            sp = path_of(t.elts[1], s.frame)
            st = fx.at(n) or frozenset()
            if holds(st, (True, sp)):
                return d.args[0].value
    return None


def _match_patterns(g, fx, mv_node, frame, depth=0):
    """names of the module patterns the match object `mv_node` (a Name in
    `frame`) can come from - followed through an inlined helper that hands
    the match back only where it is truthy; None when it cannot be read or
    may be handed back falsy"""
    if depth > 3 or not isinstance(mv_node, ast.Name):
        return None
    mv = path_of(mv_node, frame)
    pats = set()
    defs = [s for s in g.of_kind('stmt') if isinstance(s.ast, ast.Assign)
            and s.frame is frame and any(
                isinstance(t, ast.Name) and path_of(t, s.frame) == mv
                for t in s.ast.targets)]
    if not defs:
        return None
    for s in defs:
        v = s.ast.value
        if isinstance(v, ast.Call) and isinstance(v.func, ast.Attribute) and \
                v.func.attr in ('match', 'search', 'fullmatch') and \
                isinstance(v.func.value, ast.Name):
            pats.add(v.func.value.id)
            continue
        if isinstance(v, ast.Call):
            kids = [c for c in getattr(frame, 'children', ())
                    if c.call is v]
            if len(kids) != 1:
                return None
            kf = kids[0]
            rets = [r for r in g.of_kind('stmt')
                    if isinstance(r.ast, ast.Return) and r.frame is kf]
            if not rets:
                return None
            for r in rets:
                rv = r.ast.value
                if not isinstance(rv, ast.Name):
                    return None
                rp = path_of(rv, kf)
                st = fx.at(r) or frozenset()
                if not (holds(st, (True, rp)) or
                        holds(st, (False, rp + ' is None'))):
                    return None
                sub = _match_patterns(g, fx, rv, kf, depth + 1)
                if sub is None:
                    return None
                pats |= sub
            continue
        return None
    return pats


def _cut_at_cursor(e, g, fx, n, modname):
    """`self.recv_buffer = data[pos:]` with `data` the buffer as it was on
    entry and `pos` a local that is 0 or the end of a successful match of a
    whole-line pattern against `data`: names of the patterns, else None"""
    v = n.ast.value
    if not (isinstance(v, ast.Subscript) and isinstance(v.value, ast.Name)
            and isinstance(v.slice, ast.Slice) and v.slice.upper is None and
            v.slice.step is None and isinstance(v.slice.lower, ast.Name)):
        return None
    fr = n.frame
    dp, pp = path_of(v.value, fr), path_of(v.slice.lower, fr)

    def defs_of(q):
        return [s for s in g.of_kind('stmt') if s.frame is fr and
                isinstance(s.ast, (ast.Assign, ast.AugAssign)) and any(
                    path_of(x, s.frame) == q
                    for t in (s.ast.targets if isinstance(s.ast, ast.Assign)
                              else [s.ast.target])
                    for x in ast.walk(t) if isinstance(x, ast.Name))]
    dd = {id(s.ast): s for s in defs_of(dp)}
    if len(dd) != 1:
        return None
    d0 = next(iter(dd.values())).ast
    if not (isinstance(d0, ast.Assign) and
            path_of(d0.value, fr) == 'self.recv_buffer'):
        return None
    pats = set()
    pdefs = defs_of(pp)
    if not pdefs:
        return None
    for s in pdefs:
        a = s.ast
        if not (isinstance(a, ast.Assign) and len(a.targets) == 1 and
                isinstance(a.targets[0], ast.Name)):
            return None
        pv = a.value
        if isinstance(pv, ast.Constant) and pv.value == 0 and \
                not isinstance(pv.value, bool):
            continue
        if not (isinstance(pv, ast.Call) and
                isinstance(pv.func, ast.Attribute) and pv.func.attr == 'end'
                and isinstance(pv.func.value, ast.Name) and
                not pv.keywords and len(pv.args) <= 1 and all(
                    isinstance(x, ast.Constant) and x.value == 0
                    for x in pv.args)):
            return None
        mq = path_of(pv.func.value, fr)
        st = fx.at(s)
        if not (holds(st, (True, mq)) or holds(st, (False, mq + ' is None'))):
            return None
        mdefs = defs_of(mq)
        if not mdefs:
            return None
        for md in mdefs:
            mvv = md.ast.value if isinstance(md.ast, ast.Assign) else None
            if not (isinstance(mvv, ast.Call) and
                    isinstance(mvv.func, ast.Attribute) and
                    mvv.func.attr == 'match' and
                    isinstance(mvv.func.value, ast.Name) and mvv.args and
                    path_of(mvv.args[0], fr) == dp):
                return None
            pats.add(mvv.func.value.id)
    if not pats or not all(_regex_ends_in_newline(e, modname, pn) is True
                           for pn in pats):
        return None
    return pats


def g2(e: Engine, rep: Report, rule: str,
       meths=('recv_line', 'recv_reply')):
    for meth in meths:
        ctx = e.method_ctx(IOC, meth)
        g = e.build(ctx, raises=lambda b, n, r: set(),
                    inline=e.inline_same_self(deny=['buffered_recv']),
                    max_depth=3)
        fx = e.facts(g)
        where = ctx.func.qname
        rep.functions.add(where)
        cons = [n for n in g.of_kind('stmt') if isinstance(n.ast, ast.Assign)
                and any(path_of(t, n.frame) == 'self.recv_buffer'
                        for t in n.ast.targets)]
        if not cons:
            rep.error('anchor vanished: consumption of recv_buffer in %s'
                      % where)
            continue
        for n in cons:
            rep.evaluations += 1
            v = n.ast.value
            # self.recv_buffer = input[match.end(0):]
            mnode = consumed_match(g, n)
            ok_shape = mnode is not None
            mv = path_of(mnode, n.frame) if ok_shape else None
            st = fx.at(n)
            # a match object is truthy: `m is not None` says as much as `m`
            ok = ok_shape and mv is not None and (
                holds(st, (True, mv)) or holds(st, (False, mv + ' is None')))
            # the match object comes from a pattern ending in \n
            pats = set()
            if mv is not None:
                for s in g.of_kind('stmt'):
                    if isinstance(s.ast, ast.Assign) and path_of(
                            s.ast.targets[0], s.frame) == mv and \
                            isinstance(s.ast.value, ast.Call) and \
                            isinstance(s.ast.value.func, ast.Attribute) and \
                            isinstance(s.ast.value.func.value, ast.Name):
                        pats.add(s.ast.value.func.value.id)
            nl = [_regex_ends_in_newline(e, ctx.func.module.name, pn)
                  for pn in pats]
            if not (ok and nl and all(x is True for x in nl)) and ok_shape:
                # the match came back from a helper that hands it over only
                # where it matched
                got = _match_patterns(g, fx, mnode, n.frame)
                if got:
                    nl2 = [_regex_ends_in_newline(e, ctx.func.module.name,
                                                  pn) for pn in got]
                    if all(x is True for x in nl2):
                        ok, nl, pats = True, nl2, got
            if not (ok and nl and all(x is True for x in nl)):
                # the same thing without a regex: cut right behind a line
                # feed that find() located
                alt = _cut_after_found_newline(g, fx, n)
                if alt:
                    ok, nl = True, [True]
                    pats = {'find(%r)' % alt}
                else:
                    alt = _cut_by_partition(g, fx, n)
                    if alt:
                        ok, nl = True, [True]
                        pats = {'partition(%r)' % alt}
                    else:
                        cur = _cut_at_cursor(e, g, fx, n,
                                             ctx.func.module.name)
                        if cur:
                            ok, nl, pats = True, [True], cur
            rep.check(ok and nl and all(x is True for x in nl), rule, where,
                      'consumption `%s`' % n.text(50),
                      'bytes are removed from recv_buffer without a '
                      'successful match of a whole line (pattern ending in '
                      '\\n): a partial line can be consumed, so the result '
                      'depends on how the stream was cut', loc=n.loc(),
                      reason='dominated by a match of %s' % sorted(pats))
        # the no-match path reads more (never drops bytes, never spins)
        reads = [n for n in g.calls() if e.call_name(n) == 'buffered_recv']
        rep.check(bool(reads), rule, where, 'incomplete input reads more',
                  '%s never calls buffered_recv' % meth,
                  reason='buffered_recv on the incomplete path',
                  loc=ctx.func.loc())


# ---------------------------------------------------------------------- G3
def g3(e: Engine, rep: Report, rule: str):
    # recv: order of the three phases
    ctx = e.method_ctx(READER, 'recv')
    # (with the steps the socket read may have been moved into)
    g = e.build(ctx, raises=lambda b, n, r: set(),
                inline=e.inline_same_self(deny=[
                    'from_recv_buffer', 'return_all', 'add_lines']),
                max_depth=3)
    where = ctx.func.qname
    rep.functions.add(where)

    def ev(n):
        if n.kind in ('call', 'call_enter'):
            nm = e.call_name(n)
            if nm in ('from_recv_buffer', 'recv_piece', 'return_all'):
                return [nm]
        return []
    before = dataflow.must_events_before(g, ev)
    rets = [n for n in g.of_kind('stmt') if isinstance(n.ast, ast.Return)
            and n.frame is g.entry.frame]
    pieces = [n for n in g.calls() if e.call_name(n) == 'raw_recv']
    rep.evaluations += 2
    rep.check(bool(pieces) and all('from_recv_buffer' in (before.get(
        n.id) or ()) for n in pieces), rule, where,
        'buffered bytes are taken before reading the socket',
        'DataReader.recv reads from the socket before (or without) taking '
        'over what is already in IO.recv_buffer: pipelined message bytes '
        'are lost or reordered', reason='from_recv_buffer dominates '
        'recv_piece', loc=ctx.func.loc())
    rep.check(bool(rets) and all(
        isinstance(r.ast.value, ast.Call) and
        ast.unparse(r.ast.value.func).endswith('return_all') and
        'from_recv_buffer' in (before.get(r.id) or ())
        for r in rets), rule, where,
        'result and left-over come from return_all',
        'DataReader.recv does not finish through return_all(): bytes after '
        'the end-of-data line are not handed back to the command buffer',
        reason='return self.return_all()', loc=ctx.func.loc())
    # from_recv_buffer: takes everything, then clears
    ctx = e.method_ctx(READER, 'from_recv_buffer')
    g = e.build(ctx, raises=lambda b, n, r: set())
    where = ctx.func.qname
    rep.functions.add(where)
    def pairs(a: ast.Assign):
        """(target, value) pairs of a (possibly tuple) assignment"""
        out = []
        for t in a.targets:
            if isinstance(t, (ast.Tuple, ast.List)) and isinstance(
                    a.value, (ast.Tuple, ast.List)) and \
                    len(t.elts) == len(a.value.elts):
                out += list(zip(t.elts, a.value.elts))
            else:
                out.append((t, a.value))
        return out

    def is_buf(x):
        return isinstance(x, ast.Attribute) and x.attr == 'recv_buffer'
    clears, local_takes = [], {}
    for n in g.of_kind('stmt'):
        if not isinstance(n.ast, ast.Assign):
            continue
        for t, v in pairs(n.ast):
            if is_buf(t) and isinstance(v, ast.Constant) and v.value == b'':
                clears.append(n)
            if isinstance(t, ast.Name) and is_buf(v):
                local_takes[t.id] = n
    # the call that interprets the buffered bytes, and where its argument
    # was read from the buffer
    uses = []
    for n in g.nodes:
        if n.kind not in ('call', 'call_enter') or not n.ast.args:
            continue
        a = n.ast.args[0]
        if is_buf(a):
            uses.append((n, n))
        elif isinstance(a, ast.Name) and a.id in local_takes:
            uses.append((n, local_takes[a.id]))
    may_before = dataflow.may_events_before(
        g, lambda n: ['clear'] if n in clears else [])
    after = dataflow.must_events_after(
        g, lambda n: ['clear'] if n in clears else [], edge=c07.no_call_exc)
    rep.evaluations += 1
    ok = bool(uses) and bool(clears)
    for use, take in uses:
        # read before any clear; the clear follows the read on every path
        # (it may be the very statement that reads: a, buf = buf, b'')
        ok = ok and 'clear' not in (may_before.get(take.id) or ()) and (
            take in clears or isinstance(after.get(take.id), dataflow.Top)
            or 'clear' in (after.get(take.id) or ()))
    rep.check(ok, rule, where, 'takes the whole buffer, then empties it',
              'from_recv_buffer does not take the complete recv_buffer and '
              'clear it afterwards: buffered bytes are processed twice (as '
              'content and again as commands) or not at all',
              reason='the bytes handed to add_lines were read from '
              "io.recv_buffer before it is set to b'' on every path",
              loc=ctx.func.loc())
    # return_all: slices around EOD (locals, aliases and helpers that hand
    # the two parts back are read through)
    ctx = e.method_ctx(READER, 'return_all')
    where = ctx.func.qname
    rep.functions.add(where)
    g = e.build(ctx, raises=lambda b, n, r: set(),
                inline=e.inline_same_self(), max_depth=3)

    def sliced(x):
        """('before' | 'after' | None) for join(self.lines[:EOD]) /
        join(self.lines[EOD+1:]) - the join may be missing"""
        if isinstance(x, ast.Call) and isinstance(x.func, ast.Attribute) \
                and x.func.attr == 'join' and len(x.args) == 1:
            x = x.args[0]
        if not (isinstance(x, ast.Subscript) and
                isinstance(x.slice, ast.Slice) and
                ast.unparse(x.value) == 'self.lines' and
                x.slice.step is None):
            return None
        lo = ast.unparse(x.slice.lower) if x.slice.lower else None
        up = ast.unparse(x.slice.upper) if x.slice.upper else None
        if lo in (None, '0') and up == 'self.EOD':
            return 'before'
        if up is None and lo in ('self.EOD + 1', '1 + self.EOD'):
            return 'after'
        return None
    rep.evaluations += 2
    rets = [n for n in g.of_kind('stmt') if isinstance(n.ast, ast.Return)
            and n.frame is g.entry.frame and n.ast.value is not None]
    ret_ok = bool(rets) and all(
        sliced(common.expand(g, n.ast.value, n.frame)) == 'before'
        for n in rets)
    bufw = [n for n in g.of_kind('stmt') if isinstance(n.ast, ast.Assign)
            and any(isinstance(t, ast.Attribute) and t.attr == 'recv_buffer'
                    for t in n.ast.targets)]
    buf_ok = bool(bufw) and all(
        sliced(common.expand(g, n.ast.value, n.frame)) == 'after'
        for n in bufw)
    rep.check(ret_ok, rule, where, 'returns the lines before EOD',
              'return_all does not return exactly lines[:EOD]: the '
              'end-of-data line (or later bytes) end up in the message, or '
              'content is cut', reason='lines[:self.EOD]',
              loc=ctx.func.loc())
    rep.check(buf_ok, rule, where, 'restores the lines after EOD to the '
              'command buffer', 'return_all does not put lines[EOD+1:] '
              'back into io.recv_buffer: pipelined commands after the '
              'message are swallowed, or the EOD line is re-read as a '
              'command', reason='io.recv_buffer = join(lines[EOD+1:])',
              loc=ctx.func.loc())


# ---------------------------------------------------------------------- G4
def sentinel_attrs(e: Engine, K: Kinds, cq: str) -> Set[str]:
    """Attributes of class cq assigned None in __init__ and an Int-kinded
    expression elsewhere in the class (0 is a legal value)."""
    c = e.p.classes[cq]
    none_attrs, int_attrs = set(), set()
    for m in c.methods.values():
        ctx = Ctx(m, cq)
        g = None
        flow = None
        for n in walk_own(m.node):
            if not isinstance(n, ast.Assign):
                continue
            for t in n.targets:
                if isinstance(t, ast.Attribute) and \
                        isinstance(t.value, ast.Name) and \
                        t.value.id == m.self_name:
                    if isinstance(n.value, ast.Constant) and \
                            n.value.value is None:
                        none_attrs.add(t.attr)
                    else:
                        if g is None:
                            g = e.build(ctx, raises=lambda b, x, r: set())
                            flow = KindFlow(K, g)
                        for cn in g.of_kind('stmt'):
                            if cn.ast is n:
                                kk = flow.eval_at(cn, n.value)
                                if kk and kk <= ks('Int') and not (
                                        isinstance(n.value, ast.Constant)
                                        and n.value.value):
                                    int_attrs.add(t.attr)
                                elif kk and U in kk and kk <= (
                                        ks('Int') | frozenset([U])) and \
                                        isinstance(n.value, (
                                            ast.Name, ast.Attribute,
                                            ast.BinOp)):
                                    # a counter / cursor whose arithmetic
                                    # the kinds cannot follow (i = self.i;
                                    # self.i = i + 1): still an index
                                    int_attrs.add(t.attr)
    return none_attrs & int_attrs


def g4(e: Engine, rep: Report, rule: str):
    K = Kinds(e)
    total = 0
    for cq, c in sorted(e.p.classes.items()):
        if not cq.startswith('slimta.smtp'):
            continue
        attrs = sentinel_attrs(e, K, cq)
        if not attrs:
            continue
        for m in c.methods.values():
            ctx = Ctx(m, cq)
            if not any(isinstance(n, ast.Attribute) and n.attr in attrs
                       for n in walk_own(m.node)):
                continue
            g = e.build(ctx, raises=lambda b, x, r: set())
            rep.functions.add(m.qname)
            for t in g.of_kind('test'):
                a = t.ast
                if isinstance(a, ast.Attribute) and a.attr in attrs and \
                        isinstance(a.value, ast.Name) and \
                        a.value.id == m.self_name:
                    total += 1
                    rep.evaluations += 1
                    rep.bad(rule, m.qname,
                            'truthiness test of None-or-index attribute '
                            '`self.%s`' % a.attr,
                            'self.%s is None until set and then holds a '
                            'line index, where 0 is legal (the first line '
                            'is the end-of-data line of an empty message); '
                            'a truthiness test treats index 0 as "not '
                            'seen": after an empty message the reader goes '
                            'on reading / un-dotting pipelined lines'
                            % a.attr, loc=t.loc())
                elif any(isinstance(x, ast.Attribute) and x.attr in attrs
                         for x in ast.walk(a)):
                    total += 1
                    rep.evaluations += 1
                    atoms = atoms_of_test(a, True, t.frame)
                    ident = all(k.endswith(' is None') for _, k in atoms)
                    rep.check(ident, rule, m.qname,
                              'test `%s` of a None-or-index attribute'
                              % t.text(40),
                              'a None-or-index attribute takes part in a '
                              'test that is not an identity test against '
                              'None', loc=t.loc(),
                              reason='identity test against None')
            # return not self.EOD  (truthiness used as a value)
            for n in walk_own(m.node):
                if isinstance(n, ast.Return) and n.value is not None:
                    for x in ast.walk(n.value):
                        if isinstance(x, ast.UnaryOp) and \
                                isinstance(x.op, ast.Not) and \
                                isinstance(x.operand, ast.Attribute) and \
                                x.operand.attr in attrs:
                            total += 1
                            rep.evaluations += 1
                            rep.bad(rule, m.qname,
                                    'truthiness of None-or-index attribute '
                                    '`self.%s` returned' % x.operand.attr,
                                    '`not self.%s` is True for index 0: '
                                    'after an empty message recv_piece '
                                    'reports "more data needed" and the '
                                    'reader blocks on the socket although '
                                    'the end of data was seen'
                                    % x.operand.attr, loc=m.loc(n))
    if total < 2:
        rep.error('anchor vanished: tests of the EOD sentinel (%d < 2)'
                  % total)
    # R5.2: lines are rewritten only before EOD
    ctx = e.method_ctx(READER, 'handle_finished_line')
    g = e.build(ctx, raises=lambda b, x, r: set())
    fx = e.facts(g)
    where = ctx.func.qname
    ws = [n for n in g.of_kind('stmt') if isinstance(n.ast, ast.Assign) and
          any(isinstance(t, ast.Subscript) and
              path_of(t.value, n.frame) == 'self.lines'
              for t in n.ast.targets)]
    for n in ws:
        rep.evaluations += 1
        rep.check(holds(fx.at(n), (True, 'self.EOD is None')), rule, where,
                  'line rewrite `%s` only before end of data' % n.text(40),
                  'a line can be un-dotted after the end-of-data line was '
                  'seen: pipelined command bytes are altered',
                  loc=n.loc(), reason='dominated by self.EOD is None')
    eods = [n for n in g.of_kind('stmt') if isinstance(n.ast, ast.Assign) and
            any(path_of(t, n.frame) == 'self.EOD' for t in n.ast.targets)]
    for n in eods:
        rep.evaluations += 1
        rep.check(holds(fx.at(n), (True, 'self.EOD is None')), rule, where,
                  'EOD is set once',
                  'the end-of-data index can be overwritten by a later '
                  'lone-dot line (pipelined bytes)', loc=n.loc(),
                  reason='dominated by self.EOD is None')


# ---------------------------------------------------------------------- G5
def g5(e: Engine, rep: Report, rule: str):
    ctx = e.method_ctx(SERVER, '_get_message_data')

    def pol(builder, call, target, frame):
        if target.func.name == '_call_custom_handler':
            return False
        return target.func.module.name in ('slimta.smtp.datareader',
                                           'slimta.smtp.server')

    def raises(builder, n, res):
        if n.kind == 'call' and e.call_name(n) == 'raw_recv':
            return {'slimta.smtp.ConnectionLost'}
        return set()
    g = e.build(ctx, inline=pol, raises=raises, max_depth=5,
                assert_raises=False)
    where = ctx.func.qname
    rep.functions.add(where)
    fx = e.facts(g)
    hs = [h for h in g.of_kind('handler') if h.frame is g.entry.frame and
          h.extra.get('tokens')]
    aborts = set()
    for h in hs:
        for t in h.extra.get('tokens', ()):
            if not e.p.is_subclass(t, 'slimta.smtp.ConnectionLost'):
                aborts.add(t)
    rep.evaluations += 1
    if not aborts:
        rep.ok(rule, where, 'no mid-message abort reaches the server',
               reason='DataReader.recv raises nothing but ConnectionLost')
        return
    for h in hs:
        toks = [t for t in h.extra.get('tokens', ())
                if not e.p.is_subclass(t, 'slimta.smtp.ConnectionLost')]
        if not toks:
            continue
        hf = e.facts(g, start=h)
        pth = dataflow.find_path(
            g, h, lambda x: x is g.exit,
            edge_ok=lambda a, l, s: not isinstance(l, tuple) and
            not hf.infeasible(a, l))
        rep.check(pth is None, rule, where,
                  'abort with %s ends the session' % ', '.join(
                      t.rpartition('.')[2] for t in sorted(toks)),
                  'DataReader.recv can abort in the middle of the message '
                  '(%s); the server answers and then goes on reading '
                  'commands: the rest of the message body is executed as '
                  'commands' % ', '.join(sorted(toks)), loc=h.loc(),
                  reason='no normal return from the abort arm',
                  witness=dataflow.render_path(pth, 16) if pth else None)


# ---------------------------------------------------------------------- G6
def g6(e: Engine, rep: Report, rule: str):
    """The size limit is about the message, not about reads: every piece of
    bytes that enters the line table is counted first (whatever its source:
    socket read or command buffer), counting stops at the end-of-data line,
    and the limit is tested where the count changes."""
    c = e.p.cls(READER)
    # methods that count their parameter into self.size
    counters = {}
    for mname, m in c.methods.items():
        for n in walk_own(m.node):
            if isinstance(n, ast.AugAssign) and isinstance(n.op, ast.Add) \
                    and ast.unparse(n.target) == 'self.size' and \
                    isinstance(n.value, ast.Call) and \
                    ast.unparse(n.value.func) == 'len' and n.value.args and \
                    isinstance(n.value.args[0], ast.Name) and \
                    n.value.args[0].id in m.params[1:]:
                counters[mname] = (m, n, n.value.args[0].id)
    raisers = [m for m in c.methods.values() if any(
        isinstance(n, ast.Raise) and 'MessageTooBig' in ast.unparse(n)
        for n in walk_own(m.node))]
    if not raisers:
        rep.ok(rule, READER, 'no size limit in the reader',
               reason='MessageTooBig is never raised', nontrivial=False)
        return
    # (a) every append to the line table is preceded by counting the same
    #     bytes
    n_app = 0
    for mname, m in sorted(c.methods.items()):
        if mname == '_append_line':
            continue
        ctx = Ctx(m, READER)
        g = e.build(ctx, raises=lambda b, n, r: set(),
                    inline=e.inline_same_self(deny=['_append_line',
                                                    'handle_finished_line']),
                    max_depth=3)
        apps = [n for n in g.calls() if e.call_name(n) == '_append_line'
                and n.ast.args and n.frame is g.entry.frame]
        if not apps:
            continue
        where = m.qname
        rep.functions.add(where)

        def limit_test(n):
            # a branch on max_size (none configured / size compared with
            # it): the limit was looked at
            return n.kind == 'test' and 'max_size' in ast.unparse(n.ast)

        def past_eod(n):
            # the label of the edge on which `self.EOD is None` is false
            # (either spelling of the test): these bytes do not belong to
            # the message, nothing to count or to limit
            if n.kind != 'test':
                return None
            for lab in ('T', 'F'):
                if (False, 'self.EOD is None') in atoms_of_test(
                        n.ast, lab == 'T', n.frame):
                    return lab
            return None

        def counted(n):
            if limit_test(n):
                return ['lim']
            if n.kind in ('call', 'call_enter') and \
                    e.call_name(n) in counters and n.ast.args and \
                    n.frame is g.entry.frame:
                return ['cnt:' + ast.unparse(n.ast.args[0]), '-lim']
            if n.kind == 'stmt' and isinstance(n.ast, ast.AugAssign) and \
                    ast.unparse(n.ast.target) == 'self.size' and \
                    isinstance(n.ast.value, ast.Call) and \
                    ast.unparse(n.ast.value.func) == 'len' and \
                    n.ast.value.args:
                return ['cnt:' + ast.unparse(n.ast.value.args[0])]
            return []

        def kill(n):
            # a new loop iteration / re-binding makes the expression denote
            # other bytes
            if n.kind == 'iter':
                return ['*']
            return []
        before = {}
        def tr(n, st):
            if n.kind == 'iter' and n.frame is g.entry.frame:
                st = frozenset()
            ev = counted(n)
            if '-lim' in ev:
                st = st - {'lim'}
            st = st | frozenset(x for x in ev if x != '-lim')
            lab = past_eod(n)
            if lab:
                other = 'F' if lab == 'T' else 'T'
                return {other: st, lab: st | {'lim'}, None: st}
            return st
        st0 = dataflow.forward(g, frozenset(), tr, lambda a, b: a & b)
        for a in apps:
            n_app += 1
            rep.evaluations += 1
            arg = ast.unparse(a.ast.args[0])
            rep.check(('cnt:' + arg) in (st0.get(a.id) or ()), rule, where,
                      'bytes `%s` are counted before they enter the '
                      'message' % arg,
                      '`%s` is appended to the line table without having '
                      'been counted towards the size limit on every path: '
                      'whether an over-size message is refused depends on '
                      'which bytes took this route, i.e. on how the stream '
                      'was cut (pipelined with DATA or not)' % arg,
                      loc=a.loc(), reason='self.size += len(%s) on every '
                      'path before, in the same iteration' % arg)
            rep.evaluations += 1
            rep.check('lim' in (st0.get(a.id) or ()), rule, where,
                      'the limit is tested after counting `%s`, before it '
                      'enters the message' % arg,
                      'between counting `%s` and appending it the size is '
                      'not compared with max_size: the limit is looked at '
                      'only at some later point (e.g. once per read), so an '
                      'over-size message whose end-of-data line arrives in '
                      'the same read is accepted - the outcome depends on '
                      'the segmentation' % arg, loc=a.loc(),
                      reason='a size/max_size test on every path between '
                      'the count and the append')
    if n_app < 1:
        rep.error('anchor vanished: _append_line sites (%d < 1)' % n_app)
    # (b) counting and the limit test: only message bytes count, and the
    #     decision depends on size / max_size (and "still before EOD") only
    for mname, (m, aug, prm) in sorted(counters.items()):
        ctx = Ctx(m, READER)
        g = e.build(ctx, raises=lambda b, n, r: set(),
                    inline=e.inline_same_self(deny=['_append_line',
                                                    'handle_finished_line']),
                    max_depth=3)
        fx = e.facts(g)
        where = m.qname
        rep.functions.add(where)
        for n in g.of_kind('stmt'):
            if n.ast is aug:
                rep.evaluations += 1
                st = fx.at(n) or frozenset()
                rep.check((True, 'self.EOD is None') in st, rule, where,
                          'only bytes before the end-of-data line count',
                          'bytes are counted towards the limit although '
                          'the end-of-data line may already have been seen: '
                          'pipelined commands after the message are charged '
                          'to it when they arrive in the same read',
                          loc=n.loc(), reason='under self.EOD is None')
            if isinstance(n.ast, ast.Raise) and \
                    'MessageTooBig' in ast.unparse(n.ast):
                rep.evaluations += 1
                st = fx.at(n) or frozenset()
                # (a zero-argument predicate of the reader stands for the
                # tests inside it, which are in the state too)
                dep = sorted(k for p, k in st if not (
                    'max_size' in k or 'self.size' in k or
                    k == 'self.EOD is None' or (
                        k.startswith('self._') and k.endswith('()'))))
                rep.check(not dep, rule, where,
                          'the limit is decided from the byte count alone',
                          'MessageTooBig is raised only under %s: the '
                          'decision depends on more than how many message '
                          'bytes have arrived' % dep, loc=n.loc(),
                          reason='guarded by size / max_size only')
    # (c) the verdict is given nowhere else: a MessageTooBig raised outside
    #     the counting methods is decided on bytes that were not yet cut
    #     into lines - what follows the end-of-data line in the same read
    #     (pipelined commands, the next transaction) is charged to the message
    for mname, m in sorted(c.methods.items()):
        if mname in counters:
            continue
        parents = {}
        for x in ast.walk(m.node):
            for ch in ast.iter_child_nodes(x):
                parents[ch] = x
        for x in walk_own(m.node):
            if not (isinstance(x, ast.Raise) and x.exc is not None and
                    'MessageTooBig' in ast.unparse(x.exc)):
                continue
            rep.evaluations += 1
            tests, y = [], x
            while y in parents:
                par = parents[y]
                if isinstance(par, (ast.If, ast.While)) and \
                        y is not par.test:
                    tests.append(par.test)
                y = par
            other = sorted({ast.unparse(z) for t in tests
                            for z in ast.walk(t)
                            if (isinstance(z, ast.Name) and z.id != 'self')
                            or (isinstance(z, ast.Attribute) and
                                isinstance(z.value, ast.Name) and
                                z.value.id == 'self' and
                                z.attr not in ('size', 'max_size', 'EOD'))})
            prm = {a.arg for a in m.node.args.args}
            uncut = any(isinstance(z, ast.Call) and
                        isinstance(z.func, ast.Name) and
                        z.func.id == 'len' and z.args and
                        isinstance(z.args[0], ast.Name) and
                        z.args[0].id in prm
                        for t in tests for z in ast.walk(t))
            if other and not uncut:
                rep.unknown(rule, m.qname, 'MessageTooBig raised outside '
                            'the counting methods', 'the test that guards '
                            'it reads %s, which this rule does not follow'
                            % ', '.join(other), loc=m.loc(x))
                continue
            rep.check(not other, rule, m.qname,
                      'MessageTooBig raised outside the counting methods',
                      'the limit is applied to %s - bytes that have not '
                      'been cut into lines yet: what follows the '
                      'end-of-data line in the same read (pipelined '
                      'commands, the next transaction) counts as message '
                      'bytes, so a message under the limit is refused with '
                      '552 when it arrives in one burst and accepted when '
                      'it arrives command by command' % ', '.join(other),
                      loc=m.loc(x), reason='decided on self.size / '
                      'self.max_size only')
    if not counters:
        rep.bad(rule, READER, 'bytes are counted where they enter the '
                'message', 'no method of DataReader counts its argument '
                'into self.size: the limit cannot be tied to the message '
                'bytes', loc=c.loc() if hasattr(c, 'loc') else '')


# ---------------------------------------------------------------------- G7
def g7(e: Engine, rep: Report, rule: str):
    ctx = e.method_ctx(SERVER, 'handle')
    g = e.build(ctx, inline=e.inline_same_self(
        deny=['_handle_command', '_call_custom_handler', '_recv_command',
              '_encrypt_session']), max_depth=3)
    where = ctx.func.qname
    rep.functions.add(where)

    def dirty(n):
        if n.kind != 'call':
            return False
        nm = e.call_name(n)
        if nm == '_handle_command':
            return True
        if nm == 'send' and n.ast.args and \
                canon(n.ast.args[0], n.frame) == 'self.io':
            return not any(k.arg == 'flush' and
                           isinstance(k.value, ast.Constant) and
                           k.value.value for k in n.ast.keywords)
        return False

    def clean(n):
        if n.kind != 'call':
            return False
        nm = e.call_name(n)
        if nm == 'flush_send':
            return True
        return nm == 'send' and any(
            k.arg == 'flush' and isinstance(k.value, ast.Constant) and
            k.value.value for k in n.ast.keywords)
    ds = [n for n in g.nodes if dirty(n)]
    cs = [n for n in g.nodes if clean(n)]
    if not ds or not cs:
        rep.error('anchor vanished: reply / flush sites in Server.handle')
        return

    def step(n, label, st):
        # the command handler may have buffered replies even when it raised
        if n in ds:
            return True
        if n in cs:
            return False      # an attempted flush (it may fail: peer gone)
        return st
    rep.evaluations += 1
    pth = dataflow.typestate_witness(
        g, False, step,
        lambda n, st: st and (n is g.exit or n is g.raise_exit))
    rep.check(pth is None, rule, where,
              'the session never ends with unflushed replies',
              'Server.handle can return (or raise) while replies are still '
              'in the send buffer: whether the client ever sees them - the '
              'final 221/421 included - depends on whether more input '
              'happened to be buffered, i.e. on how its bytes were '
              'segmented', loc=ctx.func.loc(),
              reason='flush_send on every way out after a reply',
              witness=dataflow.render_path(pth, 16) if pth else None)


# ---------------------------------------------------------------------- G8
def g8(e: Engine, rep: Report, rule: str):
    n_r = 0
    for meth in ('buffered_recv', 'recv_line', 'recv_command', 'recv_reply',
                 'raw_recv'):
        m = e.p.lookup_method(IOC, meth)
        if m is None:
            continue
        ctx = Ctx(m, IOC)
        g = e.build(ctx, raises=lambda b, n, r: set())
        fx = e.facts(g)
        where = ctx.func.qname
        rep.functions.add(where)
        for n in g.of_kind('stmt'):
            if not isinstance(n.ast, ast.Raise):
                continue
            n_r += 1
            rep.evaluations += 1
            st = fx.at(n) or frozenset()
            # locals that stand for the whole buffer
            alias = {t.id for a in walk_own(m.node)
                     if isinstance(a, ast.Assign) and
                     isinstance(a.value, ast.Attribute) and
                     a.value.attr == 'recv_buffer'
                     for t in a.targets if isinstance(t, ast.Name)}
            import re as _re
            sized = _re.compile(r'len\((%s)(#\d+)?\)' % '|'.join(
                sorted(alias) or ['\0']))
            dep = sorted(k for p, k in st if 'recv_buffer' in k or
                         sized.search(k))
            rep.check(not dep, rule, where,
                      '`%s` does not depend on the amount buffered'
                      % ' '.join(ast.unparse(n.ast).split())[:40],
                      'the receive path fails under %s: how much sits in '
                      'recv_buffer depends on how the peer\'s bytes were '
                      'cut into reads (and on pipelining), so the same '
                      'stream is accepted or refused depending on its '
                      'segmentation' % dep, loc=n.loc(),
                      reason='condition is about the piece just received / '
                      'the line matched')
    if n_r < 2:
        rep.error('anchor vanished: raise sites in the IO receive path '
                  '(%d < 2)' % n_r)


# --------------------------------------------------------------------- G9
def g9(e: Engine, rep: Report, rule: str = 'G9'):
    """The receive buffer is handed back and forth between IO, the command
    reader and the DataReader by reading and assigning `io.recv_buffer`.  If
    that name is a property over several attributes (data + offset), then
    assigning it must define everything reading it depends on: the setter
    assigns every attribute the getter reads.  Otherwise a left-over
    assigned back after DATA is read through a stale offset - commands are
    swallowed or parsed from the middle of a line, depending on how much was
    pipelined."""
    n = 0
    for cq in [IOC] + list(e.p.subclasses(IOC)):
        c = e.p.classes.get(cq)
        if c is None:
            continue
        for name, setter in sorted(c.setters.items()):
            getter = c.methods.get(name)
            if getter is None or getter.kind != 'property':
                continue
            n += 1
            rep.evaluations += 1
            rep.functions.add(getter.qname)

            def self_attrs(fn, store):
                out = set()
                for x in ast.walk(fn.node):
                    if isinstance(x, ast.Attribute) and \
                            isinstance(x.value, ast.Name) and \
                            x.value.id == 'self' and \
                            isinstance(x.ctx, ast.Store if store
                                       else ast.Load):
                        out.add(x.attr)
                return out
            reads = {a for a in self_attrs(getter, False)
                     if a not in c.methods}
            writes = self_attrs(setter, True)
            missing = sorted(reads - writes)
            rep.check(not missing, rule, setter.qname,
                      'assigning `%s` defines everything reading it uses'
                      % name,
                      'the `%s` property is computed from self.%s but its '
                      'setter leaves self.%s as it was: a value assigned to '
                      '`%s` (the left-over handed back after DATA) is not '
                      'what is read from it next - input is lost or read '
                      'from the middle of a line' % (
                          name, ', self.'.join(sorted(reads)),
                          ', self.'.join(missing), name),
                      loc=setter.loc(), reason='setter assigns %s'
                      % sorted(reads))
    if n == 0:
        rep.ok(rule, IOC, 'the receive buffer is a plain attribute',
               reason='no property stands between its writers and readers',
               nontrivial=False)


# --------------------------------------------------------------------- G10
UNIVERSAL_SPLITTERS = {'splitlines', 'readlines', 'readline'}


def g10(e: Engine, rep: Report, rule: str):
    import re as _re
    from .. import regexast as rx
    sc = rx._consts()
    n = 0
    mod = 'slimta.smtp.datareader'
    for f in e.p.functions.values():
        if f.module.name != mod:
            continue
        rep.functions.add(f.qname)
        for c in walk_own(f.node):
            if not (isinstance(c, ast.Call) and
                    isinstance(c.func, ast.Attribute)):
                continue
            if c.func.attr in UNIVERSAL_SPLITTERS:
                n += 1
                rep.evaluations += 1
                rep.check(False, rule, f.qname,
                          '`%s`' % ' '.join(ast.unparse(c).split())[:50],
                          '%s() cuts at a bare CR as well as at LF / CRLF: '
                          'a body line `x<CR>.<CRLF>` is split into two '
                          'lines, the second of which is the end-of-data '
                          'mark - the message ends early and the rest of '
                          'the body is executed as commands'
                          % c.func.attr, loc=f.loc(c))
            if c.func.attr in ('find', 'index', 'split', 'partition',
                               'rfind', 'rindex', 'rpartition') and \
                    c.args and isinstance(c.args[0], ast.Constant) and \
                    c.args[0].value in (b'\n', b'\r\n'):
                n += 1
                rep.evaluations += 1
                rep.ok(rule, f.qname, 'line cutter `%s`' % ' '.join(
                    ast.unparse(c).split())[:40], loc=f.loc(c),
                    reason='cuts at a literal LF')
            if c.func.attr in ('finditer', 'findall', 'split') and \
                    isinstance(c.func.value, ast.Name):
                got = rx.module_pattern(e, mod, c.func.value.id)
                if got is None:
                    continue
                n += 1
                rep.evaluations += 1
                items = [it for it in rx.parse(got[0], got[1])
                         if it[0] != sc.AT]
                last = items[-1] if items else None
                ok = last is not None and last[0] == sc.LITERAL and \
                    last[1] == 10
                if c.func.attr == 'split':
                    # a separator pattern: may not match a bare CR
                    ok = last is not None and 13 not in (
                        rx.charset(last, got[1]) or {13}) or ok
                rep.check(ok, rule, f.qname,
                          'line cutter %s ends in LF' % c.func.value.id,
                          'the pattern %s (%r) the stream is cut with does '
                          'not end in a literal LF: lines can end somewhere '
                          'else than the client\'s line ends, so the '
                          'end-of-data mark is found (or missed) inside a '
                          'line' % (c.func.value.id, got[0]), loc=f.loc(c),
                          reason='last item of the pattern is LF')
    if n < 1:
        rep.unknown(rule, mod, 'line cutter of the data reader',
                    'cannot see how the data reader cuts the stream into '
                    'lines (no module pattern used with finditer / '
                    'findall / split)', loc=None)


# --------------------------------------------------------------------- G11
def g11(e: Engine, rep: Report, rule: str = 'G11'):
    ctx = e.method_ctx(IOC, 'recv_line')
    g = e.build(ctx, raises=lambda b, n, r: set(),
                inline=e.inline_same_self(deny=['buffered_recv',
                                                'raw_recv']), max_depth=3)
    where = ctx.func.qname
    rep.functions.add(where)
    rets = [n for n in g.of_kind('stmt') if isinstance(n.ast, ast.Return)
            and n.frame is g.entry.frame and n.ast.value is not None and
            not (isinstance(n.ast.value, ast.Constant) and
                 n.ast.value.value is None)]
    if not rets:
        rep.unknown(rule, where, 'lines handed out are consumed',
                    'recv_line returns no value', loc=ctx.func.loc())
        return
    nul = common.Nullness(g, e)
    fxg = e.facts(g)

    def step(n, label, st0):
        st, ns = st0
        if isinstance(label, tuple):
            return st0
        ns = nul.step(n, label, ns)
        if ns == 'infeasible':
            return None
        if n.kind == 'stmt' and isinstance(n.ast, ast.Assign):
            v = n.ast.value
            if isinstance(v, ast.Call) and isinstance(v.func, ast.Attribute) \
                    and v.func.attr in ('match', 'search', 'find', 'index'):
                st = False                 # a new candidate line
            if isinstance(v, ast.Call) and isinstance(v.func, ast.Attribute) \
                    and v.func.attr == 'partition':
                st = False
            if any(path_of(t, n.frame) == 'self.recv_buffer'
                   for t in n.ast.targets) and isinstance(v, ast.Subscript) \
                    and isinstance(v.slice, ast.Slice) and \
                    v.slice.lower is not None:
                st = True
            if any(path_of(t, n.frame) == 'self.recv_buffer'
                   for t in n.ast.targets) and isinstance(v, ast.Name) and \
                    _cut_by_partition(g, fxg, n):
                st = True
        return (st, ns)
    for r in rets:
        rep.evaluations += 1
        w = dataflow.typestate_witness(
            g, (False, frozenset()), step,
            lambda n, st, r=r: n is r and not st[0])
        rep.check(w is None, rule, where,
                  '`%s`: the line was taken off recv_buffer' % ' '.join(
                      ast.unparse(r.ast).split())[:40],
                  'recv_line returns a line without having removed it from '
                  'recv_buffer (the consumed prefix is only remembered by '
                  'an offset): DataReader.from_recv_buffer and the STARTTLS '
                  'discard take recv_buffer for the unconsumed input, so '
                  'the DATA line itself is read back as message content and '
                  'bytes after the end of data are skipped', loc=r.loc(),
                  reason='recv_buffer = <slice past the match> on every path',
                  witness=dataflow.render_path(w, 12) if w else None)


# --------------------------------------------------------------------- G12
def g12(e: Engine, rep: Report, rule: str = 'G12'):
    from .c05 import CONTENT_REWRITERS
    n = 0
    for meth in ('raw_recv', 'buffered_recv'):
        m = e.p.lookup_method(IOC, meth)
        if m is None:
            continue
        n += 1
        rep.functions.add(m.qname)
        for x in ast.walk(m.node):
            if isinstance(x, ast.Call) and \
                    isinstance(x.func, ast.Attribute) and \
                    x.func.attr in CONTENT_REWRITERS:
                rep.evaluations += 1
                rep.bad(rule, m.qname, '`%s`' % ' '.join(
                    ast.unparse(x).split())[:50],
                    '%s rewrites what a single read returned (%s): a '
                    'sequence the rewrite looks for can be cut between two '
                    'reads, so the bytes the session sees depend on how '
                    'the stream was segmented' % (meth, x.func.attr),
                    loc=m.loc(x))
    rep.evaluations += 1
    if n < 2:
        rep.error('anchor vanished: IO.raw_recv / buffered_recv')
    else:
        rep.ok(rule, IOC, 'received bytes are handed on unchanged',
               reason='no rewriting call in raw_recv / buffered_recv',
               nontrivial=False)
