"""C17 - replies survive the wire (structural part only).

The byte-level round trip of arbitrary reply texts under all segmentations is
a value-level statement and is NOT decided.  Decided are the structural facts
it rests on:

W1 the enhanced-status class is derived from the reply code: every string the
   enhanced_status_code getter returns starts with the first character of
   self._code
W2 writer/reader agreement on the framing of a reply line: what
   IO.send_reply writes between code and text and at the end of a line is
   what reply_line_pattern (regex syntax tree) accepts there; the
   continuation marker the writer uses for non-final lines is the one the
   parser tests for, and the marker of the final line is not
W3 malformed input ends in BadReply: a line that is no reply line, a code
   that differs within one reply and undecodable text each reach
   `raise BadReply`; no other exception class raised below recv_reply
   escapes it; every code the parser yields passes Reply.code (= C11 N8)
W4 the parser neither spins nor hangs on buffered data: every trip round the
   scanning loop moves the scan position past a matched, non-empty line (or
   ends the scan); every trip round the outer loop reads more input
W5 exact consumption: every recorded line is consumed before a refill /
   return (= C10 F6), only whole lines are consumed (= C09 G2), one reply per
   Reply.recv (= C10 F7)
"""
from __future__ import annotations

import ast

from ..engine import Engine
from ..report import Report
from ..facts import path_of, canon, atoms_of_test, holds
from ..model import walk_own
from .. import dataflow
from .. import regexast as rx
from . import common, c09, c10, c11

IOC = 'slimta.smtp.io.IO'
REPLY = 'slimta.smtp.reply.Reply'
BADREPLY = 'slimta.smtp.BadReply'


def run(e: Engine, rep: Report):
    rep.rule('W1', 'every non-None return of Reply.enhanced_status_code is '
             "'.'.join((c, ...)) with c bound to self._code[0]")
    rep.rule('W2', 'IO.send_reply: separator constants and line terminator '
             'are accepted by reply_line_pattern at those positions; '
             'non-final lines carry the continuation marker recv_reply tests '
             'for, the final line a different one')
    rep.rule('W3', 'recv_reply: non-reply line, conflicting code and '
             'UnicodeDecodeError each lead to `raise BadReply`; explicit '
             'raises escaping recv_reply are BadReply / ConnectionLost only; '
             'parser codes are included in code_pattern')
    rep.rule('W4', 'recv_reply: the scan position is re-assigned on every '
             'trip of the inner loop, to None or to the end of a match of a '
             'pattern that cannot match the empty string; every trip of the '
             'outer loop calls buffered_recv')
    rep.rule('W5', 'recorded lines are consumed, only whole lines are '
             'consumed, one reply per Reply.recv (= F6, G2, F7)')
    rep.not_decided += [
        'equality of (code, text) after the round trip for all texts and '
        'segmentations (value-level: line splitting of the message by '
        'line_pattern, CRLF normalisation, UTF-8 round trip)',
        'that a pipelined successor is left byte-identical (follows from W5 '
        'only structurally)']
    w1(e, rep)
    w2(e, rep)
    w3(e, rep)
    w4(e, rep)
    sub = Report(rep.prop, rep.tier, rep.repo)
    c10.f6(e, sub)
    c10.f7(e, sub)
    for o in sub.obls:
        rep.add('W5', o.where, o.text, o.status, o.what, o.loc, o.witness,
                o.nontrivial, o.reason)
    rep.errors += sub.errors
    rep.evaluations += sub.evaluations
    rep.functions |= sub.functions
    rep.rule('W6', 'send_reply cuts the text into wire lines at LF '
             '(optional CR) only: no splitter with a larger boundary set')
    w6(e, rep)
    rep.rule('W7', 'MULTILINE patterns of the reply modules have no repeat '
             'that can consume LF')
    w7(e, rep)
    rep.rule('W8', 'derived state of Reply: an attribute that a property '
             'getter fills from other attributes (a memo of the rendered '
             'text) is written by every method that writes one of those '
             'attributes - copy() included (a reply that is re-populated '
             'after it was read would go out with the old text / ESC)')
    w8(e, rep)
    rep.rule('W9', 'what the message getter renders is a fixed point of the '
             'message setter: wherever the rendered text starts with the '
             'enhanced status code, the code is followed by a separator '
             'that message_esc_pattern (regex syntax tree) takes after its '
             'code group - a bare code would be read back as text')
    w9(e, rep)
    rep.rule('W10', 'one wire line per line of the text: send_reply (and '
             'its helpers) add to the line list one match of the line '
             'pattern at a time - no extend / insert / += that could put '
             'several wire lines in the place of one (the reader joins '
             'wire lines with CRLF: a folded line comes back broken)')
    w10(e, rep)
    rep.rule('W11', 'the text goes out with the enhanced status code of '
             'the property: the message getter takes the ESC from '
             'self.enhanced_status_code (which ties the class digit to the '
             'reply code, W1), never from the stored tuple self._esc')
    w11(e, rep)
    rep.rule('W12', 'a reply is judged bad on whole lines only: every '
             '`raise BadReply` of recv_reply lies where a pattern ending in '
             'LF has matched on this path (or in the arm that caught the '
             'decoding error of the assembled reply) - a verdict on what has '
             'arrived of a line so far depends on how the stream was cut')
    w12(e, rep)
    rep.rule('W13', 'the text is cut into wire lines with its terminator '
             'appended on every path: what send_reply hands the line '
             'pattern ends in a line break the writer itself added (a text '
             'that already ends in a line break has an empty last line - '
             'terminating it only "when needed" drops that line)')
    w13(e, rep)
    rep.rule('W14', 'which line of a reply is the last is a matter of '
             'position: the reply writer / reader never compare line data '
             'by identity (`is` between two values neither of which is a '
             'singleton) - CPython shares the empty and all one-byte bytes '
             'objects, so an inner line equal to the last one is written '
             'with the last-line separator and ends the reply early')
    w14(e, rep)
    rep.rule('W15', 'no way round the line cutter: the text of a reply '
             'reaches the socket only as the lines the line pattern cut it '
             'into - a send of the text itself (a one-line fast path) is '
             'guarded by a test for a bare LF, the line break recv_reply '
             'also honours (a test for CRLF alone lets "a\\nb" out as one '
             'physical line; the reader ends the reply at the LF and takes '
             'the rest for the next reply)')
    w15(e, rep)
    rep.floor('W2', 4, 'framing agreement obligations')


# --------------------------------------------------------------------- W13
def w13(e: Engine, rep: Report):
    ctx = e.method_ctx(IOC, 'send_reply')
    g = e.build(ctx, raises=lambda b, n, r: set(),
                inline=e.inline_same_self(deny=['buffered_send']),
                max_depth=3)
    where = ctx.func.qname
    rep.functions.add(where)
    mod = ctx.func.module

    def term(x, fr):
        # a line-break literal (or a module constant that is one)
        if isinstance(x, ast.Name):
            x = getattr(mod, 'globals', {}).get(x.id, x)
        return isinstance(x, ast.Constant) and \
            isinstance(x.value, bytes) and x.value in (b'\r\n', b'\n')

    def terminated(x, fr, at, depth=0):
        """True: `x` (evaluated at node `at`) ends in a line break the
        writer appended on every path; False: on some path it does not;
        None: not read"""
        if depth > 5:
            return None
        if isinstance(x, ast.BinOp) and isinstance(x.op, ast.Add):
            if term(x.right, fr):
                return True
            return terminated(x.right, fr, at, depth + 1)
        if isinstance(x, ast.Call) and isinstance(x.func, ast.Attribute) \
                and x.func.attr == 'join' and x.args and \
                isinstance(x.args[0], (ast.Tuple, ast.List)) and \
                x.args[0].elts and \
                isinstance(x.func.value, ast.Constant) and \
                x.func.value.value == b'':
            last = x.args[0].elts[-1]
            return True if term(last, fr) else terminated(
                last, fr, at, depth + 1)
        if isinstance(x, ast.Name):
            q = path_of(x, fr)
            defs = common.reaching_defs(g, at, q)
            if not defs or any(d is None for d in defs):
                return None
            res = []
            for d in defs:
                a = d.ast
                if isinstance(a, ast.AugAssign):
                    res.append(True if isinstance(a.op, ast.Add) and
                               term(a.value, d.frame) else
                               (terminated(a.value, d.frame, d, depth + 1)
                                if isinstance(a.op, ast.Add) else None))
                elif isinstance(a, ast.Assign):
                    res.append(terminated(a.value, d.frame, d, depth + 1))
                else:
                    res.append(None)
            if any(r is False for r in res):
                return False
            return True if all(r is True for r in res) else None
        if isinstance(x, ast.Call) and isinstance(x.func, ast.Attribute) \
                and x.func.attr in ('encode', 'decode'):
            return False          # the text as it was given
        if isinstance(x, (ast.Attribute, ast.Constant)):
            return False
        return None
    n = 0
    for c in g.calls():
        f = c.ast.func
        if not (isinstance(f, ast.Attribute) and
                f.attr in ('finditer', 'findall') and
                isinstance(f.value, ast.Name) and c.ast.args):
            continue
        if c09._regex_ends_in_newline(e, mod.name, f.value.id) is not True:
            continue
        n += 1
        rep.evaluations += 1
        t = terminated(c.ast.args[0], c.frame, c)
        if t is None:
            rep.unknown('W13', where, 'text handed to the line pattern',
                        'cannot read how `%s` is terminated' % ' '.join(
                            ast.unparse(c.ast.args[0]).split())[:50],
                        loc=c.loc())
            continue
        rep.check(t, 'W13', where, 'the text is terminated on every path '
                  'before it is cut into lines',
                  'send_reply cuts `%s` into lines with a pattern that needs '
                  'a line break after each line, but appends that line '
                  'break on some paths only: a text that ends in a line '
                  'break loses its empty last line (it comes back without '
                  'the line break), a text that needed one keeps it - the '
                  'two no longer differ on the wire' % ' '.join(
                      ast.unparse(c.ast.args[0]).split())[:50], loc=c.loc(),
                  reason='terminator appended unconditionally')
    if n == 0:
        # (a writer that cuts with split() has no such obligation)
        rep.ok('W13', where, 'no pattern-based cut of the text',
               reason='send_reply does not use a line pattern',
               nontrivial=False)


# --------------------------------------------------------------------- W12
def w12(e: Engine, rep: Report):
    ctx = e.method_ctx(IOC, 'recv_reply')
    g = e.build(ctx, raises=lambda b, n, r: set(),
                inline=e.inline_same_self(deny=['buffered_recv',
                                                'raw_recv']), max_depth=3)
    fx = e.facts(g)
    where = ctx.func.qname
    rep.functions.add(where)
    raises = [n for n in g.of_kind('stmt') if isinstance(n.ast, ast.Raise)
              and n.ast.exc is not None and
              'BadReply' in ast.unparse(n.ast.exc)]
    if not raises:
        rep.error('anchor vanished: raise BadReply in recv_reply')
        return
    # locals that hold a match of a whole-line pattern
    cands = []
    for s2 in g.of_kind('stmt'):
        if not (isinstance(s2.ast, ast.Assign) and len(s2.ast.targets) == 1
                and isinstance(s2.ast.targets[0], ast.Name) and
                isinstance(s2.ast.value, ast.Call)):
            continue
        pats = c09._match_patterns(g, fx, s2.ast.targets[0], s2.frame)
        if pats and all(c09._regex_ends_in_newline(
                e, ctx.func.module.name, pn) is True for pn in pats):
            direct = isinstance(s2.ast.value.func, ast.Attribute) and \
                s2.ast.value.func.attr in ('match', 'search', 'fullmatch')
            cands.append((path_of(s2.ast.targets[0], s2.frame), s2, direct))
    before = dataflow.must_events_before(
        g, lambda n: ['m%d' % n.id] if any(n is c[1] for c in cands)
        else [])
    for r in raises:
        rep.evaluations += 1
        in_decode_arm = any(
            sc.kind == 'handler' and any(
                t.endswith('UnicodeDecodeError') or t.endswith('UnicodeError')
                for t in (sc.data.get('node').extra.get('types', [])
                          if sc.data.get('node') is not None else []))
            for sc in r.scopes)
        st = fx.at(r)
        ok = in_decode_arm
        for mv, s2, direct in cands:
            if ok:
                break
            if holds(st, (True, mv)) or holds(st, (False, mv + ' is None')):
                ok = True
            elif not direct and ('m%d' % s2.id) in (before.get(r.id) or ()):
                # handed back by a helper only where it matched
                ok = True
        rep.check(ok, 'W12', where, '`%s` on a whole line' % r.text(50),
                  'recv_reply gives up with BadReply on a path where no '
                  'pattern ending in LF has matched: the verdict is made on '
                  'the part of a line that has arrived so far, so a reply '
                  'that is cut at an unlucky place is refused although the '
                  'same bytes in one piece are accepted', loc=r.loc(),
                  reason='dominated by a whole-line match / decode arm')


# ---------------------------------------------------------------------- W1
def w1(e: Engine, rep: Report):
    c = e.p.cls(REPLY)
    getter = None
    for f in e.p.functions.values():
        if f.cls is c and f.name == 'enhanced_status_code' and \
                f.kind == 'property':
            getter = f
    if getter is None:
        rep.error('anchor vanished: Reply.enhanced_status_code getter')
        return
    fn = getter.node
    where = getter.qname
    rep.functions.add(where)

    def is_code(x, fnode, seen=()):
        if ast.unparse(x) in ('self._code', 'self.code'):
            return True
        if isinstance(x, ast.Name) and x.id not in seen:
            defs = [n.value for n in walk_own(fnode)
                    if isinstance(n, ast.Assign) and any(
                        isinstance(t, ast.Name) and t.id == x.id
                        for t in n.targets)]
            return bool(defs) and all(is_code(d, fnode, seen + (x.id,))
                                      for d in defs)
        return False

    def is_code0(x, seen=(), fnode=None):
        """x evaluates to self._code[0] (or falsy when there is no code)"""
        fnode = fnode or fn
        if isinstance(x, ast.Constant) and not x.value:
            return True          # "no class": the caller returns None for it
        if isinstance(x, ast.Subscript) and is_code(x.value, fnode) and \
                isinstance(x.slice, ast.Constant) and x.slice.value == 0:
            return True
        if isinstance(x, ast.BoolOp) and isinstance(x.op, ast.And):
            return is_code0(x.values[-1], seen, fnode)
        if isinstance(x, ast.Name) and x.id not in seen:
            defs = [n.value for n in walk_own(fnode)
                    if isinstance(n, ast.Assign) and any(
                        isinstance(t, ast.Name) and t.id == x.id
                        for t in n.targets)]
            return bool(defs) and all(is_code0(d, seen + (x.id,), fnode)
                                      for d in defs)
        # a helper of the class that returns the class digit (or None)
        if isinstance(x, ast.Call) and isinstance(x.func, ast.Attribute) and \
                isinstance(x.func.value, ast.Name) and \
                x.func.value.id == 'self' and not x.args and \
                x.func.attr not in seen:
            m = e.p.lookup_method(REPLY, x.func.attr)
            if m is not None:
                rets = [r for r in walk_own(m.node)
                        if isinstance(r, ast.Return)]
                return bool(rets) and all(
                    r.value is None or is_code0(
                        r.value, seen + (x.func.attr,), m.node)
                    for r in rets)
        return False
    n_ret = 0
    for n in walk_own(fn):
        if not isinstance(n, ast.Return) or n.value is None or (
                isinstance(n.value, ast.Constant) and n.value.value is None):
            continue
        n_ret += 1
        rep.evaluations += 1
        v = n.value
        first = None
        if isinstance(v, ast.Call) and isinstance(v.func, ast.Attribute) \
                and v.func.attr == 'join' and v.args and \
                isinstance(v.args[0], (ast.Tuple, ast.List)) and \
                v.args[0].elts:
            first = v.args[0].elts[0]
        elif isinstance(v, ast.BinOp) and isinstance(v.op, ast.Add):
            x = v
            while isinstance(x, ast.BinOp) and isinstance(x.op, ast.Add):
                x = x.left
            first = x
        rep.check(first is not None and is_code0(first), 'W1', where,
                  'returned status `%s` starts with the class of the code'
                  % ' '.join(ast.unparse(v).split())[:50],
                  'the enhanced status code returned here does not take its '
                  'class digit from self._code[0]: a 5yz reply can carry a '
                  '2.x.x / 4.x.x status (what a peer sent or an earlier '
                  'value is passed through)', loc=getter.loc(n),
                  reason='first component is self._code[0]')
    if n_ret < 1:
        rep.error('anchor vanished: returns of enhanced_status_code')


# ---------------------------------------------------------------------- W2
def w2(e: Engine, rep: Report):
    pat = rx.module_pattern(e, 'slimta.smtp.io', 'reply_line_pattern')
    ctx = e.method_ctx(IOC, 'send_reply')
    rctx = e.method_ctx(IOC, 'recv_reply')
    if pat is None:
        rep.error('anchor vanished: reply_line_pattern')
        return
    where = ctx.func.qname
    rep.functions.add(where)
    sc = rx._consts()
    items = list(rx.parse(pat[0], pat[1]))
    # which groups are separator / code: from recv_reply's use of them
    sep_g = code_g = None
    marker = None
    pfn = common.reply_parser_func(e) or rctx.func
    # (the match may be made in a helper and taken apart in recv_reply)
    scan = [pfn.node] + ([rctx.func.node] if rctx.func is not pfn else [])
    gv = {}
    for fnode in scan:
        gv.update(rx.group_vars(fnode))
    code_g = gv.get('code')
    if code_g is None:
        # the variable the running code is assigned from
        for fnode in scan:
            for a in walk_own(fnode):
                if isinstance(a, ast.Assign) and any(
                        isinstance(t, ast.Name) and t.id == 'code'
                        for t in a.targets) and \
                        isinstance(a.value, ast.Name):
                    code_g = gv.get(a.value.id, code_g)
    for n in [x for fnode in scan for x in walk_own(fnode)]:
        if isinstance(n, ast.Compare) and len(n.ops) == 1 and \
                isinstance(n.comparators[0], ast.Constant) and \
                isinstance(n.comparators[0].value, bytes) and \
                len(n.comparators[0].value) == 1:
            gn = rx.group_of(n.left, gv)
            if gn is not None:
                sep_g = gn
                marker = n.comparators[0].value
    if sep_g is None or code_g is None or marker is None:
        rep.error('anchor vanished: separator / code groups in recv_reply')
        return
    sep_items = rx.find_group(items, sep_g)
    sep_set = rx.fixed_charsets(sep_items, pat[1]) if sep_items else None
    if sep_items and len(sep_items) == 1 and \
            sep_items[0][0] in (sc.MAX_REPEAT, sc.MIN_REPEAT):
        lo, hi, sub = sep_items[0][1]
        rep.evaluations += 1
        mod = e.p.modules['slimta.smtp.io']
        rep.check(lo >= 1, 'W2', 'slimta.smtp.io.reply_line_pattern',
                  'the separator group matches exactly one character',
                  'the separator group of reply_line_pattern (%r) can match '
                  'nothing: the three digits are no longer delimited, so '
                  '`2500 ok` or `250x` is read as code 250 with the rest '
                  'as text instead of being refused as a bad reply'
                  % pat[0], loc='%s:%d' % (mod.relpath, pat[2].lineno),
                  reason='one separator character is required')
        if lo == 1 and hi == 1:
            sep_set = rx.fixed_charsets(list(sub), pat[1])
        elif lo == 0:
            # judged above; the remaining obligations use the class itself
            sep_set = rx.fixed_charsets(list(sub), pat[1])
    # terminator alternatives of the pattern: trailing items after the
    # outermost text group
    tail = []
    for it in reversed(items):
        if it[0] == sc.SUBPATTERN:
            break
        tail.insert(0, it)

    def accepts_tail(data: bytes) -> bool:
        """does the tail (e.g. \\r?\\n) match exactly `data`?"""
        try:
            import re as _re
            # rebuild the tail as a pattern: only literals / optional
            # literals are supported
            parts = []
            for op, av in tail:
                if op == sc.LITERAL:
                    parts.append(_re.escape(bytes([av])))
                elif op in (sc.MAX_REPEAT, sc.MIN_REPEAT) and \
                        len(av[2]) == 1 and av[2][0][0] == sc.LITERAL:
                    lo, hi = av[0], av[1]
                    q = b'{%d,%s}' % (lo, b'' if hi == sc.MAXREPEAT
                                      else str(hi).encode())
                    parts.append(_re.escape(bytes([av[2][0][1]])) + q)
                else:
                    return None
            return _re.fullmatch(b''.join(parts), data) is not None
        except Exception:
            return None
    # the lines the writer composes: b''.join((code, SEP, line, TERM))
    writes = []
    for n in walk_own(ctx.func.node):
        if isinstance(n, ast.Call) and isinstance(n.func, ast.Attribute) \
                and n.func.attr == 'join' and n.args and \
                isinstance(n.args[0], (ast.Tuple, ast.List)) and \
                len(n.args[0].elts) >= 4:
            # (code, SEP, <text parts...>, TERM)
            writes.append(n)
    if len(writes) < 2 and sep_set is not None and len(sep_set) == 1 and \
            _w2_sequence_shape(e, rep, ctx, where, sep_set, marker,
                               accepts_tail):
        writes = None
    if writes is not None and len(writes) < 2 and sep_set is not None and \
            len(sep_set) == 1 and _w2_flag_shape(
                e, rep, ctx, where, sep_set, marker, accepts_tail):
        writes = None
    if writes is not None and (len(writes) < 2 or sep_set is None or
                               len(sep_set) != 1):
        rep.error('anchor vanished: composed reply lines in send_reply '
                  '(%d) / separator class' % len(writes))
        return
    if writes is None:
        writes = []
    finals = set()
    for w in writes:
        code_e, sep_e = w.args[0].elts[:2]
        term_e = w.args[0].elts[-1]
        # written once per line of a loop / comprehension: a non-final line
        in_loop = any(isinstance(p, (ast.For, ast.ListComp,
                                     ast.GeneratorExp)) and any(
            x is w for x in ast.walk(p)) for p in walk_own(ctx.func.node))
        rep.evaluations += 1
        ok = isinstance(sep_e, ast.Constant) and \
            isinstance(sep_e.value, bytes) and len(sep_e.value) == 1 and \
            sep_e.value[0] in sep_set[0]
        rep.check(ok, 'W2', where,
                  'separator %s is one the parser accepts'
                  % ast.unparse(sep_e),
                  'send_reply puts %s between code and text, which '
                  'reply_line_pattern does not accept there: the library '
                  'cannot parse its own reply' % ast.unparse(sep_e),
                  loc=ctx.func.loc(w), reason='member of the separator '
                  'class of reply_line_pattern')
        rep.evaluations += 1
        t_ok = isinstance(term_e, ast.Constant) and \
            isinstance(term_e.value, bytes) and \
            accepts_tail(term_e.value) is True
        rep.check(t_ok, 'W2', where,
                  'line terminator %s is one the parser accepts'
                  % ast.unparse(term_e),
                  'send_reply ends a reply line with %s, which the tail of '
                  'reply_line_pattern does not match: the parser waits for '
                  'more input or reports a bad reply' % ast.unparse(term_e),
                  loc=ctx.func.loc(w), reason='matches the terminator of '
                  'reply_line_pattern')
        if ok:
            rep.evaluations += 1
            is_marker = sep_e.value == marker
            if in_loop:
                rep.check(is_marker, 'W2', where,
                          'non-final lines carry the continuation marker',
                          'a non-final line is written with %r but the '
                          'parser continues a reply only after %r: a '
                          'multi-line reply is cut after its first line and '
                          'the rest is taken for the next reply'
                          % (sep_e.value, marker), loc=ctx.func.loc(w),
                          reason='separator == %r' % marker)
            else:
                finals.add(sep_e.value)
                rep.check(not is_marker, 'W2', where,
                          'the final line does not carry the continuation '
                          'marker', 'the last line of a reply is written '
                          'with the continuation marker %r: the parser '
                          'waits for a line that never comes' % marker,
                          loc=ctx.func.loc(w),
                          reason='separator != %r' % marker)
    # the code the writer emits is a validated Reply.code (3 characters),
    # the parser's code group has the same length
    code_items = rx.find_group(items, code_g)
    cs = rx.fixed_charsets(code_items, pat[1]) if code_items else None
    cp = rx.module_pattern(e, 'slimta.smtp.reply', 'code_pattern')
    cw = rx.fixed_charsets(list(rx.parse(cp[0], cp[1])), cp[1]) if cp \
        else None
    rep.evaluations += 1
    rep.check(cs is not None and cw is not None and len(cs) == len(cw),
              'W2', where, 'written and parsed codes have the same length',
              'Reply.code validates %s characters, the parser expects %s'
              % (len(cw) if cw else '?', len(cs) if cs else '?'),
              loc=ctx.func.loc(), reason='%d characters on both sides'
              % (len(cs) if cs else 0))


def _reply_writers(e, ctx):
    """send_reply, the module-level functions it calls by name and the
    private methods of its class it calls through self / cls / the class"""
    mod = ctx.func.module
    fns = [ctx.func.node]
    cname = ctx.func.cls.name if ctx.func.cls is not None else None
    for x in walk_own(ctx.func.node):
        if isinstance(x, ast.Call) and isinstance(x.func, ast.Name):
            for st in mod.tree.body:
                if isinstance(st, ast.FunctionDef) and st.name == x.func.id \
                        and st not in fns:
                    fns.append(st)
        elif isinstance(x, ast.Call) and isinstance(x.func, ast.Attribute) \
                and isinstance(x.func.value, ast.Name) and \
                x.func.value.id in ('self', 'cls', cname) and \
                x.func.attr.startswith('_') and ctx.func.cls is not None:
            m = e.p.lookup_method(ctx.func.cls.qname, x.func.attr)
            if m is not None and m.node not in fns:
                fns.append(m.node)
    return fns


def _w2_sequence_shape(e, rep, ctx, where, sep_set, marker, accepts_tail):
    """send_reply spelled with a separator sequence:
        separators = [CONT] * (len(lines) - 1) + [LAST]
        ... code + separator + line + TERM for separator, line in
            zip(separators, lines)
    (composition by `+` or by b''.join of a tuple; in send_reply itself or in
    a module-level helper it calls).  True when read and judged."""
    mod = ctx.func.module
    fns = _reply_writers(e, ctx)

    def const(x):
        if isinstance(x, ast.Constant) and isinstance(x.value, bytes):
            return x.value
        if isinstance(x, ast.Name):
            g = getattr(mod, 'globals', {}).get(x.id)
            if isinstance(g, ast.Constant) and isinstance(g.value, bytes):
                return g.value
        return None
    class _LoopAsComp:
        # a `for sep, line in zip(seps, lines):` statement whose body adds
        # one composed line per trip, read like the comprehension it is
        def __init__(self, loop, elt):
            self.generators = [loop]
            self.elt = elt
            self.lineno = loop.lineno

    def loop_elt(loop):
        for st in loop.body:
            v = None
            if isinstance(st, ast.AugAssign) and isinstance(st.op, ast.Add):
                v = st.value
            elif isinstance(st, ast.Expr) and isinstance(st.value, ast.Call) \
                    and isinstance(st.value.func, ast.Attribute) and \
                    st.value.func.attr in ('extend', 'append', 'write') and \
                    len(st.value.args) == 1:
                v = st.value.args[0]
            if isinstance(v, (ast.Tuple, ast.List)) and len(v.elts) >= 4:
                # pieces += (code, sep, line, CRLF): joined later with b''
                j = ast.Call(func=ast.Attribute(
                    value=ast.Constant(value=b''), attr='join',
                    ctx=ast.Load()), args=[v], keywords=[])
                return ast.copy_location(j, st)
            if v is not None:
                return v
        return None
    for fn in fns:
        comps = [c for c in ast.walk(fn)
                 if isinstance(c, (ast.GeneratorExp, ast.ListComp)) and
                 len(c.generators) == 1]
        for lp in ast.walk(fn):
            if isinstance(lp, ast.For) and loop_elt(lp) is not None:
                comps.append(_LoopAsComp(lp, loop_elt(lp)))
        for comp in comps:
            gen = comp.generators[0]
            if not (isinstance(gen.iter, ast.Call) and
                    isinstance(gen.iter.func, ast.Name) and
                    gen.iter.func.id == 'zip' and len(gen.iter.args) == 2 and
                    isinstance(gen.target, ast.Tuple) and
                    len(gen.target.elts) == 2 and
                    all(isinstance(t, ast.Name) for t in gen.target.elts)):
                continue
            # the composed line: flatten `a + b + c + d` / join((a, b, c, d))
            elt = comp.elt
            parts = []
            if isinstance(elt, ast.Call) and \
                    isinstance(elt.func, ast.Attribute) and \
                    elt.func.attr == 'join' and elt.args and \
                    isinstance(elt.args[0], (ast.Tuple, ast.List)):
                parts = list(elt.args[0].elts)
            else:
                x = elt
                while isinstance(x, ast.BinOp) and isinstance(x.op, ast.Add):
                    parts.insert(0, x.right)
                    x = x.left
                parts.insert(0, x)
            if len(parts) < 4:
                continue
            tnames = [t.id for t in gen.target.elts]
            sep_e = parts[1]
            if not (isinstance(sep_e, ast.Name) and sep_e.id in tnames):
                continue
            seq_arg = gen.iter.args[tnames.index(sep_e.id)]
            # the separator sequence: [A] * (...) + [B]
            seq = seq_arg
            if isinstance(seq, ast.Name):
                ds = [a.value for a in walk_own(fn)
                      if isinstance(a, ast.Assign) and any(
                          isinstance(t, ast.Name) and t.id == seq.id
                          for t in a.targets)]
                if len(ds) != 1:
                    continue
                seq = ds[0]
            if not (isinstance(seq, ast.BinOp) and
                    isinstance(seq.op, ast.Add) and
                    isinstance(seq.left, ast.BinOp) and
                    isinstance(seq.left.op, ast.Mult) and
                    isinstance(seq.right, ast.List) and
                    len(seq.right.elts) == 1):
                continue
            rep_l = seq.left.left if isinstance(seq.left.left, ast.List) \
                else seq.left.right
            count = seq.left.right if rep_l is seq.left.left \
                else seq.left.left
            if not (isinstance(rep_l, ast.List) and len(rep_l.elts) == 1 and
                    'len(' in ast.unparse(count) and
                    ast.unparse(count).replace(' ', '').endswith('-1')) \
                    and not ('len(' in ast.unparse(count) and
                             '- 1' in ast.unparse(count)):
                continue
            cont, last = const(rep_l.elts[0]), const(seq.right.elts[0])
            term = const(parts[-1])
            loc = '%s:%d' % (mod.relpath, comp.lineno)
            for which, val in (('continuation', cont), ('final', last)):
                rep.evaluations += 1
                rep.check(val is not None and len(val) == 1 and
                          val[0] in sep_set[0], 'W2', where,
                          '%s separator %r is one the parser accepts'
                          % (which, val),
                          'send_reply puts %r between code and text, which '
                          'reply_line_pattern does not accept there: the '
                          'library cannot parse its own reply' % (val,),
                          loc=loc, reason='member of the separator class of '
                          'reply_line_pattern')
            rep.evaluations += 1
            rep.check(term is not None and accepts_tail(term) is True, 'W2',
                      where, 'line terminator %r is one the parser accepts'
                      % (term,),
                      'send_reply ends a reply line with %r, which the tail '
                      'of reply_line_pattern does not match' % (term,),
                      loc=loc, reason='matches the terminator of '
                      'reply_line_pattern')
            rep.evaluations += 1
            rep.check(cont == marker, 'W2', where,
                      'non-final lines carry the continuation marker',
                      'a non-final line is written with %r but the parser '
                      'continues a reply only after %r' % (cont, marker),
                      loc=loc, reason='separator == %r' % marker)
            rep.evaluations += 1
            rep.check(last != marker, 'W2', where,
                      'the final line does not carry the continuation '
                      'marker', 'the last line of a reply is written with '
                      'the continuation marker %r: the parser waits for a '
                      'line that never comes' % marker, loc=loc,
                      reason='separator != %r' % marker)
            return True
    return False


def _w2_flag_shape(e, rep, ctx, where, sep_set, marker, accepts_tail):
    """send_reply spelled with one composition and a last-line flag:
        separator = LAST if is_last else CONT
        ... code + separator + line + TERM ...
    where the flag is `i == len(lines) - 1` for the enumerated position i
    (in send_reply itself or handed to a module-level helper it calls).
    True when read and judged."""
    mod = ctx.func.module
    top = ctx.func.node
    fns = _reply_writers(e, ctx)

    def once(fn, name):
        ds = [a.value for a in ast.walk(fn) if isinstance(a, ast.Assign)
              and any(isinstance(t, ast.Name) and t.id == name
                      for t in a.targets)]
        st = [y for y in ast.walk(fn) if isinstance(y, ast.Name) and
              y.id == name and isinstance(y.ctx, (ast.Store, ast.Del))]
        return ds[0] if len(ds) == 1 and len(st) == 1 else None

    def meaning(x):
        """'last' / 'notlast' for a test of the enumerated position against
        the last position of the same sequence, evaluated in send_reply"""
        if isinstance(x, ast.Name):
            v = once(top, x.id)
            return meaning(v) if v is not None else None
        if isinstance(x, ast.UnaryOp) and isinstance(x.op, ast.Not):
            m = meaning(x.operand)
            return {'last': 'notlast', 'notlast': 'last'}.get(m)
        if not (isinstance(x, ast.Compare) and len(x.ops) == 1):
            return None
        a, b, op = x.left, x.comparators[0], x.ops[0]

        def last_of(y):
            if isinstance(y, ast.Name):
                y = once(top, y.id)
            if isinstance(y, ast.BinOp) and isinstance(y.op, ast.Sub) and \
                    isinstance(y.right, ast.Constant) and \
                    y.right.value == 1 and isinstance(y.left, ast.Call) and \
                    isinstance(y.left.func, ast.Name) and \
                    y.left.func.id == 'len' and len(y.left.args) == 1:
                return ast.unparse(y.left.args[0])
            return None

        def index_of(y):
            if not isinstance(y, ast.Name):
                return None
            for c in ast.walk(top):
                tg = it = None
                if isinstance(c, ast.comprehension) or isinstance(c, ast.For):
                    tg, it = c.target, c.iter
                if isinstance(tg, ast.Tuple) and len(tg.elts) == 2 and \
                        isinstance(tg.elts[0], ast.Name) and \
                        tg.elts[0].id == y.id and isinstance(it, ast.Call) \
                        and isinstance(it.func, ast.Name) and \
                        it.func.id == 'enumerate' and len(it.args) == 1 and \
                        not it.keywords:
                    return ast.unparse(it.args[0])
            return None
        if isinstance(op, (ast.Eq, ast.NotEq)) and last_of(a) and \
                index_of(b):
            a, b = b, a
        seq_i, seq_l = index_of(a), last_of(b)
        if seq_i is None or seq_i != seq_l:
            return None
        if isinstance(op, ast.Eq):
            return 'last'
        if isinstance(op, (ast.NotEq, ast.Lt)):
            return 'notlast'
        return None

    def const(x):
        return x.value if isinstance(x, ast.Constant) and \
            isinstance(x.value, bytes) else None
    for fn in fns:
        for x in ast.walk(fn):
            parts = []
            if isinstance(x, ast.Call) and \
                    isinstance(x.func, ast.Attribute) and \
                    x.func.attr == 'join' and x.args and \
                    isinstance(x.args[0], (ast.Tuple, ast.List)):
                parts = list(x.args[0].elts)
            elif isinstance(x, ast.BinOp) and isinstance(x.op, ast.Add):
                y = x
                while isinstance(y, ast.BinOp) and isinstance(y.op, ast.Add):
                    parts.insert(0, y.right)
                    y = y.left
                parts.insert(0, y)
            if len(parts) < 4:
                continue
            sep_e = parts[1]
            if isinstance(sep_e, ast.Name):
                sep_e = once(fn, sep_e.id)
            if not (isinstance(sep_e, ast.IfExp) and
                    const(sep_e.body) is not None and
                    const(sep_e.orelse) is not None):
                continue
            test = sep_e.test
            if fn is not top:
                # the flag is a parameter of the helper: what send_reply
                # hands it
                neg = False
                if isinstance(test, ast.UnaryOp) and \
                        isinstance(test.op, ast.Not):
                    neg, test = True, test.operand
                params = [a.arg for a in fn.args.args]
                if not (isinstance(test, ast.Name) and test.id in params and
                        once(fn, test.id) is None and not any(
                            isinstance(y, ast.Name) and y.id == test.id and
                            isinstance(y.ctx, ast.Store)
                            for y in ast.walk(fn))):
                    continue
                calls = [c for c in ast.walk(top) if isinstance(c, ast.Call)
                         and ((isinstance(c.func, ast.Name) and
                               c.func.id == fn.name) or
                              (isinstance(c.func, ast.Attribute) and
                               c.func.attr == fn.name))]
                if len(calls) != 1:
                    continue
                c = calls[0]
                k = params.index(test.id)
                if isinstance(c.func, ast.Attribute) and not any(
                        ast.unparse(d).endswith('staticmethod')
                        for d in fn.decorator_list):
                    k -= 1               # bound: self / cls is not passed
                if k < 0:
                    continue
                arg = c.args[k] if k < len(c.args) and not any(
                    isinstance(a, ast.Starred) for a in c.args) else None
                for kw in c.keywords:
                    if kw.arg == test.id:
                        arg = kw.value
                m = meaning(arg) if arg is not None else None
                if neg:
                    m = {'last': 'notlast', 'notlast': 'last'}.get(m)
            else:
                m = meaning(test)
            if m is None:
                continue
            last, cont = (const(sep_e.body), const(sep_e.orelse)) \
                if m == 'last' else (const(sep_e.orelse), const(sep_e.body))
            term = const(parts[-1])
            loc = '%s:%d' % (mod.relpath, x.lineno)
            for which, val in (('continuation', cont), ('final', last)):
                rep.evaluations += 1
                rep.check(len(val) == 1 and val[0] in sep_set[0], 'W2',
                          where, '%s separator %r is one the parser accepts'
                          % (which, val),
                          'send_reply puts %r between code and text, which '
                          'reply_line_pattern does not accept there: the '
                          'library cannot parse its own reply' % (val,),
                          loc=loc, reason='member of the separator class of '
                          'reply_line_pattern')
            rep.evaluations += 1
            rep.check(term is not None and accepts_tail(term) is True, 'W2',
                      where, 'line terminator %r is one the parser accepts'
                      % (term,),
                      'send_reply ends a reply line with %r, which the tail '
                      'of reply_line_pattern does not match' % (term,),
                      loc=loc, reason='matches the terminator of '
                      'reply_line_pattern')
            rep.evaluations += 1
            rep.check(cont == marker, 'W2', where,
                      'non-final lines carry the continuation marker',
                      'a non-final line is written with %r but the parser '
                      'continues a reply only after %r' % (cont, marker),
                      loc=loc, reason='separator == %r' % marker)
            rep.evaluations += 1
            rep.check(last != marker, 'W2', where,
                      'the final line does not carry the continuation '
                      'marker', 'the last line of a reply is written with '
                      'the continuation marker %r: the parser waits for a '
                      'line that never comes' % marker, loc=loc,
                      reason='separator != %r' % marker)
            return True
    return False


# ---------------------------------------------------------------------- W3
def w3(e: Engine, rep: Report):
    ctx = e.method_ctx(IOC, 'recv_reply')
    g = e.build(ctx, inline=e.inline_same_self(
        deny=['buffered_recv', 'raw_recv']), max_depth=3,
        raises=lambda b, n, r: (
        {'builtins.UnicodeDecodeError'} if n.kind == 'call' and
        e.call_name(n) == 'decode' else set()))
    fx = e.facts(g)
    where = ctx.func.qname
    rep.functions.add(where)
    raises = [n for n in g.of_kind('stmt') if isinstance(n.ast, ast.Raise)]
    live = dataflow.reachable(g)
    bad = [n for n in raises if n.id in live and n.ast.exc is not None and
           'BadReply' in ast.unparse(n.ast.exc)]
    rep.evaluations += 1
    if not bad:
        rep.bad('W3', where, 'malformed input raises BadReply',
                'recv_reply no longer raises BadReply at all',
                loc=ctx.func.loc())
        return
    # (a) conflicting code
    conf = [n for n in bad if any(
        'code' in k and ((p and ' != ' in k) or (not p and ' == ' in k))
        for p, k in (fx.at(n) or ()))]
    rep.check(bool(conf), 'W3', where,
              'a code that differs within one reply raises BadReply',
              'no `raise BadReply` is guarded by the comparison of the '
              'code of this line with the code of the lines before: a '
              'multi-line reply with mixed codes is returned as if it were '
              'well formed', loc=ctx.func.loc(),
              reason='raise under `code != match.group(...)`')
    # (b) a complete line that is no reply line
    rep.evaluations += 1
    # locals that hold the result of matching a whole-line pattern (a
    # module-level compiled pattern with no code group of digits)
    line_vars = set()
    for s2 in g.of_kind('stmt'):
        v = s2.ast.value if isinstance(s2.ast, ast.Assign) else None
        if isinstance(v, ast.Call) and isinstance(v.func, ast.Attribute) and \
                v.func.attr == 'match' and \
                isinstance(v.func.value, ast.Name) and \
                isinstance(s2.ast.targets[0], ast.Name):
            mp = rx.module_pattern(e, s2.frame.ctx.func.module.name,
                                   v.func.value.id)
            if mp is None:
                continue
            src = mp[0] if isinstance(mp[0], str) else mp[0].decode('latin1')
            if '\\d' not in src and '[0-9]' not in src:
                line_vars.add(path_of(s2.ast.targets[0], s2.frame))

    def line_matched(st):
        return any((p and k in line_vars) or (
            not p and k.endswith(' is None') and k[:-8] in line_vars)
            for p, k in st)
    other = [n for n in bad if line_matched(fx.at(n) or ()) and
             n not in conf]
    rep.check(bool(other), 'W3', where,
              'a complete line that is not a reply line raises BadReply',
              'no `raise BadReply` on the path where the reply pattern '
              'failed but a whole line is buffered: the parser reads on '
              'for ever (or skips the line)', loc=ctx.func.loc(),
              reason='raise after line_pattern matched')
    # (c) nothing but BadReply escapes (explicit raises + decode errors)
    rep.evaluations += 1
    esc = {}
    for n in g.nodes:
        if n.id not in live:
            continue
        for l, s in n.succ:
            if s is g.raise_exit and isinstance(l, tuple):
                esc.setdefault(l[1], n)
    allowed = {BADREPLY, 'slimta.smtp.ConnectionLost',
               'builtins.AssertionError'}
    wrong = {t: n for t, n in esc.items() if t not in allowed}
    rep.check(not wrong, 'W3', where,
              'exception classes raised below recv_reply',
              '%s can leave recv_reply: malformed input is reported by '
              'something that is not a bad-reply error' % sorted(wrong),
              loc=(list(wrong.values())[0].loc() if wrong
                   else ctx.func.loc()),
              reason='escaping: %s' % sorted(esc))
    c11.n8(e, rep, 'W3')


# ---------------------------------------------------------------------- W4
def w4(e: Engine, rep: Report):
    ctx = e.method_ctx(IOC, 'recv_reply')
    g = e.build(ctx, raises=lambda b, n, r: set(),
                inline=e.inline_same_self(deny=['buffered_recv',
                                                'raw_recv']), max_depth=3)
    where = ctx.func.qname
    pfn = common.reply_parser_func(e)
    pframe = g.entry.frame
    for fr in {n.frame for n in g.nodes}:
        if pfn is not None and fr.ctx.func is pfn:
            pframe = fr
    heads = common.while_heads(g, pframe)
    split = None
    if pframe is not g.entry.frame and len(heads) == 1:
        # the scanning loop in a helper, the reading loop in recv_reply
        oh = common.while_heads(g, g.entry.frame)
        if len(oh) == 1 and any(
                n0.frame is g.entry.frame and e.call_name(n0) ==
                'buffered_recv' for n0 in g.calls()) and any(
                sc.kind == 'loop' and sc.ast is oh[0][1]
                for n0 in g.nodes if n0.frame is pframe
                for sc in n0.scopes):
            split = (heads[0], oh[0])
            heads = [heads[0], oh[0]]
    if len(heads) == 1:
        # one loop that takes a line off the front of the buffer per trip:
        # every trip either reads more input or consumes a whole, non-empty
        # line
        h, w = heads[0]
        reads = [n for n in g.calls() if e.call_name(n) == 'buffered_recv']
        cons = []
        for n in g.of_kind('stmt'):
            if isinstance(n.ast, ast.Assign) and any(
                    path_of(t, n.frame) == 'self.recv_buffer'
                    for t in n.ast.targets):
                v = n.ast.value
                mnode = c09.consumed_match(g, n)
                if mnode is not None:
                    # (the match may have been handed to a helper that
                    # does the consuming)
                    mx, mfr = common.origin(g, mnode,
                                            n.frame, follow_locals=False)
                    mv = mx.id if isinstance(mx, ast.Name) else None
                    defs = [s2 for s2 in g.of_kind('stmt')
                            if isinstance(s2.ast, ast.Assign) and
                            s2.frame is mfr and any(
                                isinstance(t, ast.Name) and t.id == mv
                                for t in s2.ast.targets)]
                    if defs and all(
                            isinstance(d.ast.value, ast.Call) and
                            isinstance(d.ast.value.func, ast.Attribute) and
                            d.ast.value.func.attr == 'match' and
                            isinstance(d.ast.value.func.value, ast.Name) and
                            c09._regex_ends_in_newline(
                                e, ctx.func.module.name,
                                d.ast.value.func.value.id) is True
                            for d in defs):
                        cons.append(n)
        counts = common.while_iteration_counts(
            g, h, lambda n: 1 if n in reads or n in cons else 0)
        rep.evaluations += 1
        rep.check(bool(counts) and 0 not in counts, 'W4', where,
                  'every trip of the parsing loop reads more input or '
                  'consumes a whole line',
                  'a trip round `while %s` can come back without having '
                  'read more input and without having taken a whole line '
                  'off the buffer (%s progress steps): the same bytes are '
                  'looked at again for ever' % (ast.unparse(w.test),
                                                sorted(counts)),
                  loc='%s:%d' % (ctx.func.module.relpath, w.lineno),
                  reason='buffered_recv or a whole-line consumption on '
                  'every trip')
        return
    if len(heads) < 2:
        rep.error('anchor vanished: the loops of recv_reply (%d)'
                  % len(heads))
        return
    # inner loop: the one whose test mentions the scan position
    inner = outer = None
    for h, w in heads:
        names = {x.id for x in ast.walk(w.test) if isinstance(x, ast.Name)}
        nested = any(w is not w2 and any(x is w for x in ast.walk(w2))
                     for _, w2 in heads) or (
            split is not None and w is split[0][1])
        if nested:
            inner = (h, w, names)
        else:
            outer = (h, w, names)
    if inner is None or outer is None:
        rep.error('anchor vanished: nested loops of recv_reply')
        return
    h, w, names = inner
    pos = sorted(names)[0] if names else None
    if pos is None:
        # `while True:` left by break / return: the scan position is what
        # the matches in the loop start at
        starts = {ast.unparse(x.args[1]) for x in ast.walk(w)
                  if isinstance(x, ast.Call) and
                  isinstance(x.func, ast.Attribute) and
                  x.func.attr == 'match' and len(x.args) > 1 and
                  isinstance(x.args[1], ast.Name)}
        if len(starts) == 1:
            pos = starts.pop()
    asg = [n for n in g.of_kind('stmt') if isinstance(n.ast, ast.Assign) and
           any(isinstance(t, ast.Name) and t.id == pos
               for t in n.ast.targets) and any(
               sc.kind == 'loop' and sc.ast is w for sc in n.scopes)]
    counts = common.while_iteration_counts(
        g, h, lambda n: 1 if n in asg else 0)
    rep.evaluations += 1
    rep.check(bool(counts) and 0 not in counts, 'W4', where,
              'every trip of the scanning loop moves the scan position',
              'a trip round `while %s` can leave `%s` unchanged (%s '
              'assignments): the same buffered bytes are scanned again '
              'for ever' % (ast.unparse(w.test), pos, sorted(counts)),
              loc='%s:%d' % (ctx.func.module.relpath, w.lineno),
              reason='`%s` assigned on every trip' % pos)
    for n in asg:
        rep.evaluations += 1
        v = n.ast.value
        ok = isinstance(v, ast.Constant) and v.value is None
        if not ok and isinstance(v, ast.Call) and \
                isinstance(v.func, ast.Attribute) and v.func.attr == 'end' \
                and isinstance(v.func.value, ast.Name):
            # the match object comes from a pattern that ends in a literal
            # newline (cannot match the empty string) started at `pos`
            mv = v.func.value.id
            defs = [s for s in g.of_kind('stmt')
                    if isinstance(s.ast, ast.Assign) and any(
                        isinstance(t, ast.Name) and t.id == mv
                        for t in s.ast.targets)]
            ok = bool(defs) and all(
                isinstance(d.ast.value, ast.Call) and
                isinstance(d.ast.value.func, ast.Attribute) and
                d.ast.value.func.attr == 'match' and
                isinstance(d.ast.value.func.value, ast.Name) and
                c09._regex_ends_in_newline(
                    e, ctx.func.module.name, d.ast.value.func.value.id)
                is True and len(d.ast.value.args) > 1 and
                ast.unparse(d.ast.value.args[1]) == pos for d in defs)
        rep.check(ok, 'W4', where,
                  'new scan position `%s`' % ast.unparse(v),
                  'the scan position is set to `%s`, which is not the end '
                  'of a non-empty match that started at the old position '
                  '(nor None): the scan can stand still or skip bytes'
                  % ast.unparse(v), loc=n.loc(),
                  reason='None or end of a whole-line match from `%s`' % pos)
    h, w, names = outer
    reads = [n for n in g.calls() if e.call_name(n) == 'buffered_recv']
    flag = sorted(names)[0] if len(names) == 1 else None
    rep.evaluations += 1
    endless = isinstance(w.test, ast.Constant) and w.test.value is True
    if (flag is None and not endless) or not reads:
        rep.error('anchor vanished: loop flag / buffered_recv of the outer '
                  'loop in recv_reply')
        return
    body0 = [s2 for l, s2 in h.succ]

    # state = (read happened on this trip, known value of the loop flag)
    def step(n, label, st):
        read, fl = st
        if n is h and st != ('start', None):
            return None                       # one trip only
        if n.kind == 'test' and isinstance(n.ast, ast.Name) and \
                n.ast.id == flag and label in ('T', 'F') and fl is not None:
            if (label == 'T') != fl:
                return None                   # contradicts the flag
        if n.kind == 'stmt' and isinstance(n.ast, ast.Assign) and any(
                isinstance(t, ast.Name) and t.id == flag
                for t in n.ast.targets):
            v = n.ast.value
            fl = bool(v.value) if isinstance(v, ast.Constant) else None
        if n in reads and not isinstance(label, tuple):
            read = True
        if st == ('start', None):
            return (False, True)       # the body runs only under a true flag
        return (read, fl)
    pth = dataflow.typestate_witness(
        g, ('start', None), step,
        lambda n, st: n is h and st != ('start', None) and
        st[0] is False and st[1] is not False, start=h)
    rep.check(pth is None, 'W4', where,
              'every trip of the outer loop that continues reads more input',
              'a trip round `while %s` can come back with the flag still '
              'set and without a buffered_recv(): with an incomplete reply '
              'in the buffer the parser spins instead of waiting for the '
              'rest' % ast.unparse(w.test),
              loc='%s:%d' % (ctx.func.module.relpath, w.lineno),
              reason='buffered_recv on every continuing trip',
              witness=dataflow.render_path(pth, 14) if pth else None)


# ---------------------------------------------------------------------- W6
# where str.splitlines / bytes.splitlines begin a new line (Python library
# reference); the wire format and the reader know CRLF and LF only
SPLITLINES_EXTRA = ('\\r alone, \\v, \\f, \\x1c-\\x1e, \\x85, '
                    '\\u2028, \\u2029')


def w6(e: Engine, rep: Report):
    """The writer cuts the text into wire lines where the documented
    normalisation says: at LF, optionally preceded by CR.  A splitter with a
    larger set of boundaries (str.splitlines) writes extra continuation
    lines for texts that contain those characters; the reader joins wire
    lines with CRLF, so the text does not come back."""
    from .. import regexast as rx
    ctx = e.method_ctx(IOC, 'send_reply')
    where = ctx.func.qname
    fn = ctx.func.node
    n = 0
    # send_reply and the module-level helpers it calls
    nodes = list(walk_own(fn))
    for x in list(nodes):
        if isinstance(x, ast.Call) and isinstance(x.func, ast.Name):
            for st in ctx.func.module.tree.body:
                if isinstance(st, ast.FunctionDef) and st.name == x.func.id:
                    nodes += list(ast.walk(st))
        elif isinstance(x, ast.Call) and isinstance(x.func, ast.Attribute) \
                and isinstance(x.func.value, ast.Name) and \
                x.func.value.id in ('self', 'cls'):
            # ... and the (static) methods of IO the splitting was moved to
            m = e.p.lookup_method(IOC, x.func.attr)
            if m is not None and m is not ctx.func and \
                    x.func.attr.startswith('_'):
                nodes += list(ast.walk(m.node))
    for x in nodes:
        if not isinstance(x, ast.Call) or \
                not isinstance(x.func, ast.Attribute):
            continue
        if x.func.attr == 'splitlines':
            n += 1
            rep.evaluations += 1
            rep.bad('W6', where, 'text cut into lines by splitlines()',
                    'send_reply splits the text with splitlines(), which '
                    'also starts a new line at %s: a text with one of '
                    'these inside a line is written as several wire '
                    'lines and parsed back with CRLF in their place'
                    % SPLITLINES_EXTRA, loc=ctx.func.loc(x))
        elif x.func.attr in ('finditer', 'split', 'findall') and \
                isinstance(x.func.value, ast.Name):
            pat = rx.module_pattern(e, 'slimta.smtp.io', x.func.value.id)
            if pat is None:
                continue
            n += 1
            rep.evaluations += 1
            from .c05 import line_terminator
            p0 = pat[0] if isinstance(pat[0], bytes) else \
                pat[0].encode('latin-1')
            lt = line_terminator(p0, pat[1])
            ok = lt is not None and lt[0] == b'\n' and not lt[1]
            rep.check(ok, 'W6', where,
                      'text cut into lines by %s' % x.func.value.id,
                      'the pattern send_reply splits the text with does '
                      'not end a line at every LF (optionally after CR) '
                      'and only there', loc=ctx.func.loc(x),
                      reason='line ends at LF, optional CR before it')
        elif x.func.attr == 'split' and x.args and \
                isinstance(x.args[0], ast.Constant) and \
                x.args[0].value in (b'\n', b'\r\n', '\n', '\r\n'):
            n += 1
            rep.evaluations += 1
            rep.ok('W6', where, 'text cut into lines at %r'
                   % (x.args[0].value,), reason='LF / CRLF',
                   loc=ctx.func.loc(x))
    if n < 1:
        rep.error('anchor vanished: how send_reply cuts the text into '
                  'lines')


# ---------------------------------------------------------------------- W7
def w7(e: Engine, rep: Report):
    """Patterns of the reply modules that work line by line (re.MULTILINE,
    anchored with ^) must stay inside the line: a repeat that can consume a
    line terminator (`\\s+`) eats the line break and what follows it - empty
    inner lines and indentation of a multi-line text are lost."""
    from .. import regexast as rx
    import re as _re
    n = 0
    for mod in ('slimta.smtp.reply', 'slimta.smtp.io'):
        m = e.p.modules.get(mod)
        if m is None:
            continue
        for st in m.tree.body:
            if not (isinstance(st, ast.Assign) and
                    isinstance(st.value, ast.Call) and
                    ast.unparse(st.value.func) == 're.compile' and
                    st.value.args and
                    isinstance(st.value.args[0], ast.Constant)):
                continue
            name = st.targets[0].id if isinstance(st.targets[0], ast.Name) \
                else '?'
            got = rx.module_pattern(e, mod, name)
            if got is None or not (got[1] & _re.MULTILINE):
                continue
            n += 1
            rep.evaluations += 1
            sc = rx._consts()
            bad = None

            def scan(items):
                nonlocal bad
                for op, av in items:
                    if op in (sc.MAX_REPEAT, sc.MIN_REPEAT):
                        inner = list(av[2])
                        for cs in rx.all_charsets(inner, got[1]):
                            if cs is not None and 10 in cs and av[1] > 1:
                                bad = True
                        scan(inner)
                    elif op == sc.SUBPATTERN:
                        scan(list(av[3]))
                    elif op == sc.BRANCH:
                        for alt in av[1]:
                            scan(list(alt))
            scan(list(rx.parse(got[0], got[1])))
            rep.check(not bad, 'W7', mod + '.' + name,
                      'line-anchored pattern stays inside the line',
                      'the MULTILINE pattern %r has a repeat that can '
                      'consume LF: applied per line it swallows the line '
                      'break and the following line\'s leading text - empty '
                      'inner lines and indentation of a reply text are '
                      'lost' % (got[0],),
                      loc='%s:%d' % (m.relpath, st.lineno),
                      reason='no repeat over a class containing LF')
    rep.evaluations += 1
    if n == 0:
        rep.ok('W7', 'slimta.smtp.reply', 'no line-anchored (MULTILINE) '
               'pattern in the reply modules', reason='nothing to cross a '
               'line', nontrivial=False)


# ---------------------------------------------------------------------- W8
def w8(e: Engine, rep: Report):
    cq = 'slimta.smtp.reply.Reply'
    c = e.p.cls(cq)

    def is_getter(m):
        return any(isinstance(d, ast.Name) and d.id == 'property'
                   for d in m.node.decorator_list)

    def self_attr(x):
        return isinstance(x, ast.Attribute) and \
            isinstance(x.value, ast.Name) and x.value.id == 'self'
    getters = {mn: m for mn, m in c.methods.items() if is_getter(m)}
    # (getters are stored under the property name; setters replace them in
    # the method table, so look the decorated definitions up in the body)
    defs = {}
    for st in c.node.body:
        if isinstance(st, ast.FunctionDef):
            kind = 'method'
            for d in st.decorator_list:
                if isinstance(d, ast.Name) and d.id == 'property':
                    kind = 'getter'
                elif isinstance(d, ast.Attribute) and d.attr == 'setter':
                    kind = 'setter'
            defs.setdefault((st.name, kind), st)
    getter_nodes = {n: f for (n, k), f in defs.items() if k == 'getter'}

    def reads(fnode, seen=()):
        out = set()
        for x in ast.walk(fnode):
            if self_attr(x) and isinstance(x.ctx, ast.Load):
                if x.attr in getter_nodes and x.attr not in seen:
                    out |= reads(getter_nodes[x.attr], seen + (x.attr,))
                else:
                    out.add(x.attr)
        return out

    def writes(fnode):
        out = set()
        for x in ast.walk(fnode):
            tg = []
            if isinstance(x, ast.Assign):
                tg = x.targets
            elif isinstance(x, (ast.AugAssign, ast.AnnAssign)):
                tg = [x.target]
            for t in tg:
                for el in ast.walk(t):
                    if self_attr(el) and isinstance(el.ctx, ast.Store):
                        out.add(el.attr)
        return out
    memos = {}
    for name, g in getter_nodes.items():
        for a in writes(g):
            src = reads(g) - {a}
            if src:
                memos.setdefault(a, set()).update(src)
    rep.evaluations += 1
    rep.functions.add(cq)
    if not memos:
        rep.ok('W8', cq, 'no property getter of Reply keeps derived state',
               reason='%d getters looked at' % len(getter_nodes))
        return
    setter_names = {n for (n, k) in defs if k == 'setter'}
    for a, src in sorted(memos.items()):
        # writing through a property setter counts as writing what the
        # setter writes
        for (name, kind), f in sorted(defs.items()):
            if kind == 'getter':
                continue
            w = writes(f)
            via = set()
            for x in ast.walk(f):
                if self_attr(x) and isinstance(x.ctx, ast.Store) and \
                        x.attr in setter_names:
                    via |= writes(defs[(x.attr, 'setter')])
            touched = (w | via) & src
            if not touched:
                continue
            rep.evaluations += 1
            rep.check(a in (w | via), 'W8', '%s.%s' % (cq, name),
                      '%s refreshes the derived self.%s' % (name, a),
                      '%s writes %s, from which a getter fills self.%s, '
                      'but leaves self.%s as it was: a reply whose text was '
                      'read before is sent with the old text after it was '
                      're-populated (the wire carries a code and an ESC / '
                      'text that belong to different replies)' % (
                          name, sorted(touched), a, a),
                      loc='%s:%d' % (c.module.relpath, f.lineno),
                      reason='writes self.%s too' % a)


# ---------------------------------------------------------------------- W9
def w9(e: Engine, rep: Report):
    c = e.p.cls(REPLY)
    getter = c.methods.get('message')
    pat = rx.module_pattern(e, 'slimta.smtp.reply', 'message_esc_pattern')
    if getter is None or getter.kind != 'property' or pat is None:
        rep.unknown('W9', REPLY + '.message', 'rendered ESC is delimited',
                    'cannot read the message getter / message_esc_pattern',
                    loc=None)
        return
    ctx = e.method_ctx(REPLY, 'message')
    g = e.build(ctx, raises=lambda b, n, r: set())
    where = getter.qname
    rep.functions.add(where)
    sc = rx._consts()
    items = list(rx.parse(pat[0], pat[1]))
    # what follows the code group in the pattern
    tail, seen = [], False
    for it in items:
        if it[0] == sc.SUBPATTERN and not seen:
            seen = True
            continue
        if seen:
            tail.append(it)
    escs = {t.id for a in walk_own(getter.node) if isinstance(a, ast.Assign)
            and 'enhanced_status_code' in ast.unparse(a.value) or
            isinstance(a, ast.Assign) and '_esc' in ast.unparse(a.value)
            for t in a.targets if isinstance(t, ast.Name)}

    def is_esc(x):
        return (isinstance(x, ast.Name) and x.id in escs) or (
            isinstance(x, ast.Attribute) and
            x.attr in ('enhanced_status_code', '_esc'))
    n = 0
    for r in g.of_kind('stmt'):
        if not (isinstance(r.ast, ast.Return) and r.ast.value is not None):
            continue
        v = r.ast.value
        if not any(is_esc(x) for x in ast.walk(v)):
            continue
        n += 1
        rep.evaluations += 1
        # shape: esc, literal separator, rest
        segs = []

        def flat(y):
            if isinstance(y, ast.Constant) and isinstance(y.value, str):
                segs.append(('lit', y.value))
            elif isinstance(y, ast.BinOp) and isinstance(y.op, ast.Add):
                flat(y.left)
                flat(y.right)
            elif isinstance(y, ast.Call) and \
                    isinstance(y.func, ast.Attribute) and \
                    y.func.attr == 'join' and \
                    isinstance(y.func.value, ast.Constant) and \
                    len(y.args) == 1 and \
                    isinstance(y.args[0], (ast.Tuple, ast.List)):
                for i, el in enumerate(y.args[0].elts):
                    if i:
                        segs.append(('lit', y.func.value.value))
                    flat(el)
            elif isinstance(y, ast.JoinedStr):
                for part in y.values:
                    if isinstance(part, ast.FormattedValue):
                        flat(part.value)
                    else:
                        flat(part)
            else:
                segs.append(('esc' if is_esc(y) else 'opaque', y))
        flat(v)
        ok, why = True, ''
        for i, (k, x) in enumerate(segs):
            if k != 'esc':
                continue
            nxt = segs[i + 1] if i + 1 < len(segs) else None
            if nxt is None or nxt[0] != 'lit' or not nxt[1]:
                ok, why = False, 'nothing'
                continue
            try:
                ends = rx.match_ends(tail, nxt[1], pat[1], 0)
            except ValueError:
                ends = {len(nxt[1])}
            if not ends:
                ok, why = False, repr(nxt[1])
        rep.check(ok, 'W9', where,
                  '`%s`: the code is followed by a separator' % ' '.join(
                      ast.unparse(r.ast).split())[:50],
                  'the getter renders the enhanced status code followed by '
                  '%s, which message_esc_pattern (%r) does not take after '
                  'its code group: the reading side stores the code as '
                  'text and resets the ESC - the reply reports '
                  '"2.0.0 2.0.0" instead of what was sent' % (why, pat[0]),
                  loc=r.loc(), reason='separator accepted by the setter\'s '
                  'pattern')
    if n < 1:
        rep.unknown('W9', where, 'rendered ESC is delimited',
                    'no return of the getter mentions the enhanced status '
                    'code', loc=getter.loc())


# --------------------------------------------------------------------- W10
def w10(e: Engine, rep: Report):
    ctx = e.method_ctx(IOC, 'send_reply')
    g = e.build(ctx, raises=lambda b, n, r: set(),
                inline=e.inline_same_self(deny=['buffered_send']),
                max_depth=3)
    where = ctx.func.qname
    rep.functions.add(where)
    rep.evaluations += 1
    bad = None
    for n in g.nodes:
        if n.kind == 'call' and isinstance(n.ast.func, ast.Attribute) and \
                n.ast.func.attr in ('extend', 'insert') and \
                'line' in ast.unparse(n.ast.func.value).lower():
            bad = n
        if n.kind == 'stmt' and isinstance(n.ast, ast.AugAssign) and \
                'line' in ast.unparse(n.ast.target).lower() and \
                isinstance(n.ast.target, ast.Name) and \
                isinstance(n.ast.value, (ast.List, ast.Call, ast.Name)) and \
                not (isinstance(n.ast.value, ast.List) and
                     len(n.ast.value.elts) == 1):
            bad = n
    rep.check(bad is None, 'W10', where, 'one wire line per text line',
              '`%s` puts several wire lines where the text has one: the '
              'reading side joins wire lines with CRLF, so the text comes '
              'back with line breaks it never had (and a cut inside a '
              'UTF-8 sequence makes the reply undecodable)' % (
                  bad.text(50) if bad else ''),
              loc=bad.loc() if bad else ctx.func.loc(),
              reason='lines are appended one match at a time')


# --------------------------------------------------------------------- W11
def w11(e: Engine, rep: Report):
    c = e.p.cls(REPLY)
    getter = c.methods.get('message')
    if getter is None or getter.kind != 'property':
        rep.unknown('W11', REPLY + '.message', 'ESC through the property',
                    'cannot read the message getter', loc=None)
        return
    rep.functions.add(getter.qname)
    rep.evaluations += 1
    par = {}
    for x in ast.walk(getter.node):
        for ch in ast.iter_child_nodes(x):
            par[ch] = x

    def only_tested(x):
        """the read is (part of) a branch condition: `self._esc is
        False`, `if self._esc:` - not what the text is made of"""
        up = par.get(x)
        while isinstance(up, (ast.UnaryOp, ast.BoolOp, ast.Compare)):
            x, up = up, par.get(up)
        return isinstance(up, (ast.If, ast.IfExp, ast.While)) and \
            up.test is x
    direct = [x for x in walk_own(getter.node)
              if isinstance(x, ast.Attribute) and x.attr == '_esc' and
              isinstance(x.value, ast.Name) and x.value.id == 'self' and
              not only_tested(x)]
    rep.check(not direct, 'W11', getter.qname,
              'the getter takes the ESC from the property',
              'the message getter reads self._esc itself: the class digit '
              'stored there is the one the text arrived with, not the one '
              'of the reply code (that substitution is made by the '
              'enhanced_status_code property) - `550 2.3.4 ...` goes on the '
              'wire', loc=getter.loc(direct[0]) if direct else getter.loc(),
              reason='no direct read of self._esc')


def w14(e: Engine, rep: Report):
    n = 0
    for name in ('send_reply', 'recv_reply', 'send_command', 'recv_command'):
        try:
            ctx = e.method_ctx(IOC, name)
        except Exception:
            continue
        g = e.build(ctx, raises=lambda b, n, r: set(),
                    inline=e.inline_same_self(deny=['buffered_send',
                                                    'buffered_recv']),
                    max_depth=3)
        fns = {ctx.func.qname: ctx.func}
        for nd in g.nodes:
            fns.setdefault(nd.frame.ctx.func.qname, nd.frame.ctx.func)
        for q, f in sorted(fns.items()):
            rep.functions.add(q)
            mod = f.module
            for c in ast.walk(f.node):
                if not (isinstance(c, ast.Compare) and any(
                        isinstance(o, (ast.Is, ast.IsNot)) for o in c.ops)):
                    continue
                sides = [c.left] + list(c.comparators)

                def singleton(x):
                    if isinstance(x, ast.Constant):
                        return x.value is None or x.value is True or \
                            x.value is False or x.value is Ellipsis
                    if isinstance(x, ast.Name):
                        v = getattr(mod, 'globals', {}).get(x.id)
                        return isinstance(v, ast.Call) and \
                            ast.unparse(v.func) == 'object'
                    if isinstance(x, ast.Attribute) and \
                            isinstance(x.value, ast.Name) and \
                            x.value.id in ('self', 'cls'):
                        _, v = e.p.lookup_class_attr(IOC, x.attr)
                        return isinstance(v, ast.Call) and \
                            ast.unparse(v.func) == 'object'
                    return False
                n += 1
                rep.evaluations += 1
                rep.check(any(singleton(x) for x in sides), 'W14', q,
                          '`%s` compares with a singleton'
                          % ' '.join(ast.unparse(c).split())[:50],
                          '`%s` tells two pieces of line data apart by '
                          'object identity: equal short bytes objects are '
                          'shared by the interpreter (b\'\' and every '
                          'one-byte value), so a line that is not the last '
                          'is taken for it - a multi-line reply whose inner '
                          'line equals its last one is closed early and the '
                          'peer reads the rest as further replies'
                          % ' '.join(ast.unparse(c).split())[:50],
                          loc=f.loc(c), reason='one side is None / True / '
                          'False / a module-level object()')
    rep.evaluations += 1
    if n == 0:
        rep.ok('W14', IOC, 'no identity comparison in the reply / command '
               'writers and readers', reason='nothing compared with `is`',
               nontrivial=False)


# ---------------------------------------------------------------------- W15
def w15(e: Engine, rep: Report):
    try:
        ctx = e.method_ctx(IOC, 'send_reply')
    except Exception:
        rep.error('anchor vanished: IO.send_reply')
        return
    SENDS = ('buffered_send', 'raw_send', 'send', 'sendall')
    n = 0
    for fn in _reply_writers(e, ctx):
        where = ctx.func.qname if fn is ctx.func.node else \
            '%s (%s)' % (ctx.func.qname, fn.name)
        rep.functions.add(where)
        loop_targets = set()
        for x in walk_own(fn):
            if isinstance(x, (ast.For, ast.comprehension)):
                loop_targets |= {t.id for t in ast.walk(x.target)
                                 if isinstance(t, ast.Name)}
        tainted = set()
        if fn is not ctx.func.node:
            # a helper: every parameter may carry the text
            tainted |= {a.arg for a in fn.args.args
                        if a.arg not in ('self', 'cls')}
        changed = True
        while changed:
            changed = False
            for x in walk_own(fn):
                if not isinstance(x, (ast.Assign, ast.AugAssign,
                                      ast.AnnAssign)) or x.value is None:
                    continue
                src = any((isinstance(y, ast.Attribute) and
                           y.attr == 'message') or
                          (isinstance(y, ast.Name) and y.id in tainted)
                          for y in ast.walk(x.value))
                cut = any(isinstance(y, ast.Call) and
                          isinstance(y.func, ast.Attribute) and
                          y.func.attr in ('finditer', 'findall', 'split',
                                          'splitlines', 'sub')
                          for y in ast.walk(x.value))
                if not src or cut:
                    continue
                tg = x.targets if isinstance(x, ast.Assign) else [x.target]
                for t in tg:
                    if isinstance(t, ast.Name) and t.id not in tainted and \
                            t.id not in loop_targets:
                        tainted.add(t.id)
                        changed = True
        parents = {}
        for x in ast.walk(fn):
            for ch in ast.iter_child_nodes(x):
                parents[ch] = x
        for c in walk_own(fn):
            if not (isinstance(c, ast.Call) and
                    isinstance(c.func, ast.Attribute) and
                    c.func.attr in SENDS):
                continue
            n += 1
            rep.evaluations += 1
            raw = sorted({y.id for a in c.args for y in ast.walk(a)
                          if isinstance(y, ast.Name) and y.id in tainted})
            if not raw:
                rep.ok('W15', where, ast.unparse(c)[:60], loc='%s:%d' % (
                    ctx.func.module.relpath, c.lineno),
                    reason='sends what the lines were joined into, not the '
                    'text')
                continue
            tests = []
            x = c
            while x in parents and parents[x] is not fn:
                par = parents[x]
                if isinstance(par, (ast.If, ast.While)) and x is not par.test:
                    tests.append(par.test)
                body = None
                for fld in ('body', 'orelse', 'finalbody'):
                    lst = getattr(par, fld, None)
                    if isinstance(lst, list) and x in lst:
                        body = lst
                if body is not None:
                    for sib in body[:body.index(x)]:
                        if isinstance(sib, ast.If) and sib.body and \
                                isinstance(sib.body[-1], (ast.Return,
                                                          ast.Raise)):
                            tests.append(sib.test)
                x = par
            if x in getattr(fn, 'body', []):
                for sib in fn.body[:fn.body.index(x)]:
                    if isinstance(sib, ast.If) and sib.body and \
                            isinstance(sib.body[-1], (ast.Return, ast.Raise)):
                        tests.append(sib.test)
            consts = [y.value for t in tests for y in ast.walk(t)
                      if isinstance(y, ast.Constant) and
                      isinstance(y.value, (str, bytes))]
            opaque = any(isinstance(y, ast.Call) for t in tests
                         for y in ast.walk(t))
            lf = any(v in (b'\n', '\n') for v in consts)
            loc = '%s:%d' % (ctx.func.module.relpath, c.lineno)
            text = 'the text itself (%s) is sent by %s' % (
                ', '.join(raw), ast.unparse(c.func))
            if lf:
                rep.ok('W15', where, text, loc=loc,
                       reason='under a test for a bare LF')
            elif opaque and not consts:
                rep.unknown('W15', where, text, 'the guard of this send is '
                            'a call this rule does not read', loc=loc)
            else:
                rep.bad('W15', where, text,
                        'the reply text reaches the socket without passing '
                        'the line cutter, and no test on the way excludes a '
                        'bare LF (tests seen: %s): a text "a\\nb" goes out '
                        'as ONE physical line "250 a\\nb\\r\\n"; recv_reply '
                        'ends the line at the LF, returns "a" and leaves '
                        '"b\\r\\n" to be read as the next reply (BadReply)'
                        % (sorted(set(map(repr, consts))) or 'none'),
                        loc=loc)
    if n == 0:
        rep.error('anchor vanished: no send call in IO.send_reply')
