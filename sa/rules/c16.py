"""C16 - queue policies conserve recipients and content.

P1 split conservation by construction: per input recipient exactly one
   placement; one copy per group; "no split" keeps the original
P2 no shared mutable state between copies: Envelope.copy deep-copies; a
   recipient list object is handed to at most one copy
P3 headers: Date / Message-Id only when absent; Received goes first
P4 forwarding: first matching rule wins, unmatched recipients untouched
P5 policy recursion replaces an envelope by its outputs and recurses on each
"""
from __future__ import annotations

import ast

from ..engine import Engine
from ..report import Report
from ..cfg import Node
from ..facts import path_of, canon, holds
from ..model import walk_own
from ..resolve import Ctx
from .. import dataflow
from . import common, c07

SPLIT = 'slimta.policy.split'
ENVELOPE = 'slimta.envelope.Envelope'
QUEUE = 'slimta.queue.Queue'


def run(e: Engine, rep: Report):
    rep.rule('P1', 'RecipientSplit / RecipientDomainSplit: each recipient '
             'is placed exactly once per iteration; one copy per group and '
             'per bad recipient; a single group returns None')
    rep.rule('P2', 'Envelope.copy starts from copy.deepcopy(self); the list '
             'handed to copy() inside a loop is fresh per iteration')
    rep.rule('P3', 'Date / Message-Id are assigned only under "not in '
             'envelope.headers"; Received is added through prepend_header '
             '(insert at index 0)')
    rep.rule('P4', 'Forward.apply writes recipients[i] only under changes > '
             '0, followed by break')
    rep.rule('P5', 'Queue._run_policies: remove(current)+extend(ret) under '
             'truthy(ret), recursion with i+1 on every output, else on '
             'current')
    rep.not_decided += ['the rewritten strings', 'header folding', 'what '
                        'deepcopy does to email.message objects (C20)']
    p1(e, rep)
    p2(e, rep)
    p3(e, rep)
    p4(e, rep)
    p5(e, rep)
    rep.rule('P6', 'no policy memoises (table MEMOISERS) a function whose '
             'result contains lists / dicts: recipient lists are never '
             'shared between messages')
    rep.tables.add('c16.MEMOISERS')
    p6(e, rep)
    rep.rule('P8', 'what a queue policy returns can be walked twice: '
             'Queue._run_policies both adds the returned envelopes to its '
             'result and recurses over them, so every apply() of a policy in '
             'the repository returns None or a list / tuple - never a '
             'generator or another one-shot iterator (the copies would be '
             'written but skipped by the rest of the policy chain)')
    p8(e, rep)
    rep.rule('P9', 'the chain that runs is the chain that was configured: '
             'add_policy (queue, relay) appends the policy on every path '
             'that does not raise - nothing but the type check decides '
             '(repetitions of a policy are part of the chain)')
    p9(e, rep)
    rep.rule('P10', 'Forward checks its rules in the order they were '
             'added: the rule list is only ever appended to (no insert / '
             'sort / bisect on self.mapping) - the first matching rule wins, '
             'so the order IS the configuration')
    p10(e, rep)
    rep.rule('P11', 'policies edit headers through the Message interface: '
             'no access to the private `_headers` list (positions computed '
             'by hand put a header above the trace block)')
    p11(e, rep)
    rep.rule('P12', 'the recipients of a message are changed by policies '
             '(and by the storage, for settled ones) only: Queue itself '
             'neither assigns nor edits `.recipients` of an envelope it was '
             'handed (its own copies are its own to fill) - what '
             'the queue drops before the policy chain runs is stored for '
             'nobody')
    p12(e, rep)
    rep.rule('P13', 'envelopes are not told apart by id(): the queue and the '
             'policies never key a set / dict / comparison on the id() of an '
             'object - an id is unique only among objects alive at the same '
             'time, and the chain frees the envelope a policy replaced while '
             'it makes the copies: a fresh copy that gets the number of a '
             'dead envelope counts as "already scheduled" and is dropped')
    p13(e, rep)
    rep.rule('P7', 'policy objects do not share state: no class-level '
             'mutable object of a policy class is changed in place through '
             'self without __init__ giving each instance its own')
    common.shared_state_rule(
        e, rep, 'P7', ['slimta.policy'],
        'rules added to one policy apply in every other instance - a '
        'message is rewritten by the rules of another queue')
    rep.floor('P1', 5, 'split obligations')


def _is_copy(e: Engine, n: Node) -> bool:
    # (with the helper inlined the envelope.copy() inside it is the event;
    # a helper that is not inlined counts as the copy it makes)
    return (n.kind == 'call' and e.call_name(n) in (
        'copy', '_append_envelope_copy'))


class _Groups:
    """Reading of a split written with comprehensions: which lists of
    recipients one envelope copy is made for.  An expression is evaluated to
    a list of *sources* - 'rcpt' (one singleton list per recipient), 'groups'
    (the value lists of the domain table), 'bad' (one singleton list per bad
    recipient) - or None when it cannot be read."""

    def __init__(self, e, g, roles):
        self.e, self.g, self.roles = e, g, roles

    def role(self, x, fr):
        x, fr = common.origin(self.g, x, fr)
        try:
            k = canon(x, fr)
        except Exception:
            k = path_of(x, fr)
        r = self.roles.get(k)
        if r is None and isinstance(x, (ast.Name, ast.Attribute)):
            r = self.roles.get(path_of(x, fr))
        return r

    def lists(self, x, fr, depth=0):
        if depth > 8 or x is None:
            return None
        if isinstance(x, ast.Name):
            fn = fr.ctx.func
            if x.id in fn.params:
                x2, f2 = common.origin(self.g, x, fr, follow_locals=False)
                if x2 is x:
                    return None
                return self.lists(x2, f2, depth + 1)
            out = []
            ndefs = 0
            for st in walk_own(fn.node):
                tg = None
                if isinstance(st, ast.Assign) and len(st.targets) == 1 and \
                        isinstance(st.targets[0], ast.Name) and \
                        st.targets[0].id == x.id:
                    r = self.lists(st.value, fr, depth + 1)
                    ndefs += 1
                    if r is None or ndefs > 1:
                        return None
                    out += r
                elif isinstance(st, ast.AugAssign) and \
                        isinstance(st.target, ast.Name) and \
                        st.target.id == x.id:
                    r = self.lists(st.value, fr, depth + 1) if isinstance(
                        st.op, ast.Add) else None
                    if r is None:
                        return None
                    out += r
                elif isinstance(st, ast.Call) and \
                        isinstance(st.func, ast.Attribute) and \
                        isinstance(st.func.value, ast.Name) and \
                        st.func.value.id == x.id and st.func.attr in (
                            'extend', 'append', 'insert', 'remove', 'pop',
                            'clear', 'sort', 'reverse'):
                    if st.func.attr != 'extend' or len(st.args) != 1:
                        return None
                    r = self.lists(st.args[0], fr, depth + 1)
                    if r is None:
                        return None
                    out += r
                elif isinstance(st, (ast.For, ast.Assign)) and any(
                        isinstance(y, ast.Name) and y.id == x.id and
                        isinstance(y.ctx, ast.Store)
                        for y in ast.walk(st.target if isinstance(
                            st, ast.For) else st.targets[0])):
                    return None
            return out if ndefs == 1 else None
        if isinstance(x, ast.BinOp) and isinstance(x.op, ast.Add):
            a = self.lists(x.left, fr, depth + 1)
            b = self.lists(x.right, fr, depth + 1)
            return None if a is None or b is None else a + b
        if isinstance(x, ast.Call) and isinstance(x.func, ast.Name) and \
                x.func.id in ('list', 'tuple') and len(x.args) == 1:
            return self.lists(x.args[0], fr, depth + 1)
        if isinstance(x, ast.Call) and isinstance(x.func, ast.Attribute) and \
                x.func.attr == 'values' and not x.args and \
                self.role(x.func.value, fr) == 'groups':
            return ['groups']
        if isinstance(x, ast.Call) and not x.keywords and x.args and \
                ast.unparse(x.func) in ('chain', 'itertools.chain') and \
                not any(isinstance(a, ast.Starred) for a in x.args):
            # chain(a, b): the lists of a, then those of b
            out = []
            for a in x.args:
                r = self.lists(a, fr, depth + 1)
                if r is None:
                    return None
                out += r
            return out
        if isinstance(x, (ast.ListComp, ast.GeneratorExp)) and \
                len(x.generators) == 1 and not x.generators[0].ifs:
            gen = x.generators[0]
            src = self.role(gen.iter, fr)
            # [[v] for v in SRC]
            if isinstance(x.elt, ast.List) and len(x.elt.elts) == 1 and \
                    isinstance(x.elt.elts[0], ast.Name) and \
                    isinstance(gen.target, ast.Name) and \
                    x.elt.elts[0].id == gen.target.id and \
                    src in ('rcpt', 'bad'):
                return [src]
            # [rcpts for domain, rcpts in G.items()]
            if isinstance(gen.iter, ast.Call) and \
                    isinstance(gen.iter.func, ast.Attribute) and \
                    gen.iter.func.attr == 'items' and \
                    self.role(gen.iter.func.value, fr) == 'groups' and \
                    isinstance(gen.target, ast.Tuple) and \
                    len(gen.target.elts) == 2 and \
                    isinstance(x.elt, ast.Name) and \
                    isinstance(gen.target.elts[1], ast.Name) and \
                    x.elt.id == gen.target.elts[1].id:
                return ['groups']
            return None
        if isinstance(x, ast.Call):
            vals = common.values_of(self.g, x, fr)
            if len(vals) == 1 and vals[0][0] is x:
                return None
            outs = [self.lists(v, f2, depth + 1) for v, f2 in vals]
            if any(o is None for o in outs) or \
                    len({tuple(o) for o in outs}) != 1:
                return None
            return outs[0]
        return None

    def envelopes(self, x, fr, depth=0):
        """sources for which `x` holds one envelope copy each"""
        if depth > 8 or x is None:
            return None
        if isinstance(x, (ast.ListComp, ast.GeneratorExp)) and \
                len(x.generators) == 1 and not x.generators[0].ifs and \
                isinstance(x.elt, ast.Call) and \
                isinstance(x.elt.func, ast.Attribute) and \
                x.elt.func.attr == 'copy' and len(x.elt.args) == 1 and \
                isinstance(x.elt.args[0], ast.Name) and \
                isinstance(x.generators[0].target, ast.Name) and \
                x.elt.args[0].id == x.generators[0].target.id:
            return self.lists(x.generators[0].iter, fr, depth + 1)
        if isinstance(x, ast.Call) and isinstance(x.func, ast.Name) and \
                x.func.id == 'list' and len(x.args) == 1:
            return self.envelopes(x.args[0], fr, depth + 1)
        if isinstance(x, ast.Call):
            vals = common.values_of(self.g, x, fr)
            if len(vals) == 1 and vals[0][0] is x:
                return None
            outs = []
            for v, f2 in vals:
                if isinstance(v, ast.Constant) and v.value is None:
                    continue         # "keep the original"
                outs.append(self.envelopes(v, f2, depth + 1))
            if not outs or any(o is None for o in outs) or \
                    len({tuple(o) for o in outs}) != 1:
                return None
            return outs[0]
        if isinstance(x, ast.Name):
            x2, f2 = common.origin(self.g, x, fr)
            if x2 is not x:
                return self.envelopes(x2, f2, depth + 1)
        return None


def _split_by_comprehension(e, rep, g, where, roles, want, what):
    """the split spelled with comprehensions: every non-None value the root
    function returns holds one copy per element of `want`"""
    G = _Groups(e, g, roles)
    rets = [r for r in g.of_kind('stmt') if isinstance(r.ast, ast.Return)
            and r.frame is g.entry.frame and r.ast.value is not None and
            not (isinstance(r.ast.value, ast.Constant) and
                 r.ast.value.value is None)]
    if not rets:
        return False
    got = [G.envelopes(r.ast.value, r.frame) for r in rets]
    if any(x is None for x in got):
        return False
    for r, srcs in zip(rets, got):
        rep.evaluations += 1
        rep.check(sorted(srcs) == sorted(want), 'P1', where, what,
                  'the envelopes returned are copies for %s instead of %s: '
                  'recipients are lost or duplicated' % (srcs, want),
                  loc=r.loc(), reason='one copy per element of %s' % want)
    return True



def p1(e: Engine, rep: Report):
    # RecipientSplit.apply
    ctx = e.method_ctx(SPLIT + '.RecipientSplit', 'apply')
    g = e.build(ctx, raises=lambda b, n, r: set(),
                inline=e.inline_same_self(), max_depth=3)
    where = ctx.func.qname
    rep.functions.add(where)
    loops = [n for n in g.of_kind('iter') if isinstance(n.ast, ast.For) and
             'recipients' in ast.unparse(n.ast.iter)]
    if not loops:
        envp = ctx.func.params[1]
        roles = {'%s#%d.recipients' % (envp, g.entry.frame.id): 'rcpt'}
        if _split_by_comprehension(e, rep, g, where, roles, ['rcpt'],
                                   'one copy per recipient'):
            rep.evaluations += 1
        else:
            rep.error('anchor vanished: recipient loop in '
                      'RecipientSplit.apply')
    for lp in loops:
        rep.evaluations += 2
        lv = ast.unparse(lp.ast.target)
        copies = common.per_iteration_counts(
            g, lp, lambda n: 1 if n.kind == 'call' and
            e.call_name(n) == 'copy' else 0)
        appends = common.per_iteration_counts(
            g, lp, lambda n: 1 if n.kind == 'call' and
            e.call_name(n) == 'append' else 0)
        rep.check(copies == frozenset([1]) and appends == frozenset([1]),
                  'P1', where, 'one copy per recipient',
                  'per recipient the split makes %s copies and emits %s '
                  'envelopes: recipients are lost or duplicated'
                  % (sorted(copies), sorted(appends)), loc=lp.loc(),
                  reason='exactly one copy, appended once')
        cargs = [n for n in g.nodes if n.kind == 'call' and
                 e.call_name(n) == 'copy' and any(
                     sc.kind == 'loop' and sc.ast is lp.ast
                     for sc in n.scopes)]
        for c in cargs:
            a = c.ast.args[0] if c.ast.args else None
            rep.check(isinstance(a, ast.List) and len(a.elts) == 1 and
                      ast.unparse(a.elts[0]) == lv, 'P1', where,
                      'the copy carries exactly this recipient',
                      'the per-recipient copy is given `%s` instead of '
                      '[%s]' % (ast.unparse(a) if a else None, lv),
                      loc=c.loc(), reason='copy([rcpt])')
    rets = [n for n in g.of_kind('stmt') if isinstance(n.ast, ast.Return)]
    fx = e.facts(g)
    rep.evaluations += 1
    none_rets = [r for r in rets if r.ast.value is None or (
        isinstance(r.ast.value, ast.Constant) and r.ast.value.value is None)]
    # (a split that never keeps the original - one copy for a single
    # recipient - loses nothing)
    rep.check(all(
        any(p and ' <= 1' in k and 'len(' in k for p, k in (fx.at(r) or ()))
        for r in none_rets if fx.at(r) is not None), 'P1', where,
        'the original is kept only when there is nothing to split',
        'RecipientSplit.apply can return None (keep the original) for a '
        'message with several recipients, or never does',
        reason='return None only under len(recipients) <= 1',
        loc=ctx.func.loc())
    # RecipientDomainSplit._get_domain_groups
    ctx = e.method_ctx(SPLIT + '.RecipientDomainSplit', '_get_domain_groups')
    g = e.build(ctx, raises=lambda b, n, r: {'builtins.ValueError'}
                if n.kind == 'call' and e.call_name(n) == '_get_domain'
                else set())
    where = ctx.func.qname
    rep.functions.add(where)
    loops = [n for n in g.of_kind('iter') if isinstance(n.ast, ast.For)]
    if not loops:
        rep.error('anchor vanished: loop in _get_domain_groups')
    for lp in loops:
        rep.evaluations += 1
        # every iteration (normal or through the ValueError arm) places the
        # recipient exactly once
        counts = placement_counts(e, g, lp)
        rep.check(counts == frozenset([1]), 'P1', where,
                  'each recipient lands in exactly one group or in '
                  'bad_rcpts', 'a recipient is placed %s times per '
                  'iteration: it is dropped or delivered twice'
                  % sorted(counts), loc=lp.loc(),
                  reason='exactly one append on every path of the body')
    # RecipientDomainSplit.apply
    ctx = e.method_ctx(SPLIT + '.RecipientDomainSplit', 'apply')
    g = e.build(ctx, raises=lambda b, n, r: set(),
                inline=e.inline_same_self(deny=['_get_domain_groups',
                                                '_get_domain']),
                max_depth=3)
    where = ctx.func.qname
    rep.functions.add(where)
    loops = [n for n in g.of_kind('iter') if isinstance(n.ast, ast.For)]
    srcs = sorted(ast.unparse(lp.ast.iter) for lp in loops)
    rep.evaluations += 1
    comp_read = False
    if not loops:
        # names the (groups, bad recipients) pair was unpacked into
        roles = {}
        for s2 in g.of_kind('stmt'):
            if isinstance(s2.ast, ast.Assign) and \
                    isinstance(s2.ast.value, ast.Call) and \
                    ast.unparse(s2.ast.value.func).endswith(
                        '_get_domain_groups') and \
                    isinstance(s2.ast.targets[0], ast.Tuple) and \
                    len(s2.ast.targets[0].elts) == 2:
                a, b = s2.ast.targets[0].elts
                roles[path_of(a, s2.frame)] = 'groups'
                roles[path_of(b, s2.frame)] = 'bad'
        comp_read = bool(roles) and _split_by_comprehension(
            e, rep, g, where, roles, ['groups', 'bad'],
            'copies are made for every group and every bad recipient')
    if comp_read:
        pass
    elif not loops:
        rep.error('cannot read how RecipientDomainSplit.apply turns the '
                  'groups and the bad recipients into envelopes (no '
                  'emitting loops)')
    else:
      rep.check(len(loops) == 2 and any('groups' in s for s in srcs) and
              any('bad' in s for s in srcs), 'P1', where,
              'copies are made for every group and every bad recipient',
              'apply iterates over %s instead of the groups and the bad '
              'recipients' % srcs, reason='two emitting loops',
              loc=ctx.func.loc())
    for lp in loops:
        rep.evaluations += 1
        counts = common.per_iteration_counts(
            g, lp, lambda n: 1 if _is_copy(e, n) else 0)
        rep.check(counts == frozenset([1]), 'P1', where,
                  'one copy per %s' % ast.unparse(lp.ast.target),
                  '%s copies per iteration over %s' % (
                      sorted(counts), ast.unparse(lp.ast.iter)),
                  loc=lp.loc(), reason='exactly one copy')
    fx = e.facts(g)
    rets = [n for n in g.of_kind('stmt') if isinstance(n.ast, ast.Return)
            and (n.ast.value is None)]
    rep.evaluations += 1
    rep.check(all(any(
        p and ' <= 1' in k for p, k in (fx.at(r) or ())) for r in rets
        if fx.at(r) is not None),
        'P1', where, 'the original is kept only for a single group',
        'apply can keep the original although several groups exist',
        reason='return None only under len(groups)+len(bad) <= 1',
        loc=ctx.func.loc())


def placement_counts(e: Engine, g, lp):
    def count(n):
        return 1 if n.kind == 'call' and e.call_name(n) == 'append' else 0
    starts = [s for l, s in lp.succ if l == 'body']
    out = set()
    for st0 in starts:
        def transfer(n, st):
            if n is lp:
                return None
            c = count(n)
            if not c:
                return st
            return frozenset(min(3, x + c) for x in st)
        IN = dataflow.forward(g, frozenset([0]), transfer,
                              lambda a, b: a | b, start=st0)
        for l, p in lp.pred:
            if p.id in IN and p is not lp and l != 'body':
                st = IN[p.id]
                c = count(p)
                out |= set(min(3, x + c) for x in st) if c else set(st)
    return frozenset(out)


def p2(e: Engine, rep: Report):
    ctx = e.method_ctx(ENVELOPE, 'copy')
    where = ctx.func.qname
    rep.functions.add(where)
    fn = ctx.func.node
    rets = [n for n in walk_own(fn) if isinstance(n, ast.Return) and
            n.value is not None]
    ok = False
    for r in rets:
        if isinstance(r.value, ast.Name):
            defs = [n for n in walk_own(fn) if isinstance(n, ast.Assign) and
                    isinstance(n.targets[0], ast.Name) and
                    n.targets[0].id == r.value.id]
            ok = bool(defs) and all(
                isinstance(d.value, ast.Call) and
                ast.unparse(d.value.func) in ('copy.deepcopy', 'deepcopy')
                and d.value.args and ast.unparse(d.value.args[0]) == 'self'
                for d in defs)
        elif isinstance(r.value, ast.Call):
            ok = ast.unparse(r.value.func) in ('copy.deepcopy', 'deepcopy')
    rep.evaluations += 1
    rep.check(ok, 'P2', where, 'copies are deep copies',
              'Envelope.copy does not return copy.deepcopy(self): the '
              'copies share the header object / recipient list, so a '
              'change to one envelope changes the others',
              reason='new_env = copy.deepcopy(self)', loc=ctx.func.loc())
    # lists handed to copy() inside loops are fresh per iteration
    for f in e.p.functions.values():
        if not (f.module.name.startswith('slimta.policy') or
                f.module.name == 'slimta.queue'):
            continue
        ctxf = Ctx(f)
        calls = [n for n in walk_own(f.node) if isinstance(n, ast.Call) and
                 isinstance(n.func, ast.Attribute) and
                 n.func.attr == 'copy' and n.args]
        if not calls:
            continue
        loops = [n for n in walk_own(f.node)
                 if isinstance(n, (ast.For, ast.While))]
        for c in calls:
            ts = e.r.infer(c.func.value, ctxf)
            if not any(t[0] == 'inst' and e.p.is_subclass(t[1], ENVELOPE)
                       for t in ts):
                continue
            encl = [lp for lp in loops if any(x is c for x in ast.walk(lp))]
            if not encl:
                continue
            rep.evaluations += 1
            a = c.args[0]
            fresh = isinstance(a, (ast.List, ast.ListComp, ast.Tuple))
            if isinstance(a, ast.Name):
                # bound by the innermost enclosing loop target, or assigned
                # inside the loop body
                lp = encl[-1]
                tnames = {x.id for x in ast.walk(lp.target)
                          if isinstance(x, ast.Name)} \
                    if isinstance(lp, ast.For) else set()
                assigned_inside = any(
                    isinstance(s, ast.Assign) and any(
                        isinstance(t, ast.Name) and t.id == a.id
                        for t in s.targets) for s in ast.walk(lp))
                fresh = a.id in tnames or assigned_inside
            rep.functions.add(f.qname)
            rep.check(fresh, 'P2', f.qname,
                      'recipient list `%s` is fresh per copy'
                      % ast.unparse(a),
                      'the same list object `%s` is handed to every copy '
                      'made in this loop: the envelopes share their '
                      'recipient list' % ast.unparse(a), loc=f.loc(c),
                      reason='list display / loop variable')


def p3_module(e: Engine, rep: Report):
    """Module-wide header discipline of slimta.policy.headers: presence is
    tested on the Message object (its `in` ignores case, as header names
    do), and no policy removes or replaces a header that is there."""
    mod = 'slimta.policy.headers'
    ntests = 0
    for f in e.p.functions.values():
        if f.module.name != mod:
            continue
        for n in walk_own(f.node):
            if isinstance(n, ast.Compare) and len(n.ops) == 1 and \
                    isinstance(n.ops[0], (ast.In, ast.NotIn)) and \
                    'headers' in ast.unparse(n.comparators[0]):
                ntests += 1
                rep.evaluations += 1
                c = n.comparators[0]
                if isinstance(c, ast.Name):
                    # a local alias: headers = envelope.headers
                    ds = [a.value for a in walk_own(f.node)
                          if isinstance(a, ast.Assign) and any(
                              isinstance(t, ast.Name) and t.id == c.id
                              for t in a.targets)]
                    if len(ds) == 1:
                        c = ds[0]
                rep.check(isinstance(c, ast.Attribute) and
                          c.attr == 'headers', 'P3', f.qname,
                          'header presence tested on the message object',
                          'presence of a header is tested with `%s`: the '
                          'comparison is case-sensitive there, so an '
                          'existing header spelled differently (date: / '
                          'DATE:) is not seen and a second one is added or '
                          'the original replaced' % ast.unparse(n),
                          loc=f.loc(n), reason='`name in <msg>.headers` '
                          '(case-insensitive Message.__contains__)')
            dele = isinstance(n, ast.Delete) and any(
                'headers' in ast.unparse(t) for t in n.targets)
            repl = isinstance(n, ast.Call) and isinstance(
                n.func, ast.Attribute) and n.func.attr in (
                    'replace_header', '__delitem__', 'clear') and \
                'headers' in ast.unparse(n.func.value)
            if dele or repl:
                rep.evaluations += 1
                rep.bad('P3', f.qname, 'no header is removed: `%s`'
                        % ' '.join(ast.unparse(n).split())[:50],
                        'a header policy deletes / replaces headers of the '
                        'message: what the sender wrote is lost (deletion '
                        'by name removes every header of that name, in any '
                        'spelling)', loc=f.loc(n))
    if ntests < 1:
        rep.error('anchor vanished: header presence tests in %s (%d < 1)'
                  % (mod, ntests))


def p3(e: Engine, rep: Report):
    p3_module(e, rep)
    for cls, hdr in (('AddDateHeader', 'date'),
                     ('AddMessageIdHeader', 'message-id')):
        ctx = e.method_ctx('slimta.policy.headers.' + cls, 'apply')
        # (with the private helpers the test-and-add may have moved into)
        g = e.build(ctx, raises=lambda b, n, r: set(),
                    inline=e.inline_same_self(deny=['build_date']),
                    max_depth=3)
        fx = e.facts(g)
        where = ctx.func.qname
        rep.functions.add(where)
        ws = [n for n in g.of_kind('stmt') if isinstance(n.ast, ast.Assign)
              and isinstance(n.ast.targets[0], ast.Subscript) and
              'headers' in ast.unparse(n.ast.targets[0].value)]
        if not ws:
            if any(o.status == 'VIOLATED' and o.rule == 'P3'
                   for o in rep.obls):
                continue       # reported by the module-wide discipline
            rep.error('anchor vanished: header assignment in ' + where)
        for n in ws:
            rep.evaluations += 1
            key = n.ast.targets[0].slice
            if isinstance(key, ast.Name):
                # a helper's parameter: the name this call handed in
                k2, _kf = common.origin(g, key, n.frame, follow_locals=False)
                if isinstance(k2, ast.Constant):
                    key = k2
            kv = key.value.lower() if isinstance(key, ast.Constant) and \
                isinstance(key.value, str) else None
            kt = None
            if kv is None and isinstance(key, ast.Attribute) and \
                    isinstance(key.value, ast.Name) and \
                    key.value.id == 'self':
                # the header name is a class constant of the policy
                for k2 in e.p.mro(ctx.self_cls):
                    cc = common.class_constants(e, k2)
                    if key.attr in cc:
                        if isinstance(cc[key.attr], str):
                            kv = cc[key.attr].lower()
                            kt = canon(key, n.frame)
                        break
            st = fx.at(n) or frozenset()
            ok = any(kv is not None and (
                kv in k.lower() or (kt is not None and kt in k)) and
                     'headers' in k and (
                         (not p and ' in ' in k) or
                         (p and k.endswith(' is None') and
                          ('.get(' in k or '[' in k)) or
                         (not p and ('.get(' in k) and ' is ' not in k))
                     for p, k in st)
            rep.check(ok and kv == hdr, 'P3', where,
                      '%s header added only when absent' % hdr,
                      'the %s header is set without `%r not in '
                      'envelope.headers` holding: an existing header is '
                      'overwritten / duplicated' % (hdr, hdr), loc=n.loc(),
                      reason='dominated by the absence test for the same '
                      'header')
    ctx = e.method_ctx('slimta.policy.headers.AddReceivedHeader', 'apply')
    g = e.build(ctx, raises=lambda b, n, r: set())
    where = ctx.func.qname
    rep.functions.add(where)
    adds = [n for n in g.nodes if n.kind == 'call' and 'Received' in
            ast.unparse(n.ast)]
    rep.evaluations += 2
    rep.check(bool(adds) and all(e.call_name(n) == 'prepend_header'
                                 for n in adds), 'P3', where,
              'Received goes through prepend_header',
              'the Received header is not added with prepend_header: it '
              'ends up below older headers', reason='prepend_header',
              loc=ctx.func.loc())
    pctx = e.method_ctx(ENVELOPE, 'prepend_header')
    ins = [n for n in walk_own(pctx.func.node) if isinstance(n, ast.Call)
           and isinstance(n.func, ast.Attribute) and n.func.attr == 'insert']
    rep.check(bool(ins) and all(
        n.args and isinstance(n.args[0], ast.Constant) and
        n.args[0].value == 0 for n in ins), 'P3', pctx.func.qname,
        'prepend_header inserts at position 0',
        'prepend_header does not insert at index 0', reason='insert(0, ...)',
        loc=pctx.func.loc())


def p4(e: Engine, rep: Report):
    ctx = e.method_ctx('slimta.policy.forward.Forward', 'apply')
    g = e.build(ctx, raises=lambda b, n, r: set(),
                inline=e.inline_same_self(), max_depth=3)
    fx = e.facts(g)
    where = ctx.func.qname
    rep.functions.add(where)

    def container(n):
        v = n.ast.targets[0].value
        if isinstance(v, ast.Name):
            # a local alias of the list (`rcpts = envelope.recipients`)
            o, fr = common.origin(g, v, n.frame)
            if o is not v:
                try:
                    return canon(o, fr)
                except Exception:
                    return ast.unparse(o)
        try:
            return canon(v, n.frame)
        except Exception:
            return ast.unparse(v)
    ws = [n for n in g.of_kind('stmt') if isinstance(n.ast, ast.Assign) and
          isinstance(n.ast.targets[0], ast.Subscript) and
          'recipients' in container(n)]
    if not ws:
        rep.error('anchor vanished: recipient rewrite in Forward.apply')
    inner = [n for n in g.of_kind('iter') if isinstance(n.ast, ast.For) and
             'mapping' in ast.unparse(n.ast.iter)]
    # every recipient is put to the rules: from the start of an iteration
    # over the recipients no path comes back to the loop head (or leaves
    # apply) without having entered the rule loop
    outer = [n for n in g.of_kind('iter') if isinstance(n.ast, ast.For) and
             n not in inner and n.frame is g.entry.frame and any(
                 sc.kind == 'loop' and sc.ast is n.ast
                 for i2 in inner for sc in i2.scopes)]
    rep.evaluations += 1
    if not inner or not outer:
        rep.error('anchor vanished: recipient loop / rule loop in '
                  'Forward.apply')
    for lp in outer:
        starts = [s2 for l, s2 in lp.succ if l == 'body']
        pth = None
        for s0 in starts:
            pth = pth or dataflow.find_path(
                g, s0, lambda x: x is lp or x is g.exit,
                avoid=lambda x: x in inner,
                edge_ok=lambda a, l, s2: not isinstance(l, tuple))
        rep.check(pth is None, 'P4', where,
                  'every recipient is put to the rules',
                  'an iteration over the recipients can finish without '
                  'entering the loop over the forwarding rules: a '
                  'recipient some rule matches is skipped (a pre-filter '
                  'that does not decide exactly like the rules - flags of '
                  'compiled patterns, anchors - lets it through '
                  'unforwarded)', loc=lp.loc(),
                  reason='rule loop entered on every path of the iteration',
                  witness=dataflow.render_path(pth) if pth else None)
    def matched(st):
        # (a substitution count is never negative: != 0 is > 0)
        return any('change' in k and (
            (p and k.startswith('0 < ')) or
            (not p and k.endswith(' == 0')) or
            (p and k.endswith(' != 0'))) for p, k in st)
    for n in list(ws):
        # the new value comes out of a helper that carries the rule loop:
        # each of its returns is either under a match or hands back its
        # parameter as it came in
        v = n.ast.value
        if not (isinstance(v, ast.Call) and isinstance(v.func, ast.Attribute)
                and isinstance(v.func.value, ast.Name) and
                v.func.value.id in ('self', 'cls') and len(v.args) == 1):
            continue
        rets = [r for r in g.of_kind('stmt')
                if isinstance(r.ast, ast.Return) and
                r.frame is not g.entry.frame and
                r.frame.ctx.func.name == v.func.attr]
        if not rets:
            continue
        ws.remove(n)
        hf = rets[0].frame.ctx.func
        prm = [p for p in hf.params if p not in ('self', 'cls')]
        for r in rets:
            rep.evaluations += 1
            st = fx.at(r) or frozenset()
            val = r.ast.value
            same = isinstance(val, ast.Name) and val.id in prm and not any(
                isinstance(x, ast.Name) and x.id == val.id and
                isinstance(x.ctx, ast.Store) for x in walk_own(hf.node))
            rep.check(matched(st) or same, 'P4', hf.qname,
                      'recipient rewritten only by a matching rule',
                      '`%s` is what %s hands back when no rule matched, and '
                      'it is not the address as it came in (`%s` is re-bound '
                      'in the helper): apply() writes it over the '
                      'recipient - recipients no rule matches are changed'
                      % (r.text(40), hf.name,
                         ast.unparse(val) if val is not None else 'None'),
                      loc=r.loc(), reason='under changes > 0, or the '
                      'parameter untouched')
    for n in ws:
        rep.evaluations += 2
        st = fx.at(n) or frozenset()
        ok = matched(st)
        rep.check(ok, 'P4', where, 'recipient rewritten only by a matching '
                  'rule', 'a recipient is overwritten although the rule '
                  'made no substitution: unmatched recipients are changed',
                  loc=n.loc(), reason='dominated by changes > 0')
        # first match wins: after the write the rule loop is left
        back = inner and inner[0].id in dataflow.reachable(
            g, n, lambda a, l, s: not isinstance(l, tuple) and
            not (a.kind == 'iter' and a.ast is not inner[0].ast))
        pth = None
        if inner:
            pth = dataflow.find_path(
                g, n, lambda x: x is inner[0],
                avoid=lambda x: x.kind == 'iter' and x is not inner[0],
                edge_ok=lambda a, l, s: not isinstance(l, tuple))
        rep.check(pth is None, 'P4', where, 'first matching rule wins',
                  'after a rule matched, later rules are still applied to '
                  'the already rewritten recipient', loc=n.loc(),
                  reason='break after the rewrite',
                  witness=dataflow.render_path(pth) if pth else None)


def p5(e: Engine, rep: Report):
    ctx = e.method_ctx(QUEUE, '_run_policies')
    where = ctx.func.qname
    rep.functions.add(where)
    for lp, n, L, i in common.stale_index_sites(ctx.func.node):
        rep.bad('P5', where, 'positional update `%s`'
                % ' '.join(ast.unparse(n).split())[:50],
                '`%s` is updated at index `%s`, which enumerates a copy of '
                'the list taken before the loop: after a policy returned '
                'more than one envelope the index denotes another envelope, '
                'whose replacement overwrites it (its recipients vanish)'
                % (L, i), loc=ctx.func.loc(n))
    # the function that walks the chain: it applies a policy and calls
    # itself for the next one - a closure of _run_policies or a method
    f, self_call, skip = None, None, 0
    for nm, nf in sorted(ctx.func.nested.items()):
        calls = [x for x in ast.walk(nf.node) if isinstance(x, ast.Call)]
        if any(isinstance(c.func, ast.Name) and c.func.id == nm
               for c in calls) and any(
                isinstance(c.func, ast.Attribute) and c.func.attr == 'apply'
                for c in calls):
            f, self_call = nf, nm
    if f is None:
        qc = common.merged_class(e, QUEUE)
        for nm, m in sorted(qc.methods.items()):
            calls = [x for x in walk_own(m.node) if isinstance(x, ast.Call)]
            if any(ast.unparse(c.func) == 'self.' + nm for c in calls) and \
                    any(isinstance(c.func, ast.Attribute) and
                        c.func.attr == 'apply' for c in calls) and \
                    any(isinstance(x, ast.Call) and
                        ast.unparse(x.func) == 'self.' + nm
                        for x in walk_own(ctx.func.node)):
                f, self_call, skip = m, nm, 1
    if f is None:
        rep.error('anchor vanished: the recursive walk over the policy '
                  'chain below Queue._run_policies')
        return
    rctx = Ctx(f, QUEUE)
    rwhere = f.qname
    rep.functions.add(rwhere)
    g = e.build(rctx, raises=lambda b, n, r: set(),
                inline=e.inline_same_self(deny=[self_call]), max_depth=2)
    fx = e.facts(g)
    # a walk that advances in a loop and recurses only for replacements
    # (tail recursion turned into `while`): position arithmetic, not shape
    loop_walk = any(isinstance(w, ast.While) and any(
        isinstance(c, ast.Call) and isinstance(c.func, ast.Attribute) and
        c.func.attr == 'apply' for c in ast.walk(w))
        for w in walk_own(f.node))
    rem = [n for n in g.nodes if n.kind == 'call' and
           e.call_name(n) == 'remove']
    ext = [n for n in g.nodes if n.kind == 'call' and
           e.call_name(n) in ('extend',)]
    rec = [n for n in g.nodes if n.kind in ('call', 'call_enter') and
           e.call_name(n) == self_call]
    app = [n for n in g.nodes if n.kind == 'call' and
           e.call_name(n) == 'apply']
    if not (rec and app):
        rep.error('anchor vanished: recursion / apply in %s' % rwhere)
        return
    params = f.params[skip:]

    def position_walk():
        """The walk that advances its position in a `while` loop: the
        position variable relative to the policy applied last - 'F' nothing
        applied yet, 0 = the index just applied, 1 = one past it.  True when
        on every path each apply() uses the next index, each recursion is
        handed last-applied + 1, and nothing else moves the position; False
        when some path breaks that; None when the shape is not read."""
        recv = app[0].ast.func.value if isinstance(
            app[0].ast.func, ast.Attribute) else None
        if not (isinstance(recv, ast.Subscript) and
                isinstance(recv.slice, ast.Name)):
            return None
        iv = recv.slice.id
        ivp = path_of(recv.slice, app[0].frame)
        if any(not (isinstance(a.ast.func, ast.Attribute) and
                    isinstance(a.ast.func.value, ast.Subscript) and
                    path_of(a.ast.func.value.slice, a.frame) == ivp)
               for a in app):
            return None

        def pos_arg(n):
            # the argument of the recursion that lands in the position
            # parameter of the walk
            defs = [s2 for s2 in g.of_kind('stmt')
                    if isinstance(s2.ast, ast.Assign) and any(
                        isinstance(t, ast.Name) and t.id == iv
                        for t in s2.ast.targets)]
            pp = None
            if iv in params:
                pp = iv
            elif len(defs) == 1 and isinstance(defs[0].ast.value, ast.Name) \
                    and defs[0].ast.value.id in params:
                pp = defs[0].ast.value.id
            if pp is None:
                return None
            k = params.index(pp)
            return n.ast.args[k] if k < len(n.ast.args) else None

        def step(n, label, st):
            if isinstance(label, tuple) or st == 'bad':
                return st
            if n in app:
                return 0 if st in ('F', 1) else 'bad'
            if n.kind == 'stmt' and isinstance(n.ast, ast.AugAssign) and \
                    isinstance(n.ast.target, ast.Name) and \
                    n.ast.target.id == iv and n.frame is app[0].frame:
                if isinstance(n.ast.op, ast.Add) and \
                        isinstance(n.ast.value, ast.Constant) and \
                        n.ast.value.value == 1 and st == 0:
                    return 1
                return 'bad'
            if n.kind == 'stmt' and isinstance(n.ast, ast.Assign) and any(
                    isinstance(t, ast.Name) and t.id == iv
                    for t in n.ast.targets) and n.frame is app[0].frame:
                v = n.ast.value
                if st == 'F' and isinstance(v, ast.Name) and v.id in params:
                    return 'F'
                if st == 0 and isinstance(v, ast.BinOp) and \
                        isinstance(v.op, ast.Add) and \
                        isinstance(v.left, ast.Name) and v.left.id == iv and \
                        isinstance(v.right, ast.Constant) and \
                        v.right.value == 1:
                    return 1
                return 'bad'
            if n in rec:
                a = pos_arg(n)
                if a is None:
                    return 'bad'
                if isinstance(a, ast.Name) and a.id == iv and st == 1:
                    return st
                if isinstance(a, ast.BinOp) and isinstance(a.op, ast.Add) \
                        and isinstance(a.left, ast.Name) and \
                        a.left.id == iv and \
                        isinstance(a.right, ast.Constant) and \
                        a.right.value == 1 and st == 0:
                    return st
                return 'bad'
            return st
        if any(pos_arg(n) is None for n in rec):
            return None
        w = dataflow.typestate_witness(g, 'F', step,
                                       lambda n, st: st == 'bad')
        return w is None
    # which parameter is the envelope (handed to apply), which the position
    a0 = app[0].ast.args[0] if app[0].ast.args else None
    cur = a0.id if isinstance(a0, ast.Name) and a0.id in params else None
    if cur is None:
        rep.error('cannot tell which parameter of %s is the envelope handed '
                  'to policy.apply()' % rwhere)
        return
    epos = params.index(cur)
    rep.evaluations += 1
    rep.check(bool(rem) and bool(ext), 'P5', where,
              'an envelope is replaced by the outputs of the policy',
              'the walk no longer does both results.remove(current) and '
              'results.extend(ret): the original stays next to its '
              'replacements (every recipient is delivered twice) or the '
              'outputs are dropped', reason='remove + extend present',
              loc=f.loc())
    retv = None
    for s2 in g.of_kind('stmt'):
        if isinstance(s2.ast, ast.Assign) and s2.ast.value is app[0].ast:
            retv = path_of(s2.ast.targets[0], s2.frame)
    for n in rem + ext:
        rep.evaluations += 1
        rep.check(retv is not None and holds(fx.at(n), (True, retv)), 'P5',
                  where, '%s only when the policy produced outputs'
                  % e.call_name(n),
                  'the envelope is removed from / outputs are added to the '
                  'result list although the policy returned nothing: the '
                  'message disappears (or is duplicated)', loc=n.loc(),
                  reason='dominated by truthy(ret)')
    after = dataflow.must_events_after(
        g, lambda n: ['extend'] if n in ext else [], edge=c07.no_call_exc)
    for n in rem:
        rep.evaluations += 1
        st = after.get(n.id)
        rep.check(isinstance(st, dataflow.Top) or 'extend' in (st or ()),
                  'P5', where, 'replaced envelope is substituted by the '
                  'outputs', 'results.remove(current) is not followed by '
                  'results.extend(ret) on every path', loc=n.loc(),
                  reason='remove then extend')
    # recursion: position + 1 everywhere

    def env_arg(n):
        a = n.ast.args
        return a[epos] if epos < len(a) else None
    def plus_one(a, fnode):
        # `i + 1`, or a local bound once to it (`following = index + 1`)
        if isinstance(a, ast.Name):
            ds = [x.value for x in walk_own(fnode)
                  if isinstance(x, ast.Assign) and any(
                      isinstance(t, ast.Name) and t.id == a.id
                      for t in x.targets)]
            stores = [x for x in walk_own(fnode) if isinstance(x, ast.Name)
                      and x.id == a.id and isinstance(x.ctx, ast.Store)]
            if len(ds) == 1 and len(stores) == 1:
                a = ds[0]
        if isinstance(a, ast.BinOp) and isinstance(a.op, ast.Add):
            l, r = a.left, a.right
            if isinstance(l, ast.Constant):
                l, r = r, l
            if isinstance(r, ast.Constant) and r.value == 1 and \
                    isinstance(l, ast.Name):
                return l.id
        return None
    for n in rec:
        rep.evaluations += 1
        inc = [i for i, a in enumerate(n.ast.args)
               if i < len(params) and
               plus_one(a, n.frame.ctx.func.node) == params[i]]
        if not inc and loop_walk and position_walk() is not None:
            rep.check(position_walk(), 'P5', where,
                      'recursion advances to the next policy',
                      'the walk advances its position in a loop and calls '
                      'itself with `%s`: on some path that is not the index '
                      'after the policy applied last (a policy is skipped '
                      'or applied again)' % ', '.join(
                          ast.unparse(a) for a in n.ast.args), loc=n.loc(),
                      reason='position is last-applied + 1 at every '
                      'recursion and every further apply()')
            continue
        if not inc and loop_walk:
            rep.unknown('P5', where, 'recursion advances to the next policy',
                        'the walk advances its position in a `while` loop '
                        'and recurses with `%s`: whether that is the next '
                        'policy is arithmetic on the position, not read'
                        % ', '.join(ast.unparse(a) for a in n.ast.args),
                        loc=n.loc())
            continue
        rep.check(bool(inc), 'P5', where,
                  'recursion advances to the next policy',
                  'the walk calls itself with `%s`: a policy is skipped or '
                  'applied forever' % ', '.join(
                      ast.unparse(a) for a in n.ast.args), loc=n.loc(),
                  reason='same position parameter + 1')

    def in_loop(n, lp):
        return any(sc.kind == 'loop' and sc.ast is lp.ast for sc in n.scopes)

    def loop_kind(lp):
        """'outputs': iterates what apply() returned; 'successors':
        iterates a variable that is the outputs when there are some and
        exactly the current envelope otherwise; None: something else"""
        ip = path_of(lp.ast.iter, lp.frame)
        if retv is None or ip is None:
            return None
        defs = common.reaching_defs(g, lp, ip)
        if ip == retv:
            # the variable apply() was assigned to, possibly re-bound to
            # `(current, )` on the branch where it came back empty
            if not defs or any(d is None or not isinstance(d.ast, ast.Assign)
                               for d in defs):
                return 'outputs'
            alt = [d for d in defs if d.ast.value is not app[0].ast]
            if alt and all(
                    isinstance(d.ast.value, (ast.Tuple, ast.List)) and
                    len(d.ast.value.elts) == 1 and
                    isinstance(d.ast.value.elts[0], ast.Name) and
                    d.ast.value.elts[0].id == cur and
                    holds(fx.at(d), (False, retv)) for d in alt) and \
                    len(alt) < len(defs):
                return 'successors'
            return 'outputs'
        if not defs or any(d is None or not isinstance(d.ast, ast.Assign)
                           for d in defs):
            return None
        kinds = set()
        for d in defs:
            v = d.ast.value
            st = fx.at(d)
            if path_of(v, d.frame) == retv and holds(st, (True, retv)):
                kinds.add('out')
            elif isinstance(v, (ast.Tuple, ast.List)) and \
                    len(v.elts) == 1 and isinstance(v.elts[0], ast.Name) \
                    and v.elts[0].id == cur and holds(st, (False, retv)):
                kinds.add('cur')
            else:
                return None
        return 'successors' if kinds == {'out', 'cur'} else None
    loops = [(n, loop_kind(n)) for n in g.of_kind('iter')
             if isinstance(n.ast, ast.For)]
    loops = [(n, k) for n, k in loops if k]
    rep.evaluations += 2
    ok = False
    both = False
    for lp, kind in loops:
        counts = common.per_iteration_counts(
            g, lp, lambda n: 1 if n in rec else 0)
        lv = ast.unparse(lp.ast.target)
        args_ok = all(env_arg(n) is not None and
                      ast.unparse(env_arg(n)) == lv
                      for n in rec if in_loop(n, lp))
        ok = counts == frozenset([1]) and args_ok
        both = ok and kind == 'successors'
    rep.check(ok, 'P5', where, 'every output envelope runs through the '
              'remaining policies', 'not every envelope a policy returned '
              'is passed on to the later policies (exactly once)',
              reason='for env in ret: recurse(env, i+1)', loc=f.loc())
    # the no-output branch continues with the same envelope
    other = [n for n in rec if not any(sc.kind == 'loop'
                                       for sc in n.scopes)]
    untouched_ok = both or (bool(other) and all(
        env_arg(n) is not None and ast.unparse(env_arg(n)) == cur and
        retv is not None and holds(fx.at(n), (False, retv))
        for n in other))
    read_loop = False
    if not untouched_ok and loop_walk and position_walk() and \
            retv is not None:
        # the no-output branch goes round the loop: the same envelope meets
        # the next policy (or the chain has ended)
        heads = [h for h, w in common.while_heads(g)
                 if any(x is app[0].ast for x in ast.walk(w))]
        goes_on = False
        if len(heads) == 1:
            after = dataflow.must_events_after(
                g, lambda n: ['head'] if n is heads[0] else [],
                edge=c07.no_call_exc)
            for t in g.of_kind('test'):
                if path_of(t.ast, t.frame) != retv:
                    continue
                for l, s2 in t.succ:
                    if l == 'F':
                        st = after.get(s2.id)
                        goes_on = s2 is heads[0] or isinstance(
                            st, dataflow.Top) or 'head' in (st or ())
            rebinds = [s2 for s2 in g.of_kind('stmt')
                       if isinstance(s2.ast, (ast.Assign, ast.AugAssign)) and
                       any(isinstance(y, ast.Name) and y.id == cur and
                           isinstance(y.ctx, ast.Store)
                           for y in ast.walk(s2.ast))]
            untouched_ok = goes_on and not rebinds
            read_loop = True
    if not untouched_ok and loop_walk and not read_loop:
        rep.unknown('P5', where, 'an untouched envelope runs through the '
                    'remaining policies', 'the walk goes on to the next '
                    'policy by looping, not by calling itself: not read',
                    loc=f.loc())
        untouched_ok = True
    rep.check(untouched_ok, 'P5', where,
        'an untouched envelope runs through the remaining policies',
        'when a policy returns nothing the envelope is not handed to the '
        'later policies', reason='else: recurse(current, i+1)', loc=f.loc())


# --------------------------------------------------------------------- P6
MEMOISERS = {'lru_cache', 'cache', 'cached_property', 'memoize', 'memoized'}


def p6(e: Engine, rep: Report):
    """Every output envelope owns its recipient list (P2).  A policy that
    memoises a function returning lists hands the SAME list objects to the
    envelopes of different messages: an in-place change made for one message
    (forwarding assigns by index, storage deletes delivered positions) shows
    up in the others."""
    from ..kinds import Kinds
    K = Kinds(e)
    n = 0
    for m in e.p.modules.values():
        if not m.name.startswith('slimta.policy'):
            continue
        for f in [f for f in e.p.functions.values() if f.module is m]:
            for x in ast.walk(f.node):
                wrapped = None
                if isinstance(x, ast.Call) and isinstance(x.func, ast.Call) \
                        and ast.unparse(x.func.func).rpartition('.')[2] in \
                        MEMOISERS and x.args:
                    wrapped = x.args[0]          # lru_cache(..)(self.f)
                elif isinstance(x, ast.Call) and \
                        ast.unparse(x.func).rpartition('.')[2] in MEMOISERS \
                        and x.args and isinstance(
                            x.args[0], (ast.Attribute, ast.Name)):
                    wrapped = x.args[0]          # cache(self.f)
                if wrapped is None:
                    continue
                nm = wrapped.attr if isinstance(wrapped, ast.Attribute) \
                    else wrapped.id
                tgt = None
                if f.cls is not None:
                    tgt = e.p.lookup_method(f.cls.qname, nm)
                tgt = tgt or e.p.functions.get(m.name + '.' + nm)
                n += 1
                rep.evaluations += 1
                _p6_judge(e, rep, K, tgt, f, x, nm)
        for f in [f for f in e.p.functions.values() if f.module is m]:
            for d in getattr(f.node, 'decorator_list', []):
                dn = d.func if isinstance(d, ast.Call) else d
                if ast.unparse(dn).rpartition('.')[2] in MEMOISERS:
                    n += 1
                    rep.evaluations += 1
                    _p6_judge(e, rep, K, f, f, d, f.name)
    rep.evaluations += 1
    if n == 0:
        rep.ok('P6', 'slimta.policy', 'no policy memoises a function',
               reason='no lru_cache / cache / cached_property in '
               'slimta.policy.*', nontrivial=False)


def _p6_judge(e, rep, K, tgt, f, site, nm):
    from ..kinds import show
    if tgt is None:
        rep.error('cannot resolve the memoised function `%s` in %s'
                  % (nm, f.qname))
        return
    kk = K.return_kinds(Ctx(tgt, tgt.cls.qname if tgt.cls else None))

    def mutable(k):
        if k in ('List', 'Dict', 'Set'):
            return True
        if isinstance(k, tuple) and k[0] == 'tuple':
            return any(mutable(y) for ks2 in k[1] for y in ks2)
        return False
    bad = any(mutable(k) for k in kk)
    rep.check(not bad, 'P6', f.qname,
              'memoised `%s` returns nothing mutable' % nm,
              '`%s` is memoised and returns %s: the list objects it built '
              'once are handed to the envelopes of every later message '
              'with the same input - recipient lists are shared between '
              'messages, an in-place change for one shows up in the '
              'others' % (nm, show(kk)), loc=f.loc(site),
              reason='returns ' + show(kk))


# ---------------------------------------------------------------------- P8
def p8(e: Engine, rep: Report):
    from ..kinds import Kinds, show, U
    K = Kinds(e)
    # how often does the consumer walk the result?
    rctx = e.method_ctx('slimta.queue.Queue', '_run_policies')
    walks = 0
    counted = set()

    class _Once(int):
        pass
    qc = common.merged_class(e, 'slimta.queue.Queue')
    for fn in [m.node for _, m in sorted(qc.methods.items())]:
        for x in ast.walk(fn):
            if isinstance(x, ast.Assign) and isinstance(x.value, ast.Call) \
                    and isinstance(x.value.func, ast.Attribute) and \
                    x.value.func.attr == 'apply' and \
                    isinstance(x.targets[0], ast.Name):
                rv = x.targets[0].id
                scope = fn
                for y in ast.walk(scope):
                    if isinstance(y, ast.For) and \
                            isinstance(y.iter, ast.Name) and y.iter.id == rv \
                            and id(y) not in counted:
                        counted.add(id(y))
                        walks += 1
                    if isinstance(y, ast.Call) and \
                            isinstance(y.func, ast.Attribute) and \
                            y.func.attr in ('extend', 'update') and any(
                                isinstance(a, ast.Name) and a.id == rv
                                for a in y.args) and id(y) not in counted:
                        counted.add(id(y))
                        walks += 1
                    if isinstance(y, ast.Call) and \
                            isinstance(y.func, ast.Name) and \
                            y.func.id in ('list', 'tuple', 'sorted', 'len') \
                            and any(isinstance(a, ast.Name) and a.id == rv
                                    for a in y.args) and \
                            id(y) not in counted:
                        counted.add(id(y))
                        walks += 1
                # a re-binding to a materialised copy makes any result fine
                if any(isinstance(y, ast.Assign) and
                       isinstance(y.targets[0], ast.Name) and
                       y.targets[0].id == rv and y is not x and
                       isinstance(y.value, ast.Call) and
                       isinstance(y.value.func, ast.Name) and
                       y.value.func.id in ('list', 'tuple')
                       for y in ast.walk(scope)):
                    walks = 1
    rep.evaluations += 1
    if walks == 0:
        rep.error('anchor vanished: consumption of policy.apply() in '
                  'Queue._run_policies')
        return
    n = 0
    for cq in sorted(e.p.subclasses('slimta.policy.QueuePolicy')):
        ctx = e.method_ctx(cq, 'apply')
        if ctx.func.cls.qname == 'slimta.policy.QueuePolicy':
            continue
        n += 1
        rep.evaluations += 1
        rep.functions.add(ctx.func.qname)
        kk = K.return_kinds(ctx)
        oneshot = [k for k in kk if k in ('Gen', 'Iter', 'Map', 'Filter',
                                          'Zip', 'DictView')]
        rep.check(walks <= 1 or not oneshot, 'P8', ctx.func.qname,
                  'apply() returns something that can be walked twice',
                  'apply() can return a %s, and Queue._run_policies walks '
                  'the result %d times: the first walk (adding the copies '
                  'to the result) exhausts it, the recursion over the '
                  'copies finds nothing - the policies after this one '
                  'never see the split envelopes' % (show(frozenset(oneshot)),
                                                    walks),
                  loc=ctx.func.loc(), reason='returns %s' % show(kk))
    if n < 5:
        rep.error('anchor vanished: QueuePolicy implementations (%d < 5)'
                  % n)


# ---------------------------------------------------------------------- P9
def p9(e: Engine, rep: Report):
    n = 0
    for cq, attr in ((QUEUE, 'queue_policies'),
                     ('slimta.relay.Relay', 'relay_policies')):
        ctx = e.method_ctx(cq, 'add_policy')
        if ctx is None:
            continue
        g = e.build(ctx, raises=lambda b, nn, r: set(),
                    inline=e.inline_same_self(), max_depth=3)
        where = ctx.func.qname
        rep.functions.add(where)
        n += 1
        rep.evaluations += 1

        def step(nd, label, st, attr=attr):
            if isinstance(label, tuple):
                return st
            if nd.kind == 'call' and isinstance(nd.ast.func, ast.Attribute) \
                    and nd.ast.func.attr in ('append', 'insert', 'extend') \
                    and (path_of(nd.ast.func.value, nd.frame) or
                         '').endswith(attr):
                return True
            if nd.kind == 'stmt' and isinstance(nd.ast, (ast.Assign,
                                                         ast.AugAssign)):
                tg = nd.ast.targets if isinstance(nd.ast, ast.Assign) \
                    else [nd.ast.target]
                if any((path_of(t, nd.frame) or '').endswith(attr)
                       for t in tg):
                    return True
            return st
        w = dataflow.typestate_witness(
            g, False, step, lambda nd, st: nd is g.exit and not st)
        rep.check(w is None, 'P9', where,
                  'an accepted policy is appended to self.%s' % attr,
                  'add_policy can return without having added the policy '
                  'to self.%s: the chain that runs is shorter than the '
                  'chain that was configured (a policy listed twice runs '
                  'once; its second effect is missing)' % attr,
                  loc=ctx.func.loc(), reason='append on every path that '
                  'returns', witness=dataflow.render_path(w, 10)
                  if w else None)
    if n < 2:
        rep.error('anchor vanished: add_policy of queue and relay (%d < 2)'
                  % n)


# --------------------------------------------------------------------- P10
def p10(e: Engine, rep: Report):
    c = e.p.classes.get('slimta.policy.forward.Forward')
    if c is None:
        rep.error('anchor vanished: slimta.policy.forward.Forward')
        return
    n = 0
    for mname, m in sorted(c.methods.items()):
        for x in walk_own(m.node):
            bad = None
            if isinstance(x, ast.Call) and isinstance(x.func, ast.Attribute):
                recv = ast.unparse(x.func.value)
                if recv == 'self.mapping' and x.func.attr != 'append' and \
                        x.func.attr in ('insert', 'sort', 'reverse', 'extend',
                                        'pop', 'remove', 'clear'):
                    bad = x
                elif x.func.attr in ('insort', 'insort_left', 'insort_right',
                                     'heappush') and any(
                        ast.unparse(a) == 'self.mapping' for a in x.args):
                    bad = x
                elif recv == 'self.mapping' and x.func.attr == 'append':
                    n += 1
            if bad is not None:
                n += 1
                rep.evaluations += 1
                rep.functions.add(m.qname)
                rep.bad('P10', m.qname, '`%s`' % ' '.join(
                    ast.unparse(bad).split())[:50],
                    'the rule list is changed by %s(): rules are no longer '
                    'checked in the order they were added, so another rule '
                    'than the first matching one rewrites the recipient'
                    % bad.func.attr, loc=m.loc(bad))
    rep.evaluations += 1
    if n < 1:
        rep.error('anchor vanished: writes of Forward.mapping')
    else:
        rep.ok('P10', 'slimta.policy.forward.Forward', 'rules are appended',
               reason='append only', nontrivial=False)


# --------------------------------------------------------------------- P11
def p11(e: Engine, rep: Report):
    n = 0
    for f in e.p.functions.values():
        if not f.module.name.startswith('slimta.policy'):
            continue
        n += 1
        for x in walk_own(f.node):
            if isinstance(x, ast.Attribute) and x.attr == '_headers':
                rep.evaluations += 1
                rep.functions.add(f.qname)
                rep.bad('P11', f.qname, '`%s`' % ast.unparse(x),
                        '%s reaches into the private header list of the '
                        'message: a header placed at a hand-computed '
                        'position can end up above the Received lines the '
                        'chain added (or replace the order the other '
                        'policies rely on)' % f.name, loc=f.loc(x))
    rep.evaluations += 1
    if n < 5:
        rep.error('anchor vanished: functions of slimta.policy (%d < 5)' % n)
    else:
        rep.ok('P11', 'slimta.policy', 'no access to Message internals',
               reason='%d functions scanned' % n, nontrivial=False)


# --------------------------------------------------------------------- P12
def p12(e: Engine, rep: Report):
    c = common.merged_class(e, QUEUE)
    n = 0
    bad = 0
    muts = {'append', 'extend', 'insert', 'remove', 'pop', 'clear', 'sort',
            'reverse', '__setitem__', '__delitem__'}
    for mname, m in sorted(c.methods.items()):
        n += 1
        for x in walk_own(m.node):
            hit = None
            if isinstance(x, ast.Attribute) and x.attr == 'recipients' and \
                    isinstance(x.ctx, (ast.Store, ast.Del)):
                hit = x
            elif isinstance(x, ast.Subscript) and \
                    isinstance(x.ctx, (ast.Store, ast.Del)) and \
                    isinstance(x.value, ast.Attribute) and \
                    x.value.attr == 'recipients':
                hit = x
            elif isinstance(x, ast.Call) and \
                    isinstance(x.func, ast.Attribute) and \
                    x.func.attr in muts and \
                    isinstance(x.func.value, ast.Attribute) and \
                    x.func.value.attr == 'recipients':
                hit = x
            if hit is None:
                continue
            # (a copy the method made itself - the per-reply groups of a
            # bounce - is its own to fill)
            base = hit
            while isinstance(base, (ast.Attribute, ast.Subscript, ast.Call)):
                base = base.func if isinstance(base, ast.Call) else base.value
            if not (isinstance(base, ast.Name) and base.id in m.params):
                continue
            bad += 1
            rep.evaluations += 1
            rep.functions.add(m.qname)
            rep.bad('P12', m.qname, '`%s`' % ' '.join(
                ast.unparse(hit).split())[:50],
                'Queue.%s changes the recipient list of an envelope itself: '
                'recipients it takes out are in no envelope that gets '
                'stored (nobody is told), whatever the policy chain is'
                % mname, loc=m.loc(hit))
    rep.evaluations += 1
    if n < 10:
        rep.error('anchor vanished: methods of Queue (%d < 10)' % n)
    elif not bad:
        rep.ok('P12', QUEUE, 'Queue never writes `.recipients`',
               reason='%d methods scanned' % n, nontrivial=False)


def p13(e: Engine, rep: Report):
    n = 0
    k = 0
    for f in sorted(e.p.functions.values(), key=lambda f: f.qname):
        mn = f.module.name
        if not (mn == 'slimta.queue' or mn.startswith('slimta.policy')):
            continue
        k += 1
        bound = set(f.params) | {
            x.id for x in walk_own(f.node) if isinstance(x, ast.Name) and
            isinstance(x.ctx, ast.Store)}
        parent = {}
        for x in walk_own(f.node):
            for ch in ast.iter_child_nodes(x):
                parent[id(ch)] = x

        def keyed(x):
            # kept, compared or used as a key (not merely shown in a log)
            p = parent.get(id(x))
            while isinstance(p, (ast.Tuple, ast.List, ast.Starred)):
                x, p = p, parent.get(id(p))
            if isinstance(p, (ast.Compare, ast.Set, ast.Dict, ast.Subscript,
                              ast.Assign, ast.AugAssign, ast.Return,
                              ast.SetComp, ast.DictComp, ast.ListComp,
                              ast.GeneratorExp, ast.comprehension)):
                return True
            return isinstance(p, ast.Call) and \
                isinstance(p.func, (ast.Attribute, ast.Name)) and (
                    p.func.attr if isinstance(p.func, ast.Attribute)
                    else p.func.id) in (
                    'add', 'append', 'discard', 'remove', 'setdefault',
                    'get', 'pop', 'set', 'frozenset', 'dict', 'update',
                    'index', 'count', 'insert')
        for x in walk_own(f.node):
            if isinstance(x, ast.Call) and isinstance(x.func, ast.Name) and \
                    x.func.id == 'id' and 'id' not in bound and \
                    len(x.args) == 1 and keyed(x):
                n += 1
                rep.evaluations += 1
                rep.functions.add(f.qname)
                rep.bad('P13', f.qname, '`%s`' % ' '.join(
                    ast.unparse(x).split())[:40],
                    '%s identifies an object by `%s`: the number is reused '
                    'as soon as the object is freed, so two different '
                    'envelopes of one policy run (a replaced one and a copy '
                    'made after it was dropped) can carry the same key - the '
                    'later one is taken for the earlier and never stored: '
                    'its recipients vanish' % (f.name, ' '.join(
                        ast.unparse(x).split())[:40]), loc=f.loc(x))
    rep.evaluations += 1
    if k < 5:
        rep.error('anchor vanished: functions of slimta.queue / '
                  'slimta.policy (%d)' % k)
    elif n == 0:
        rep.ok('P13', 'slimta.queue', 'no id() of an object in %d functions '
               'of the queue and the policies' % k,
               reason='envelopes are held by reference', nontrivial=False)
