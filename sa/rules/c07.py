"""C07 - the SMTP server enforces command order and resets transaction state.

R7.1 callbacks are invoked only under their protocol preconditions (guard
     dominance over every path of every _command_* handler)
R7.2 session flags become truthy only under the success code of the reply
     that went through the callback
R7.3 exactly one final reply per command line on every normal path
R7.4 every handler-mutable reply that is sent is followed by the close-code
     check; the check raises for 221/421 and `handle` ends the session
R7.5 transaction state is forgotten at every reset point (server + edge)
R7.6 the Optional command argument is never used unguarded
R7.7 main loop: unknown_command exactly for unparsable lines
"""
from __future__ import annotations

import ast
from typing import Dict, List, Optional, Set

from ..engine import Engine
from ..report import Report
from ..cfg import Node, CFG
from ..facts import (path_of, canon, holds, atoms_of_test, parse_atom,
                     key_paths)
from .. import dataflow
from ..resolve import Ctx
from ..model import walk_own
from . import common

SERVER = 'slimta.smtp.server.Server'
SESSION = 'slimta.edge.smtp.SmtpSession'
FLAGS = {'bannered': '220', 'ehlo_as': '250', 'have_mailfrom': '250',
         'have_rcptto': '250', 'authed': '235'}

# callback -> required facts (ARG = the command argument parameter)
PRECONDITIONS = {
    'EHLO': ['self.bannered', 'ARG'],
    'HELO': ['self.bannered', 'ARG'],
    'STARTTLS': ["'STARTTLS' in self.extensions", 'not ARG',
                 'self.ehlo_as'],
    'AUTH': ["'AUTH' in self.extensions", 'self.ehlo_as',
             'not self.authed', 'not self.have_mailfrom'],
    'MAIL': ['self.ehlo_as', 'not self.have_mailfrom'],
    'RCPT': ['self.have_mailfrom'],
    'DATA': ['self.have_mailfrom', 'self.have_rcptto', 'not ARG'],
    'RSET': ['not ARG'],
    'QUIT': ['not ARG'],
}
NO_PRECONDITION = {'BANNER_', 'NOOP', 'CLOSE', 'TLSHANDSHAKE',
                   'TLSHANDSHAKE2', 'HAVE_DATA'}

# reset points: (method, success code or None=unconditional, attrs)
RESET_POINTS = [
    ('_command_EHLO', '250', ('have_mailfrom', 'have_rcptto')),
    ('_command_HELO', '250', ('have_mailfrom', 'have_rcptto')),
    ('_command_RSET', '250', ('have_mailfrom', 'have_rcptto')),
    # RFC 3207 4.2: after the handshake the server discards what it learnt
    ('_command_STARTTLS', '220', ('have_mailfrom', 'have_rcptto')),
    ('_get_message_data', None, ('have_mailfrom', 'have_rcptto')),
]


def command_methods(e: Engine) -> List[str]:
    c = e.p.cls(SERVER)
    return sorted(m for m in c.methods if m.startswith('_command_'))


def build(e: Engine, name: str, deny=('_call_custom_handler',)) -> CFG:
    ctx = e.method_ctx(SERVER, name)
    return e.build(ctx, inline=e.inline_same_self(deny=list(deny)),
                   max_depth=5)


def cb_sites(e: Engine, g: CFG) -> List[Node]:
    return [n for n in g.nodes if n.kind == 'call' and
            e.call_name(n) == '_call_custom_handler' and
            any(t == SERVER + '._call_custom_handler'
                for t in e.targets(n))]


def cb_name(n: Node) -> Optional[str]:
    a = n.ast.args
    if a and isinstance(a[0], ast.Constant) and isinstance(a[0].value, str):
        return a[0].value
    return None


def cb_reply(n: Node) -> Optional[str]:
    a = n.ast.args
    if len(a) >= 2:
        return path_of(a[1], n.frame)
    return None


def arg_path(g: CFG) -> Optional[str]:
    f = g.root_ctx.func
    ps = f.params[1:] if f.params and f.params[0] == f.self_name \
        else f.params
    if not ps:
        return None
    return '%s#%d' % (ps[-1], g.entry.frame.id)


def required_atoms(spec: List[str], argp: Optional[str]):
    out = []
    for t in spec:
        if 'ARG' in t:
            if argp is None:
                continue
            t = t.replace('ARG', argp)
        out.append(parse_atom(t))
    return out


def is_reply_send(e: Engine, n: Node) -> Optional[str]:
    """Canonical path / text of the reply being sent, for Reply.send(io) and
    IO.send_reply(reply) call nodes."""
    if n.kind != 'call':
        return None
    ts = e.targets(n)
    if 'slimta.smtp.reply.Reply.send' in ts and \
            isinstance(n.ast.func, ast.Attribute):
        return canon(n.ast.func.value, n.frame)
    if 'slimta.smtp.io.IO.send_reply' in ts and n.ast.args:
        return canon(n.ast.args[0], n.frame)
    if not ts and isinstance(n.ast.func, ast.Attribute) and \
            n.ast.func.attr == 'send' and n.ast.args and \
            (path_of(n.ast.args[0], n.frame) or '').endswith('.io'):
        # receiver of unknown type (taken out of a tuple a helper handed
        # back): `<x>.send(self.io)` is the signature of Reply.send
        return canon(n.ast.func.value, n.frame)
    return None


def no_call_exc(p, l, s, si):
    """Backward edge filter: ignore exception edges out of calls (the action
    itself failed), keep explicit raise statements."""
    if isinstance(l, tuple) and p.kind != 'stmt':
        return None
    return si


def own_exprs(n: Node):
    """Expression nodes evaluated *by this CFG node itself*: the walk does
    not descend into nested calls (they have their own nodes)."""
    a = n.ast
    if n.kind in ('call',):
        roots = [a.func] + list(a.args) + [k.value for k in a.keywords]
    elif n.kind == 'test':
        roots = [a] if not isinstance(a, ast.Call) else []
    elif n.kind == 'stmt':
        roots = []
        for fld in ('value', 'exc', 'test'):
            v = getattr(a, fld, None)
            if isinstance(v, ast.expr):
                roots.append(v)
        for t in getattr(a, 'targets', []) or []:
            roots.append(t)
        if isinstance(a, (ast.AugAssign, ast.AnnAssign)):
            roots.append(a.target)
    elif n.kind == 'iter':
        roots = [a.iter]
    else:
        roots = []
    stack = list(roots)
    first = set(map(id, roots))
    while stack:
        x = stack.pop()
        yield x
        for c in ast.iter_child_nodes(x):
            if isinstance(c, ast.Call) and not (n.kind == 'call' and
                                                 c is a):
                # nested call: its func/args belong to that call's node,
                # except the attribute receiver chain which is evaluated here
                continue
            if isinstance(c, (ast.expr, ast.keyword, ast.slice if hasattr(
                    ast, 'slice') else ast.expr)):
                stack.append(c)


def run(e: Engine, rep: Report):
    rep.rule('R7.1', 'each handler callback site is dominated by its '
             'protocol preconditions (table PRECONDITIONS)')
    rep.rule('R7.2', 'assignments that can make a session flag truthy are '
             'conditioned on the success code of the callback reply')
    rep.rule('R7.3', 'exactly one final reply per command on every normal '
             'path (DATA adds its intermediate 354)')
    rep.rule('R7.4', 'a sent handler-mutable reply is followed by '
             '_check_close_code(reply); which raises for 221/421; handle '
             'turns it into CLOSE + end of loop')
    rep.rule('R7.5', 'have_mailfrom/have_rcptto (server) and the envelope '
             '(edge) are reset at every reset point')
    rep.rule('R7.6', 'uses of the Optional command argument that fail on '
             'None are dominated by a truthiness test')
    rep.rule('R7.7', 'main loop: unknown_command is sent exactly when the '
             'line did not parse; handlers run only for parsed commands')
    rep.tables.add('c07.PRECONDITIONS')
    rep.tables.add('c07.RESET_POINTS')
    rep.not_decided += ['reply texts', 'the depth-bounded command sequence '
                        'space as executions (per-command guards + resets '
                        'are the inductive step of that state graph)']
    cmds = command_methods(e)
    if len(cmds) < 12:
        rep.error('anchor vanished: %d _command_* handlers (< 12)'
                  % len(cmds))
    seen_cbs: Set[str] = set()
    for name in cmds:
        g = build(e, name)
        fx = e.facts(g)
        where = SERVER + '.' + name
        for fr in {n.frame for n in g.nodes}:
            rep.functions.add(fr.ctx.func.qname)
        argp = arg_path(g)
        r71(e, rep, g, fx, where, argp, seen_cbs)
        r72(e, rep, g, fx, where)
        r73(e, rep, g, where, name)
        r74(e, rep, g, where)
        r76(e, rep, name, where)
    missing = set(PRECONDITIONS) - seen_cbs
    if missing:
        rep.error('anchor vanished: no callback site for %s' % sorted(missing))
    have_data_reach(e, rep)
    r74_close(e, rep)
    r75(e, rep)
    r75_edge(e, rep)
    r77(e, rep)
    rep.rule('R7.8', 'session flags that are tested by truthiness are set '
             'to a constant, a boolean expression or a value established '
             'non-empty on the path')
    r78(e, rep)
    from . import c09, c08
    rep.rule('R7.9', '= C09-G7: no way out of Server.handle with replies '
             'still in the send buffer (the 221/421 that ends the session '
             'reaches the client)')
    c09.g7(e, rep, 'R7.9')
    rep.rule('R7.10', '= C08-R8.8: the offered extension set is extended '
             'by the constructor only (a withdrawn STARTTLS cannot come '
             'back, its callback cannot run twice)')
    c08.r88(e, rep, 'R7.10')
    rep.rule('R7.11', 'what the command parser can hand to the dispatcher '
             '(alphabet of the command patterns after the transformations '
             'applied on the way) cannot spell the greeting pseudo-command '
             'or the message-received callback (table PROTECTED_NAMES): '
             'those run only when the server itself decides')
    r711(e, rep)
    rep.rule('R7.12', 'an exception that leaves a command handler ends the '
             'session: no except arm around the dispatch resumes the main '
             'loop (the handler may have been left half-way, with the '
             'transaction flags set)')
    r712(e, rep)
    rep.rule('R7.13', '= C09-G5: when the reader gives up in the middle of '
             'the message the session ends (what is left of the body is '
             'never answered line by line, nor waited for)')
    c09.g5(e, rep, 'R7.13')
    rep.rule('R7.14', 'the pattern MAIL takes its path with rejects the '
             'keyword of RCPT and the other way round (regex syntax tree '
             'run on the literal the client writes for the other verb): '
             '`MAIL TO:<x>` / `RCPT FROM:<x>` are malformed and never reach '
             'a callback')
    from . import c06
    c06.cross_keywords(e, rep, 'R7.14')
    rep.rule('R7.15', 'the command reader hands back (or gives up) only at '
             'a line end: every return of IO.recv_line lies where the line '
             'search has succeeded, so what is left in the buffer starts a '
             'new command line (one line, one reply)')
    r715(e, rep)
    rep.rule('R7.16', 'the reply a callback receives is made for this '
             'command: never one of the canned module-level Reply objects '
             '(validators answer by changing the reply they are given - on '
             'a shared object the verdict sticks for every later command '
             'and session)')
    r716(e, rep)
    rep.rule('R7.17', 'the close signal is nobody\'s error: StopIteration '
             'raised under a command (or the greeting) is caught only by an '
             'arm that names it - never by `except Exception` (which '
             'answers with an "unhandled error" 421 of its own: a second '
             'final reply after the 221 / 421 that ended the session)')
    r717(e, rep)
    rep.rule('R7.18', 'the edge session forgets its envelope where the '
             'server forgets the transaction (table ENVELOPE_FORGETTERS: '
             'accepted EHLO / HELO, RSET, after the message data) and '
             'nowhere else: a refused DATA leaves MAIL and RCPT standing on '
             'the server, so the session still needs the envelope for the '
             'RCPT / DATA that may follow')
    rep.tables.add('c07.ENVELOPE_FORGETTERS')
    r718(e, rep)
    rep.rule('R7.19', 'the session-end signal reaches the main loop: '
             'StopIteration is what ends the session (closing reply codes, '
             'QUIT, a lost reader), and it is raised only where a plain call '
             'chain leads back to handle() - never inside a generator '
             '(a @contextmanager helper, a yielding wrapper), where PEP 479 '
             'turns it into RuntimeError and the session dies with a 421 '
             'instead of the reply it had sent')
    r719(e, rep)
    rep.rule('R7.20', 'what the edge session collects per recipient lives '
             'as long as the envelope: every attribute of SmtpSession that '
             'RCPT accumulates into (other than the envelope itself) is set '
             'anew where MAIL binds a fresh Envelope - a rejected message '
             'keeps its envelope until the next MAIL, so state that is only '
             'cleared where the envelope is dropped leaks into the next '
             'transaction')
    r720(e, rep)
    rep.rule('R7.21', 'a quoted string is quoted on both sides: where a '
             'pattern of the server repeats an alternation one arm of which '
             'opens with a delimiter (`"`), no other arm accepts that '
             'delimiter as an ordinary character - otherwise the quoted form '
             'is optional: a path with an unclosed quote (`<"ab>`) is taken '
             'apart character by character and reaches the MAIL / RCPT '
             'callback instead of being refused as malformed')
    r721(e, rep)
    from . import c09 as _c09
    common.reuse(
        e, rep, lambda e_, sub: _c09.g1(e_, sub, 'G1'), 'R7.22',
        '= C09-G1: the bytes the client has sent and the server has not yet '
        'read are held by IO.recv_buffer, and only IO and the two DATA '
        'hand-over methods change it - a command handler that empties it '
        '(STARTTLS "hardening" done before the verdict is known) throws '
        'away command lines that are owed a reply: with a refused STARTTLS '
        'the pipelined commands get no answer and no callback, and the '
        'session ends without 221', only={'G1'},
        suffix=' (the command lines in it never get their reply)')
    rep.floor('R7.1', 10, 'callback sites')
    rep.floor('R7.3', 12, 'command handlers')
    rep.floor('R7.4', 10, 'mutable reply sends')


# ------------------------------------------------------------------ R7.1
def r71(e, rep, g, fx, where, argp, seen_cbs):
    for n in cb_sites(e, g):
        nm = cb_name(n)
        rep.evaluations += 1
        if nm is None:
            rep.ok('R7.1', where, 'custom command callback',
                   reason='unknown verbs have no precondition',
                   nontrivial=False, loc=n.loc())
            continue
        seen_cbs.add(nm)
        if nm in NO_PRECONDITION:
            continue
        spec = PRECONDITIONS.get(nm)
        if spec is None:
            rep.unknown('R7.1', where, 'callback ' + nm,
                        'callback %s has no row in PRECONDITIONS' % nm,
                        loc=n.loc())
            continue
        st = fx.at(n)
        if st is None:
            continue
        for atom in required_atoms(spec, argp):
            ok = holds(st, atom)
            txt = 'callback %s requires %s%s' % (
                nm, '' if atom[0] else 'not ', atom[1].split('#')[0])
            w = None
            if not ok and common.unguarded_path(e, g, n, [atom]) is None:
                # the refusal made by one helper and carried out by another
                # (`if self._refuse(self._auth_refusal(arg)): return`): no
                # feasible path reaches the callback without the guard
                ok = True
            if not ok:
                # witness: a path to the callback on which the atom was
                # never established
                p = dataflow.find_path(g, g.entry, lambda x: x is n)
                w = dataflow.render_path(p) if p else None
                # the precondition handed to a helper as DATA (a table of
                # (condition, refusal) pairs walked by the helper): whether
                # the callback is reached then depends on values
                if _passed_as_data(g, p, atom):
                    rep.unknown('R7.1', where, txt, 'the precondition `%s` '
                                'is evaluated and handed to a helper as a '
                                'value; which way the helper goes for it is '
                                'not read' % atom[1].split('#')[0],
                                loc=n.loc())
                    continue
            rep.check(ok, 'R7.1', where, txt,
                      'the %s callback can be reached without the protocol '
                      'precondition `%s%s` holding' % (
                          nm, '' if atom[0] else 'not ',
                          atom[1].split('#')[0]),
                      reason='guard dominates the callback', loc=n.loc(),
                      witness=w)


def table_guarded(e, g):
    """the call (if any) that hands a helper a table of (condition, reply)
    pairs - `self._refused((cond, bad_sequence), (arg, bad_arguments))`: the
    helper walks data, so which replies are sent and which conditions hold
    afterwards is not in the shape of the code"""
    for n in g.nodes:
        if n.kind not in ('call', 'call_enter'):
            continue
        pairs = [a for a in n.ast.args
                 if isinstance(a, (ast.Tuple, ast.List)) and
                 len(a.elts) == 2 and isinstance(
                     a.elts[1], (ast.Name, ast.Attribute)) and
                 common.reply_constant_code(e, a.elts[1], n.ctx) is not None]
        if len(pairs) >= 2:
            # spelt out at the call site and walked by an inlined helper
            # whose loop was unrolled: the paths are in the graph after all
            kids = [c for c in getattr(n.frame, 'children', ())
                    if c.call is n.ast]
            if kids and kids[0].star_args is not None and not any(
                    it.frame is kids[0] for it in g.of_kind('iter')):
                continue
            return n
    return None


def _passed_as_data(g, path, atom) -> bool:
    key = atom[1]

    def mentions(x, fr, depth=0):
        try:
            if key in canon(x, fr):
                return True
        except Exception:
            pass
        if depth < 2:
            for y in ast.walk(x):
                if isinstance(y, ast.Name):
                    y2, f2 = common.origin(g, y, fr)
                    if y2 is not y and mentions(y2, f2, depth + 1):
                        return True
        return False
    for n, _l in path or []:
        if n.kind in ('call', 'call_enter') and any(
                isinstance(a, (ast.Tuple, ast.List, ast.Dict)) and
                mentions(a, n.frame) for a in n.ast.args):
            return True
    return False


def have_data_reach(e: Engine, rep: Report):
    """HAVE_DATA is reached only through DATA under reply.code == '354'."""
    where = SERVER + '._command_DATA'
    g = build(e, '_command_DATA')
    fx = e.facts(g)
    sites = [n for n in cb_sites(e, g) if cb_name(n) == 'HAVE_DATA']
    if not sites:
        rep.error('anchor vanished: HAVE_DATA callback below _command_DATA')
    for n in sites:
        st = fx.at(n) or frozenset()
        ok = any(p and k.endswith(".code == '354'") for p, k in st)
        rep.check(ok, 'R7.1', where, 'callback HAVE_DATA requires the 354 '
                  'go-ahead of this DATA command',
                  'message content is read and HAVE_DATA invoked on a path '
                  "where the DATA reply was not 354", loc=n.loc(),
                  reason="dominated by reply.code == '354'")
    # who may call _get_message_data
    callers = set()
    for f in e.p.functions.values():
        if f.cls is None:
            continue
        from ..resolve import Ctx
        ctx = Ctx(f)
        for c, t in e.cg.callees(ctx):
            if t.func.qname == SERVER + '._get_message_data':
                callers.add(f.qname)
    rep.check(callers == {SERVER + '._command_DATA'}, 'R7.1',
              SERVER + '._get_message_data', 'only _command_DATA reads '
              'message content', 'message content is read from: %s'
              % sorted(callers), reason='single caller')


# ------------------------------------------------------------------ R7.2
def truthy_alts(e: ast.expr, frame) -> List[List]:
    """DNF of atoms implied when `e` is truthy. [[]] = unconditionally
    truthy possible; [] = never truthy."""
    if isinstance(e, ast.Constant):
        return [[]] if e.value else []
    if isinstance(e, ast.BoolOp):
        if isinstance(e.op, ast.Or):
            out = []
            for v in e.values:
                out.extend(truthy_alts(v, frame))
            return out
        # And: conjunction of the alternatives of every operand
        acc = [[]]
        for v in e.values:
            alts = truthy_alts(v, frame)
            acc = [a + b for a in acc for b in alts]
        return acc
    return [atoms_of_test(e, True, frame)]


def r72(e, rep, g, fx, where):
    cbs = cb_sites(e, g)
    replies = {cb_reply(n) for n in cbs if cb_reply(n)}
    for n in g.of_kind('stmt'):
        a = n.ast
        if not isinstance(a, (ast.Assign, ast.AugAssign, ast.AnnAssign)):
            continue
        tg = a.targets if isinstance(a, ast.Assign) else [a.target]
        for t in tg:
            p = path_of(t, n.frame) if isinstance(t, ast.Attribute) else None
            if not p or not p.startswith('self.'):
                continue
            flag = p[5:]
            if flag not in FLAGS or '.' in flag:
                continue
            rep.evaluations += 1
            value = getattr(a, 'value', None)
            st = fx.at(n)
            if st is None:
                continue
            code = FLAGS[flag]
            text = 'self.%s = %s' % (flag, ast.unparse(value)
                                     if value is not None else '?')
            alts = truthy_alts(value, n.frame) if value is not None \
                else [[]]
            if not alts:
                rep.ok('R7.2', where, text, reason='falsy constant (reset)',
                       nontrivial=False, loc=n.loc())
                continue
            bad = None
            for alt in alts:
                st2 = frozenset(st) | frozenset(alt)
                ok = False
                # (a) flag already truthy, or (b) success code of a reply
                # that went through a callback
                if holds(st2, (True, p)) and (True, p) in alt:
                    ok = True
                for r in replies:
                    if holds(st2, (True, "%s.code == '%s'" % (r, code))):
                        ok = True
                if not ok:
                    bad = alt
                    break
            rep.check(bad is None, 'R7.2', where, text,
                      'session flag `%s` can become truthy on a path where '
                      'the callback reply code is not %s' % (flag, code),
                      reason="conditioned on reply.code == '%s'" % code,
                      loc=n.loc())


# ------------------------------------------------------------------ R7.3
def r73(e, rep, g, where, name):
    def count(n):
        if is_reply_send(e, n) is not None:
            return 1
        return 0
    gmd = {n.id for n in g.nodes if n.kind == 'call_enter' and
           e.call_name(n) == '_get_message_data'}

    def transfer(n, st):
        c = count(n)
        if n.id in gmd:
            # the 354 sent before reading content was intermediate
            return frozenset(max(0, x - 1) for x in st)
        if not c:
            return st
        new = frozenset(min(3, x + c) for x in st)
        return {None: new, 'exc': st}
    IN = dataflow.forward(g, frozenset([0]), transfer, lambda a, b: a | b)
    st = IN.get(g.exit.id)
    rep.evaluations += 1
    if st is None:
        rep.ok('R7.3', where, 'replies per normal path',
               reason='no normal exit', nontrivial=False)
        return
    w = None
    if st != frozenset([1]):
        badc = sorted(x for x in st if x != 1)

        def step(n, label, x):
            if n.id in gmd:
                return max(0, x - 1)
            if count(n) and not isinstance(label, tuple):
                return min(3, x + 1)
            return x
        # the forward counts merge paths; look for a FEASIBLE path with a
        # wrong count (tagged results of helpers, tests that facts settle)
        fx = e.facts(g)
        nul = common.Nullness(g, e)

        def step2(n, label, st0):
            x, ns = st0
            if n.kind == 'test' and label in ('T', 'F') and \
                    fx.infeasible(n, label):
                return None
            ns = nul.step(n, label, ns)
            if ns == 'infeasible':
                return None
            return (step(n, label, x), ns)
        p = dataflow.typestate_witness(
            g, (0, frozenset()), step2,
            lambda n, st0: n is g.exit and st0[0] in badc)
        w = dataflow.render_path(p) if p else None
        if p is None:
            st = frozenset([1])
    tg = table_guarded(e, g)
    if st != frozenset([1]) and tg is not None:
        rep.unknown('R7.3', where, 'replies per normal path',
                    'the refusals of this command are sent by a helper that '
                    'walks a table of (condition, reply) pairs (`%s`): how '
                    'many replies a path sends depends on values'
                    % tg.text(50), loc=g.entry.loc())
        return
    rep.check(st == frozenset([1]), 'R7.3', where,
              'replies per normal path',
              'a normal path through %s sends %s final replies instead of '
              'exactly 1' % (name, sorted(st)),
              reason='exactly one reply on every normal path',
              loc=g.entry.loc(), witness=w)


# ------------------------------------------------------------------ R7.4
def r74(e, rep, g, where):
    cbs = cb_sites(e, g)
    mutable = {cb_reply(n) for n in cbs if cb_reply(n)}
    if not mutable:
        return

    def ev(n):
        if n.kind in ('call', 'call_enter') and \
                e.call_name(n) == '_check_close_code' and n.ast.args:
            p = path_of(n.ast.args[0], n.frame)
            if p:
                return ['close:' + p]
        return []
    after = dataflow.must_events_after(g, ev, edge=no_call_exc)
    before = dataflow.must_events_before(
        g, lambda n: ['cb:' + cb_reply(n)] if n in cbs and cb_reply(n)
        else [])
    for n in g.nodes:
        r = is_reply_send(e, n)
        if r is None or r not in mutable:
            continue
        b = before.get(n.id)
        if b is None or ('cb:' + r) not in b:
            continue
        rep.evaluations += 1
        st = after.get(n.id)
        ok = isinstance(st, dataflow.Top) or (st is not None and
                                              ('close:' + r) in st)
        # events *after* the send: the send node itself generates nothing
        w = None
        if not ok:
            p = dataflow.find_path(
                g, n, lambda x: x is g.exit,
                avoid=lambda x: bool(ev(x)),
                edge_ok=lambda a, l, s: not isinstance(l, tuple))
            w = dataflow.render_path(p) if p else None
        rep.check(ok, 'R7.4', where,
                  'send of handler-mutable reply in %s is followed by '
                  '_check_close_code' % n.frame.ctx.func.name,
                  'a reply the handler may have set to 221/421 is sent '
                  'without the close-code check: the session goes on after '
                  'a closing reply', loc=n.loc(),
                  reason='_check_close_code(reply) on every path after the '
                  'send', witness=w)


def r74_close(e: Engine, rep: Report):
    where = SERVER + '._check_close_code'
    ctx = e.method_ctx(SERVER, '_check_close_code')
    g = e.build(ctx)
    rep.functions.add(where)
    fx = e.facts(g)
    param = ctx.func.params[1] if len(ctx.func.params) > 1 else None
    for code in ('221', '421'):
        # with the fact reply.code == code assumed at entry, the normal exit
        # must be unreachable
        rp = '%s#%d' % (param, g.entry.frame.id)
        assume = frozenset([(True, "%s.code == '%s'" % (rp, code))])

        def edge_ok(p, l, s, _assume=assume):
            if p.kind == 'test' and l in ('T', 'F'):
                for pol, k in atoms_of_test(p.ast, l == 'T', p.frame):
                    if holds(_assume, (not pol, k)):
                        return False
            return True
        path = dataflow.find_path(g, g.entry, lambda x: x is g.exit,
                                  edge_ok=edge_ok)
        rep.evaluations += 1
        rep.check(path is None, 'R7.4', where,
                  'raises for reply code ' + code,
                  '_check_close_code returns normally for a %s reply: the '
                  'session is not ended' % code,
                  reason='normal exit unreachable under code == ' + code,
                  loc=ctx.func.loc(),
                  witness=dataflow.render_path(path) if path else None)
    # handle(): the StopIteration arm calls CLOSE and leaves the loop
    hctx = e.method_ctx(SERVER, 'handle')
    hg = e.build(hctx, inline=e.inline_same_self(
        deny=['_handle_command', '_recv_command', '_call_custom_handler',
              '_encrypt_session']), max_depth=3)
    hwhere = SERVER + '.handle'
    arms = [n for n in hg.of_kind('handler')
            if 'builtins.StopIteration' in n.extra.get('types', [])]
    need = [n for n in hg.calls() if e.call_name(n) == '_handle_command']
    cover = all(any(sc.kind == 'try' and any(
        'builtins.StopIteration' in h[0] for h in sc.data['handlers'])
        for sc in n.scopes) for n in need) and bool(need)
    rep.check(cover and bool(arms), 'R7.4', hwhere,
              'StopIteration arm encloses _handle_command',
              'the close-code exception is not caught around '
              '_handle_command in handle()',
              reason='except StopIteration encloses the command dispatch')
    recv = [n for n in hg.calls() if e.call_name(n) == '_recv_command']
    for h in arms:
        p = dataflow.find_path(
            hg, h, lambda x: x in recv or x in need,
            edge_ok=lambda a, l, s: not (isinstance(l, tuple) and
                                         a.kind != 'stmt'))
        rep.check(p is None, 'R7.4', hwhere,
                  'StopIteration arm ends the session',
                  'after a closing reply (221/421) the main loop reads the '
                  'next command', loc=h.loc(),
                  reason='no path from the arm back to _recv_command',
                  witness=dataflow.render_path(p) if p else None)


# ------------------------------------------------------------------ R7.5
def reset_typestate(e: Engine, rep: Report, rule: str, cls: str, meth: str,
                    code: Optional[str], attrs, trigger, where=None,
                    deny=('_call_custom_handler',), what=''):
    """On every path that passes a `trigger` node and reaches the normal
    exit with the reply code not known to differ from `code`, every attr of
    `attrs` was assigned a falsy constant after the trigger."""
    ctx = e.method_ctx(cls, meth)
    g = e.build(ctx, inline=e.inline_same_self(deny=list(deny)), max_depth=5)
    where = where or (cls + '.' + meth)
    rep.functions.add(ctx.func.qname)
    trig = [n for n in g.nodes if trigger(n)]
    if not trig:
        rep.error('anchor vanished: trigger site in %s' % where)
        return
    attrs = tuple(attrs)

    def resets(n: Node) -> Set[str]:
        out = set()
        if n.kind == 'stmt' and isinstance(n.ast, (ast.Assign,)):
            v = n.ast.value
            falsy = isinstance(v, ast.Constant) and not v.value
            for t in n.ast.targets:
                p = path_of(t, n.frame) if isinstance(t, ast.Attribute) \
                    else None
                if p and p.startswith('self.') and p[5:] in attrs:
                    out.add(('set' if falsy else 'dirty', p[5:]))
        return out

    # state: (triggered, code_status, frozenset(reset attrs))
    def step(n, label, st):
        trg, cs, rs = st
        if n in trig and not isinstance(label, tuple):
            trg, rs = True, frozenset()
            cs = 'unknown'
        if n.kind == 'test' and label in ('T', 'F') and code is not None:
            for pol, k in atoms_of_test(n.ast, label == 'T', n.frame):
                if k.endswith(".code == '%s'" % code):
                    cs = 'ok' if pol else 'notok'
                elif pol and '.code == ' in k:
                    cs = 'notok'     # equal to some other code
        for kind, a in resets(n):
            if kind == 'set':
                rs = rs | {a}
            else:
                rs = rs - {a}
        return (trg, cs, rs)
    init = (False, 'unknown', frozenset())
    IN = dataflow.typestate(g, init, step)
    st = IN.get(g.exit.id) or frozenset()
    rep.evaluations += len(st)
    bad = [s for s in st if s[0] and s[1] != 'notok' and
           set(attrs) - set(s[2])]
    text = 'reset of %s after %s' % ('/'.join(attrs), what or meth)
    w = None
    if bad:
        p = dataflow.typestate_witness(
            g, init, step, lambda n, s: n is g.exit and s in bad)
        w = dataflow.render_path(p, 20) if p else None
    missing = sorted(set(attrs) - set(bad[0][2])) if bad else []
    rep.check(not bad, rule, where, text,
              '%s survives %s: a path reaches the end of the command with '
              'the success code possible and `%s` not reset' % (
                  '/'.join(missing), what or meth, ', '.join(missing)),
              reason='falsy constant assigned on every success path',
              loc=ctx.func.loc(), witness=w)


def r75(e: Engine, rep: Report):
    for meth, code, attrs in RESET_POINTS:
        if meth == '_get_message_data':
            trig = (lambda n: n.kind == 'call' and
                    e.call_name(n) == '_call_custom_handler' and
                    cb_name(n) == 'HAVE_DATA')
        else:
            trig = (lambda n: n.kind == 'call' and
                    e.call_name(n) == '_call_custom_handler')
        reset_typestate(e, rep, 'R7.5', SERVER, meth, code, attrs, trig,
                        what=meth.replace('_command_', ''))


def SESSION_INLINE(e):
    # private helpers of SmtpSession are part of the callback that calls
    # them; the validator and the hand-off stay events
    return e.inline_same_self(deny=['_call_validator', 'handoff'])


def r75_edge(e: Engine, rep: Report):
    """SmtpSession: the envelope under construction."""
    p = e.p
    where0 = SESSION
    # MAIL installs a fresh envelope only under 250
    for meth, what in (('MAIL', 'assign'), ('RCPT', 'append')):
        ctx = e.method_ctx(SESSION, meth)
        g = e.build(ctx, inline=SESSION_INLINE(e), max_depth=3)
        fx = e.facts(g)
        rep.functions.add(ctx.func.qname)
        rp = '%s#%d' % (ctx.func.params[1], g.entry.frame.id)
        need = (True, "%s.code == '250'" % rp)
        found = 0
        for n in g.nodes:
            hit = False
            if what == 'assign' and n.kind == 'stmt' and \
                    isinstance(n.ast, ast.Assign):
                for t in n.ast.targets:
                    if path_of(t, n.frame) == 'self.envelope' and not (
                            isinstance(n.ast.value, ast.Constant) and
                            not n.ast.value.value):
                        hit = True
                        v = n.ast.value
                        if isinstance(v, ast.Name):
                            ds = [s2.ast.value for s2 in g.of_kind('stmt')
                                  if s2.frame is n.frame and
                                  isinstance(s2.ast, ast.Assign) and any(
                                      isinstance(t2, ast.Name) and
                                      t2.id == v.id
                                      for t2 in s2.ast.targets)]
                            v = ds[0] if len(ds) == 1 else v
                        fresh = isinstance(v, ast.Call) and any(
                            c.endswith('envelope.Envelope')
                            for c in e.r.resolve_call(
                                v, n.frame.ctx).ctor_of)
                        rep.check(fresh, 'R7.5', SESSION + '.MAIL',
                                  'MAIL installs a fresh Envelope',
                                  'MAIL does not start from a new Envelope: '
                                  'recipients of an earlier transaction '
                                  'survive', loc=n.loc(),
                                  reason='Envelope(...) constructed')
            if what == 'append' and n.kind == 'call' and \
                    e.call_name(n) in ('append', 'extend', 'insert') and \
                    canon(n.ast.func.value, n.frame).startswith(
                        'self.envelope.recipients'):
                hit = True
            if hit:
                vals = [v for v in g.calls()
                        if e.call_name(v) == '_call_validator']
                vb = dataflow.must_events_before(
                    g, lambda x: ['validated'] if x in vals else [])
                rep.evaluations += 1
                rep.check('validated' in (vb.get(n.id) or ()), 'R7.5',
                          SESSION + '.' + meth,
                          'envelope %s only after the validator ran' % what,
                          'the edge records the %s before the validator '
                          'decided: a rejected %s command still changes the '
                          'envelope' % ('sender' if meth == 'MAIL'
                                        else 'recipient', meth),
                          loc=n.loc(),
                          reason='_call_validator on every path before')
            if hit:
                found += 1
                rep.evaluations += 1
                st = fx.at(n)
                rep.check(holds(st, need), 'R7.5', SESSION + '.' + meth,
                          'envelope %s only under 250' % what,
                          'the edge records the %s although the reply is '
                          'not 250' % ('sender' if meth == 'MAIL'
                                       else 'recipient'),
                          loc=n.loc(),
                          reason="dominated by reply.code == '250'")
        if not found:
            rep.error('anchor vanished: envelope %s in %s.%s' % (
                what, SESSION, meth))
    # on every path of MAIL on which the reply may be 250 a fresh Envelope
    # was installed (keeping an existing one keeps the recipients of a
    # message that the data validator rejected)
    ctx = e.method_ctx(SESSION, 'MAIL')
    g = e.build(ctx, inline=SESSION_INLINE(e), max_depth=3)
    rp = '%s#%d' % (ctx.func.params[1], g.entry.frame.id)

    def is_fresh(v, frame, gg):
        """v is a newly constructed Envelope, directly or through a local
        that is bound to one and nothing else"""
        if isinstance(v, ast.Call):
            return any(c.endswith('envelope.Envelope')
                       for c in e.r.resolve_call(v, frame.ctx).ctor_of)
        if isinstance(v, ast.Name):
            defs = [s2.ast.value for s2 in gg.of_kind('stmt')
                    if s2.frame is frame and isinstance(s2.ast, ast.Assign)
                    and any(isinstance(t, ast.Name) and t.id == v.id
                            for t in s2.ast.targets)]
            return bool(defs) and all(isinstance(d, ast.Call) and
                                      is_fresh(d, frame, gg) for d in defs)
        return False

    def fresh_assign(n):
        if n.kind == 'stmt' and isinstance(n.ast, ast.Assign) and any(
                path_of(t, n.frame) == 'self.envelope'
                for t in n.ast.targets):
            return is_fresh(n.ast.value, n.frame, g)
        return False

    def step(n, label, st):
        ok250, fresh = st
        if n.kind == 'test' and label in ('T', 'F'):
            for pol, k in atoms_of_test(n.ast, label == 'T', n.frame):
                if k == "%s.code == '250'" % rp:
                    ok250 = 'yes' if pol else 'no'
        if fresh_assign(n) and not isinstance(label, tuple):
            fresh = True
        return (ok250, fresh)
    init = ('unknown', False)
    pth = dataflow.typestate_witness(
        g, init, step,
        lambda n, st: n is g.exit and st[0] == 'yes' and not st[1])
    rep.evaluations += 1
    rep.check(pth is None, 'R7.5', SESSION + '.MAIL',
              'an accepted MAIL always starts from a fresh Envelope',
              'MAIL can be accepted (250) while self.envelope keeps the '
              'object of an earlier transaction: when the data validator '
              'rejected that message its recipients are still in it and '
              'are enqueued together with the next message',
              loc=ctx.func.loc(),
              reason='self.envelope = Envelope(...) on every 250 path',
              witness=dataflow.render_path(pth, 12) if pth else None)
    # RSET drops unconditionally; EHLO/HELO under 250; HAVE_DATA after
    # handoff
    reset_typestate(e, rep, 'R7.5', SESSION, 'RSET', None, ('envelope',),
                    lambda n: n.kind == 'entry', what='RSET (edge)')
    for meth in ('EHLO', 'HELO'):
        reset_typestate(
            e, rep, 'R7.5', SESSION, meth, '250', ('envelope',),
            lambda n: n.kind in ('call', 'call_enter') and
            e.call_name(n) == '_call_validator', what=meth + ' (edge)')
    reset_typestate(
        e, rep, 'R7.5', SESSION, 'HAVE_DATA', None, ('envelope',),
        lambda n: n.kind in ('call', 'call_enter') and
        e.call_name(n) == 'handoff', what='a handed-off message (edge)')


# ------------------------------------------------------------------ R7.6
UNSAFE_BUILTINS = {'len', 'int', 'iter', 'sorted', 'list', 'tuple'}
REGEX_METHODS = {'match', 'search', 'fullmatch', 'finditer', 'findall',
                 'sub', 'split'}


def r76(e: Engine, rep: Report, name: str, where: str):
    ctx = e.method_ctx(SERVER, name)

    def pol(builder, call, target, frame):
        if target.func.name in ('_call_custom_handler',):
            return False
        return target.func.module.name.startswith('slimta.smtp')
    g = e.build(ctx, inline=pol, max_depth=4)
    fx = e.facts(g)
    argp = arg_path(g)
    if argp is None:
        return
    aliases = {argp}
    changed = True
    while changed:
        changed = False
        for b in g.of_kind('bind'):
            x = b.extra
            if x.get('is_self') or x.get('arg') is None:
                continue
            ap = path_of(x['arg'], x['arg_frame'])
            new = '%s#%d' % (x['param'], b.frame.id)
            if ap in aliases and new not in aliases:
                aliases.add(new)
                changed = True
    # re-assigned aliases are no longer the raw argument
    for n in g.of_kind('stmt'):
        if isinstance(n.ast, ast.Assign):
            for t in n.ast.targets:
                p = path_of(t, n.frame)
                if p in aliases and p != argp:
                    aliases.discard(p)
    reassigned = set()
    for n in g.of_kind('stmt'):
        if isinstance(n.ast, ast.Assign):
            for t in n.ast.targets:
                if path_of(t, n.frame) == argp:
                    reassigned.add(n.id)
    cands = []
    for n in g.nodes:
        uses = []
        for x in own_exprs(n):
            if isinstance(x, ast.Subscript) and \
                    path_of(x.value, n.frame) in aliases:
                uses.append('subscript')
            elif isinstance(x, ast.Attribute) and \
                    path_of(x.value, n.frame) in aliases and \
                    n.kind == 'call' and x is n.ast.func:
                uses.append('method .%s()' % x.attr)
        if n.kind == 'call':
            nm = e.call_name(n)
            passes = [a for a in n.ast.args
                      if path_of(a, n.frame) in aliases]
            if passes:
                res = n.extra.get('res')
                ext_only = res is not None and not res.targets
                if ext_only and (nm in REGEX_METHODS or
                                 nm in UNSAFE_BUILTINS):
                    uses.append('passed to %s()' % nm)
        if not uses:
            continue
        st = fx.at(n)
        if st is None:
            continue
        ok = any(holds(st, (True, a)) or holds(st, (False, a + ' is None'))
                 for a in aliases)
        if not ok:
            # path-sensitive second look (disjunctive guards; a local that is
            # None exactly when the argument was missing)
            alts = [(True, a) for a in aliases] + \
                [(False, a + ' is None') for a in aliases]
            ok = common.unguarded_path(e, g, n, alts) is None
        cands.append((n, uses[0], ok))
    # a use that completes proves the argument was not None: only the first
    # unguarded use on a path is reported
    badset = {n.id for n, u, ok in cands if not ok}
    before = dataflow.must_events_before(
        g, lambda n: ['use'] if n.id in badset else [])
    for n, use, ok in cands:
        rep.evaluations += 1
        text = '%s in %s: %s' % (use, n.frame.ctx.func.name, n.text(50))
        if not ok and 'use' in (before.get(n.id) or ()):
            rep.ok('R7.6', where, text, loc=n.loc(),
                   reason='only reachable after an earlier use that already '
                   'failed on None')
            continue
        tg = table_guarded(e, g)
        if not ok and tg is not None and any(
                isinstance(y, ast.Name) and path_of(y, tg.frame) in aliases
                for a in tg.ast.args for y in ast.walk(a)):
            rep.unknown('R7.6', where, text, 'the argument is tested inside '
                        'a table of (condition, reply) pairs handed to a '
                        'helper (`%s`): whether this use is guarded depends '
                        'on values' % tg.text(50), loc=n.loc())
            continue
        rep.check(ok, 'R7.6', where, text,
                  'the command argument is None for a bare verb '
                  '(IO.recv_command returns (cmd, None)); this use raises '
                  'TypeError, which ends the session with an '
                  'unhandled-error 421 instead of a 501',
                  reason='dominated by a truthiness test of the argument',
                  loc=n.loc(), witness=common.chain_text(n))


# ------------------------------------------------------------------ R7.7
def r77(e: Engine, rep: Report):
    ctx = e.method_ctx(SERVER, 'handle')
    g = e.build(ctx, inline=e.inline_same_self(
        deny=['_handle_command', '_recv_command', '_call_custom_handler',
              '_encrypt_session']), max_depth=3)
    fx = e.facts(g)
    where = SERVER + '.handle'
    rep.functions.add(where)
    hc = [n for n in g.calls() if e.call_name(n) == '_handle_command']
    uk = [n for n in g.nodes if n.kind == 'call' and
          e.call_name(n) == 'send' and
          isinstance(n.ast.func, ast.Attribute) and
          common.reply_constant_code(e, n.ast.func.value, n.ctx) == '500']
    if not hc or not uk:
        rep.error('anchor vanished: _handle_command / unknown_command.send '
                  'in handle()')
        return
    for n in hc:
        a0 = n.ast.args[0] if n.ast.args else None
        p = path_of(a0, n.frame) if a0 is not None else None
        st = fx.at(n)
        rep.check(p is not None and holds(st, (True, p)), 'R7.7', where,
                  'command dispatch only for parsed commands',
                  '_handle_command can run with an unparsed (None) command',
                  reason='dominated by truthy(command)', loc=n.loc())
        for m in uk:
            st = fx.at(m)
            rep.check(p is not None and holds(st, (False, p)), 'R7.7',
                      where, 'unknown_command only for unparsable lines',
                      '500 unknown command is sent although the line '
                      'parsed', reason='dominated by falsy(command)',
                      loc=m.loc())


# ------------------------------------------------------------------ R7.8
def r78(e: Engine, rep: Report, rule: str = 'R7.8'):
    """The session flags are tested by truthiness (`if not
    self.have_mailfrom`), so what is stored on success must be truthy by
    construction: a constant True, a boolean expression, or a value the
    path has established as non-empty.  A value taken from the peer (an
    address - empty for the null sender `MAIL FROM:<>`) makes an accepted
    command count as not given: RCPT is refused after an accepted MAIL, a
    second MAIL runs the callback again."""
    c = e.p.cls(SERVER)
    nsites = 0
    for mname, m in sorted(c.methods.items()):
        if mname == '__init__':
            continue
        if not any(isinstance(x, ast.Attribute) and x.attr in FLAGS and
                   isinstance(x.ctx, ast.Store) for x in ast.walk(m.node)):
            continue
        ctx = Ctx(m, SERVER)
        g = e.build(ctx, raises=lambda b, n, r: set(),
                    inline=e.inline_same_self(
                        deny=['_call_custom_handler', '_check_close_code',
                              '_encrypt_session', '_get_message_data']),
                    max_depth=3)
        fx = e.facts(g)
        for n in g.of_kind('stmt'):
            a = n.ast
            if not isinstance(a, ast.Assign) or n.frame is not g.entry.frame:
                continue
            for t in a.targets:
                if not (isinstance(t, ast.Attribute) and t.attr in FLAGS and
                        isinstance(t.value, ast.Name) and
                        t.value.id == 'self'):
                    continue
                v = a.value
                if isinstance(v, ast.Constant):
                    continue            # True / False / None

                def boolean(x):
                    if isinstance(x, ast.Constant):
                        return isinstance(x.value, bool) or x.value is None
                    if isinstance(x, ast.Compare):
                        return True
                    if isinstance(x, ast.UnaryOp) and \
                            isinstance(x.op, ast.Not):
                        return True
                    if isinstance(x, ast.BoolOp):
                        return all(boolean(y) or (
                            isinstance(y, ast.Attribute) and
                            y.attr == t.attr) for y in x.values)
                    if isinstance(x, ast.Call) and \
                            isinstance(x.func, ast.Name) and \
                            x.func.id == 'bool':
                        return True
                    return False
                nsites += 1
                rep.evaluations += 1
                st = fx.at(n) or frozenset()
                try:
                    key = canon(v, n.frame)
                    truthy = holds(st, (True, key))
                except Exception:
                    key, truthy = None, False
                if not truthy and not boolean(v) and key is not None:
                    # established on every path, but through a helper that
                    # hands back a refusal / None (must-facts do not carry
                    # that across the merge of its returns)
                    truthy = common.unguarded_path(
                        e, g, n, [(True, key)]) is None
                if not (boolean(v) or truthy) and isinstance(v, ast.Name):
                    # what a helper of the class handed back: whether it is
                    # non-empty was settled inside the helper (its argument
                    # test), which is not carried to the caller's name
                    ds = common.reaching_defs(g, n, path_of(v, n.frame))
                    if ds and any(
                            d is not None and isinstance(d.ast, ast.Assign)
                            and isinstance(d.ast.value, ast.Call) and
                            isinstance(d.ast.value.func, ast.Attribute) and
                            isinstance(d.ast.value.func.value, ast.Name) and
                            d.ast.value.func.value.id == 'self'
                            for d in ds):
                        rep.unknown(rule, m.qname, 'flag self.%s is set to '
                                    'a value that is truthy whenever the '
                                    'command was accepted' % t.attr,
                                    '`%s` comes out of a helper of the '
                                    'class; whether it can be empty is '
                                    'decided by tests inside that helper, '
                                    'which this rule does not carry over'
                                    % ast.unparse(v), loc=n.loc())
                        continue
                rep.check(boolean(v) or truthy, rule, m.qname,
                          'flag self.%s is set to a value that is truthy '
                          'whenever the command was accepted' % t.attr,
                          'self.%s is tested by truthiness but set to `%s`, '
                          'which can be falsy (an empty string - the null '
                          'reverse-path of MAIL FROM:<>): the accepted '
                          'command counts as not given, later commands are '
                          'refused with 503 or its callback runs twice'
                          % (t.attr, ast.unparse(v)), loc=n.loc(),
                          reason='boolean expression' if boolean(v)
                          else 'non-empty on every path to here')
    if nsites < 3:
        rep.error('anchor vanished: non-constant flag assignments in Server '
                  '(%d < 3)' % nsites)


# ------------------------------------------------------------------ R7.11
# names the server invokes on its own initiative only
SESSION_CLASS = 'slimta.edge.smtp.SmtpSession'
PROTECTED_NAMES = {'BANNER_': 'the greeting pseudo-command',
                   'HAVE_DATA': 'the message-received callback'}


def r711(e: Engine, rep: Report):
    from .. import regexast as rx
    rep.tables.add('c07.PROTECTED_NAMES')
    IOMOD = 'slimta.smtp.io'
    alpha = set()
    npat = 0
    for pname in ('command_pattern', 'command_arg_pattern'):
        got = rx.module_pattern(e, IOMOD, pname)
        if got is None:
            continue
        items = list(rx.parse(got[0], got[1]))
        g1 = rx.find_group(items, 1)
        if g1 is None:
            continue
        cs = rx.all_charsets(g1, got[1])
        if any(c is None for c in cs):
            rep.error('cannot read the alphabet of %s' % pname)
            return
        npat += 1
        for c in cs:
            alpha |= c
    if npat < 2:
        # one pattern for both forms of the line: whatever recv_command
        # matches the line with, its first group is the verb
        alpha, npat = set(), 0
        rc = e.method_ctx('slimta.smtp.io.IO', 'recv_command').func
        for x in walk_own(rc.node):
            if isinstance(x, ast.Call) and isinstance(x.func, ast.Attribute) \
                    and x.func.attr in ('match', 'fullmatch') and \
                    isinstance(x.func.value, ast.Name):
                got = rx.module_pattern(e, IOMOD, x.func.value.id)
                if got is None:
                    continue
                items0 = list(rx.parse(got[0], got[1]))
                g1 = rx.find_group(items0, 1)
                if g1 is None:
                    continue
                # (the verb is what the line begins with: group 1 stands
                # first, after `^` at most)
                from re import _constants as _sc
                lead = [it for it in items0 if it[0] is not _sc.AT]
                if not lead or lead[0][0] is not _sc.SUBPATTERN or \
                        lead[0][1][0] != 1:
                    rep.error('cannot tell which group of %s is the verb'
                              % x.func.value.id)
                    return
                cs = rx.all_charsets(g1, got[1])
                if any(c is None for c in cs):
                    rep.error('cannot read the alphabet of %s'
                              % x.func.value.id)
                    return
                npat += 1
                for c in cs:
                    alpha |= c
        if npat < 1:
            rep.error('anchor vanished: command patterns of slimta.smtp.io')
            return
    # transformations between the match and the attribute lookup
    fns = [e.method_ctx('slimta.smtp.io.IO', 'recv_command').func,
           e.method_ctx(SERVER, '_handle_command').func]
    rep.functions.update(f.qname for f in fns)

    def apply(fn, alpha):
        calls = [x for x in walk_own(fn.node) if isinstance(x, ast.Call) and
                 isinstance(x.func, ast.Attribute)]
        # in source order
        calls.sort(key=lambda x: (x.lineno, x.col_offset))
        for x in calls:
            nm = x.func.attr
            if nm == 'upper':
                alpha = {ord(chr(c).upper()) if chr(c).upper() != chr(c)
                         and len(chr(c).upper()) == 1 else c for c in alpha}
            elif nm == 'lower':
                alpha = {ord(chr(c).lower()) if len(chr(c).lower()) == 1
                         else c for c in alpha}
            elif nm in ('replace', 'translate', 'maketrans'):
                ok = nm == 'replace' and len(x.args) >= 2 and all(
                    isinstance(a, ast.Constant) and
                    isinstance(a.value, (str, bytes)) for a in x.args[:2])
                if not ok:
                    return None
                a, b = x.args[0].value, x.args[1].value
                a = a.encode('latin1') if isinstance(a, str) else a
                b = b.encode('latin1') if isinstance(b, str) else b
                if a and set(a) <= alpha:
                    alpha = set(alpha) | set(b)
        return alpha
    for fn in fns:
        alpha = apply(fn, alpha)
        if alpha is None:
            rep.error('cannot read how %s transforms the command name'
                      % fn.qname)
            return
    shown = ''.join(sorted(chr(c) for c in alpha if 32 < c < 127))
    for name, what in sorted(PROTECTED_NAMES.items()):
        rep.evaluations += 1
        outside = [ch for ch in name if ord(ch) not in alpha]
        rep.check(bool(outside), 'R7.11', fns[1].qname,
                  '`%s` cannot be spelled by a client' % name,
                  'a client can send a command line that the dispatcher '
                  'turns into `%s` (%s): it runs out of protocol order, '
                  'with no MAIL / RCPT / DATA before it' % (name, what),
                  loc=fns[1].loc(), reason='%r not in the command alphabet '
                  '[%s]' % (outside[:1], shown))
    # pseudo-commands handle() itself starts the loop with: constants of
    # handle() that name a _command_<X> method
    srv0 = e.p.cls(SERVER)
    hfn = e.method_ctx(SERVER, 'handle').func
    for x in walk_own(hfn.node):
        if not (isinstance(x, ast.Constant) and
                isinstance(x.value, (bytes, str))):
            continue
        nm = x.value.decode('latin1') if isinstance(x.value, bytes) \
            else x.value
        if not nm or ('_command_' + nm) not in srv0.methods or \
                nm in PROTECTED_NAMES:
            continue
        rep.evaluations += 1
        outside = [ch for ch in nm if ord(ch) not in alpha]
        rep.check(bool(outside), 'R7.11', srv0.methods['_command_' + nm].qname,
                  'server-initiated step `%s` cannot be spelled by a client'
                  % nm,
                  'handle() runs `_command_%s` on its own initiative (it '
                  'starts the session with that name), and the name is made '
                  'of command-alphabet characters only: a client that sends '
                  'the line `%s` has the step run in the middle of the '
                  'session, where nothing of the session state is reset '
                  'around it' % (nm, nm),
                  loc=srv0.methods['_command_' + nm].loc(),
                  reason='%r not in the command alphabet' % outside[:1])
    # hooks the server runs on its own initiative (names it hands to
    # _call_custom_handler itself and that are no client verb with a
    # guarded _command_<NAME>): a handler class of the package that defines
    # one under a spellable name can be driven by the client through the
    # custom-command dispatch
    srv = e.p.cls(SERVER)
    own = set()
    for m in srv.methods.values():
        for x in walk_own(m.node):
            if isinstance(x, ast.Call) and \
                    isinstance(x.func, ast.Attribute) and \
                    x.func.attr == '_call_custom_handler' and x.args and \
                    isinstance(x.args[0], ast.Constant) and \
                    isinstance(x.args[0].value, str):
                nm = x.args[0].value
                if ('_command_' + nm) not in srv.methods:
                    own.add(nm)
    for cq in [SESSION_CLASS] + list(e.p.subclasses(SESSION_CLASS)):
        c = e.p.classes.get(cq)
        if c is None:
            continue
        for nm in sorted(own):
            if nm not in c.methods:
                continue
            rep.evaluations += 1
            outside = [ch for ch in nm if ord(ch) not in alpha]
            rep.check(bool(outside), 'R7.11', c.methods[nm].qname,
                      'server-initiated hook `%s` cannot be spelled by a '
                      'client' % nm,
                      '%s defines the hook `%s`, which the server calls '
                      'itself (end of session, after the handshake ...); '
                      'the name is made of command-alphabet characters '
                      'only, so the client line `%s` is dispatched to it '
                      'as a custom command - in the middle of the session, '
                      'with the wrong arguments' % (cq, nm, nm),
                      loc=c.methods[nm].loc(),
                      reason='%r not in the command alphabet' % outside[:1])


# ------------------------------------------------------------------ R7.12
def r712(e: Engine, rep: Report):
    ctx = e.method_ctx(SERVER, 'handle')
    g = e.build(ctx, inline=e.inline_same_self(
        deny=['_handle_command', '_call_custom_handler', '_recv_command']),
        max_depth=3, raises=lambda b, n, r: {'ANY'} if n.kind == 'call'
        and e.call_name(n) == '_handle_command' else set())
    where = ctx.func.qname
    rep.functions.add(where)
    disp = [n for n in g.calls() if e.call_name(n) == '_handle_command']
    if not disp:
        rep.error('anchor vanished: _handle_command in Server.handle')
        return
    hs = [h for h in g.of_kind('handler')]
    n = 0
    for h in hs:
        # arms that can catch what the dispatch raises
        covers = any(sc.kind in ('try', 'try_body') or True for sc in h.scopes)
        tnode = h.ast
        if not isinstance(tnode, ast.ExceptHandler):
            continue
        # the try statement this arm belongs to encloses the dispatch
        owner = None
        for fr in {x.frame for x in g.nodes}:
            for t in walk_own(fr.ctx.func.node):
                if isinstance(t, ast.Try) and any(hh is tnode
                                                  for hh in t.handlers):
                    owner = t
        if owner is None or not any(
                any(y is d.ast for y in ast.walk(st))
                for st in owner.body for d in disp):
            continue
        names = ast.unparse(tnode.type) if tnode.type is not None else ''
        if 'StopIteration' in names:
            continue       # the handlers' own "end of session" signal
        n += 1
        rep.evaluations += 1
        # can the arm be left normally (fall through / continue)?
        resumes = dataflow.find_path(
            g, h, lambda x: x in disp or (
                x.kind == 'call' and e.call_name(x) == '_recv_command'),
            edge_ok=lambda a, l, s: not isinstance(l, tuple))
        rep.check(resumes is None, 'R7.12', where,
                  'except %s around the dispatch ends the session' % (
                      names or '<bare>'),
                  'after `except %s` the main loop goes on to the next '
                  'command: the handler that raised may have been left '
                  'half-way (callback run, reply not sent, transaction '
                  'flags not reset), so the next command is judged against '
                  'a state no completed command produced' % (names or ''),
                  loc=h.loc(), reason='arm ends in raise / return / break',
                  witness=dataflow.render_path(resumes, 12) if resumes
                  else None)
    if n < 2:
        rep.error('anchor vanished: except arms around the dispatch in '
                  'Server.handle (%d < 2)' % n)


# ------------------------------------------------------------------ R7.18
# session callbacks after which the server has no open mail transaction
ENVELOPE_FORGETTERS = {'EHLO', 'HELO', 'RSET', 'HAVE_DATA', '__init__'}


def r718(e: Engine, rep: Report):
    c = e.p.classes.get(SESSION)
    if c is None:
        rep.error('anchor vanished: ' + SESSION)
        return
    owners = common.owner_closure(e, SESSION, set(ENVELOPE_FORGETTERS))
    n = 0
    for mname, m in sorted(c.methods.items()):
        for x in walk_own(m.node):
            if not (isinstance(x, ast.Assign) and any(
                    isinstance(t, ast.Attribute) and t.attr == 'envelope' and
                    isinstance(t.value, ast.Name) and t.value.id == 'self'
                    for t in x.targets) and
                    isinstance(x.value, ast.Constant) and
                    x.value.value is None):
                continue
            n += 1
            rep.evaluations += 1
            rep.functions.add(m.qname)
            rep.check(mname in owners, 'R7.18', m.qname,
                      'the envelope is dropped by %s' % mname,
                      'the session drops its envelope in %s, which also '
                      'runs where the server keeps the transaction open (a '
                      'refused DATA): the client may go on with RCPT or '
                      'DATA, the server accepts the command (MAIL / RCPT '
                      'are still on record there) and the session callback '
                      'finds no envelope - the session dies with a 421 '
                      'instead of continuing the transaction' % mname,
                      loc=m.loc(x), reason='one of %s or a helper only they '
                      'use' % sorted(ENVELOPE_FORGETTERS - {'__init__'}))
    if n < 1:
        rep.error('anchor vanished: `self.envelope = None` in the edge '
                  'session')


# ------------------------------------------------------------------ R7.17
def r717(e: Engine, rep: Report):
    STOP = 'builtins.StopIteration'
    ctx = e.method_ctx(SERVER, 'handle')

    def runs_command(n):
        nm = e.call_name(n) or ''
        return n.kind == 'call' and (nm == '_handle_command' or
                                     nm.startswith('_command_'))
    g = e.build(ctx, inline=e.inline_same_self(
        deny=['_handle_command', '_call_custom_handler', '_recv_command',
              '_encrypt_session']),
        max_depth=4, raises=lambda b, n, r: {STOP} if runs_command(n)
        else set(), assert_raises=False)
    where = ctx.func.qname
    rep.functions.add(where)
    sites = [n for n in g.nodes if runs_command(n)]
    if not sites:
        rep.error('anchor vanished: command dispatch below Server.handle')
        return
    n = 0
    seen = set()
    for a in g.nodes:
        for label, s2 in a.succ:
            if not (isinstance(label, tuple) and len(label) > 1 and
                    label[1] == STOP and s2.kind == 'handler'):
                continue
            if s2.id in seen:
                continue
            seen.add(s2.id)
            n += 1
            rep.evaluations += 1
            ts = s2.extra.get('types', [])
            rep.check(STOP in ts, 'R7.17', where,
                      'arm `except %s` that receives the close signal'
                      % (ast.unparse(s2.ast.type) if s2.ast.type is not None
                         else ''),
                      'the StopIteration a command raises after its 221 / '
                      '421 was sent is caught by `except %s`: the arm '
                      'treats it as a failure and answers once more (421 '
                      'unhandled error) - two final replies for one '
                      'command' % (ast.unparse(s2.ast.type)
                                   if s2.ast.type is not None else ''),
                      loc=s2.loc(), reason='the arm names StopIteration')
    if n < 1:
        rep.error('anchor vanished: arm that receives the close signal in '
                  'Server.handle')


# ------------------------------------------------------------------ R7.15
def _two_point(test, name, lo, hi):
    """outcome of a pure test on `name` at the two values, or None"""
    ok = (ast.Compare, ast.UnaryOp, ast.BoolOp, ast.BinOp, ast.Constant,
          ast.Name, ast.operator, ast.unaryop, ast.boolop, ast.cmpop,
          ast.expr_context)
    for x in ast.walk(test):
        if not isinstance(x, ok) or (isinstance(x, ast.Name) and
                                     x.id != name):
            return None
    out = []
    for v in (lo, hi):
        try:
            out.append(bool(eval(compile(ast.Expression(test), '<t>',
                                         'eval'), {'__builtins__': {}},
                                 {name: v})))
        except Exception:
            return None
    return tuple(out)


def r715(e: Engine, rep: Report, rule: str = 'R7.15'):
    ctx = e.method_ctx('slimta.smtp.io.IO', 'recv_line')
    g = e.build(ctx, inline=e.inline_same_self(deny=['buffered_recv']),
                max_depth=3, raises=lambda b, n, r: set())
    where = ctx.func.qname
    rep.functions.add(where)
    # names that say "a complete line is in the buffer": kind by name
    found = {}
    for st in g.of_kind('stmt'):
        a = st.ast
        if not (isinstance(a, ast.Assign) and len(a.targets) == 1 and
                isinstance(a.value, ast.Call) and
                isinstance(a.value.func, ast.Attribute)):
            continue
        t, meth = a.targets[0], a.value.func.attr
        if isinstance(t, ast.Name) and meth in ('match', 'search',
                                                'fullmatch'):
            found[t.id] = 'truthy'
        elif isinstance(t, ast.Name) and meth in ('find', 'rfind'):
            found[t.id] = 'index'
        elif isinstance(t, (ast.Tuple, ast.List)) and \
                meth in ('partition', 'rpartition') and len(t.elts) == 3 \
                and isinstance(t.elts[1], ast.Name):
            found[t.elts[1].id] = 'truthy'
    rets = [n for n in g.of_kind('stmt') if isinstance(n.ast, ast.Return)
            and n.frame is g.entry.frame]
    if not found or not rets:
        rep.unknown(rule, where, 'returns lie at a line end',
                    'cannot see how recv_line finds the end of a line',
                    loc=ctx.func.loc())
        return

    def establishes(n, label):
        """does this test edge say that a line end was found?"""
        for nm, kind in found.items():
            if kind == 'truthy':
                key = canon(ast.Name(id=nm, ctx=ast.Load()), n.frame)
                for p0, k0 in atoms_of_test(n.ast, label == 'T', n.frame):
                    if (p0, k0) in ((True, key), (False, key + ' is None')):
                        return True
            else:
                tp = _two_point(n.ast, nm, -1, 0)
                if tp == (False, True) and label == 'T':
                    return True
                if tp == (True, False) and label == 'F':
                    return True
        return False

    nul = common.Nullness(g, e)

    def step(n, label, st0):
        st, ns = st0
        if isinstance(label, tuple):
            return st0
        ns = nul.step(n, label, ns)
        if ns == 'infeasible':
            return None
        if n.kind == 'stmt' and isinstance(n.ast, ast.Assign) and any(
                isinstance(x, ast.Name) and x.id in found
                for t in n.ast.targets for x in ast.walk(t)):
            return (False, ns)
        if n.kind == 'test' and label in ('T', 'F') and \
                establishes(n, label):
            return (True, ns)
        return (st, ns)
    for r in rets:
        rep.evaluations += 1
        w = dataflow.typestate_witness(
            g, (False, frozenset()), step,
            lambda n, st: n is r and not st[0])
        rep.check(w is None, rule, where,
                  '`%s` lies at a line end' % ' '.join(
                      ast.unparse(r.ast).split())[:40],
                  'recv_line returns here without having found the end of '
                  'a line: what the client sends next - the rest of the '
                  'same command line - is read as a command of its own and '
                  'answered (or executed) a second time', loc=r.loc(),
                  reason='the line search has succeeded on every path here',
                  witness=dataflow.render_path(w, 12) if w else None)


# ------------------------------------------------------------------ R7.16
def r716(e: Engine, rep: Report):
    from .c13 import _shared_reply_names
    shared = _shared_reply_names(e, 'slimta.smtp.server')
    srv = e.p.cls(SERVER)
    n = 0
    for mname, m in sorted(srv.methods.items()):
        for x in walk_own(m.node):
            if not (isinstance(x, ast.Call) and
                    isinstance(x.func, ast.Attribute) and
                    x.func.attr == '_call_custom_handler' and
                    len(x.args) >= 2):
                continue
            n += 1
            rep.evaluations += 1
            rep.functions.add(m.qname)
            a = x.args[1]
            bad = None
            if isinstance(a, ast.Name):
                if a.id in shared and a.id not in m.params and not any(
                        isinstance(y, ast.Name) and y.id == a.id and
                        isinstance(y.ctx, ast.Store)
                        for y in walk_own(m.node)):
                    bad = a.id
                else:
                    for d in walk_own(m.node):
                        if isinstance(d, ast.Assign) and any(
                                isinstance(t, ast.Name) and t.id == a.id
                                for t in d.targets) and \
                                isinstance(d.value, ast.Name) and \
                                d.value.id in shared:
                            bad = d.value.id
            rep.check(bad is None, 'R7.16', m.qname,
                      'reply handed to the %s callback' % (
                          x.args[0].value if isinstance(x.args[0],
                                                        ast.Constant)
                          else '<custom>'),
                      'the callback is given `%s`, the one Reply object '
                      'made at %s: a validator that answers 450 / 552 / 421 '
                      'by changing it changes the default answer of every '
                      'later command of this kind, in this and all later '
                      'sessions' % (bad, shared.get(bad)), loc=m.loc(x),
                      reason='a Reply made in this call (or a copy)')
    if n < 8:
        rep.error('anchor vanished: callback sites in Server (%d < 8)' % n)


# ------------------------------------------------------------------ R7.19
def r719(e: Engine, rep: Report):
    srv = e.p.cls(SERVER)

    def raises_stop(fn):
        for x in walk_own(fn.node):
            if isinstance(x, ast.Raise) and x.exc is not None:
                t = x.exc.func if isinstance(x.exc, ast.Call) else x.exc
                if isinstance(t, ast.Name) and t.id == 'StopIteration':
                    return x
        return None
    stoppers = {nm: raises_stop(m) for nm, m in srv.methods.items()}
    stoppers = {nm: x for nm, x in stoppers.items() if x is not None}
    if not stoppers:
        rep.error('anchor vanished: no method of Server raises StopIteration')
        return
    # closure over self-calls (a try arm that catches it stops the spread)
    may = dict((nm, 'raises it') for nm in stoppers)

    def catches(fn, call):
        for t in walk_own(fn.node):
            if isinstance(t, ast.Try) and any(
                    call in ast.walk(b) for b in t.body) and any(
                    h.type is None or 'StopIteration' in ast.unparse(h.type)
                    or ast.unparse(h.type) in ('Exception', 'BaseException')
                    for h in t.handlers):
                return True
        return False
    changed = True
    while changed:
        changed = False
        for nm, m in srv.methods.items():
            if nm in may:
                continue
            for c in walk_own(m.node):
                if isinstance(c, ast.Call) and \
                        isinstance(c.func, ast.Attribute) and \
                        isinstance(c.func.value, ast.Name) and \
                        c.func.value.id == 'self' and c.func.attr in may \
                        and not catches(m, c):
                    may[nm] = 'calls %s' % c.func.attr
                    changed = True
                    break
    n = 0
    for nm, m in sorted(srv.methods.items()):
        gen = any(isinstance(x, (ast.Yield, ast.YieldFrom))
                  for x in walk_own(m.node))
        if not gen:
            continue
        n += 1
        rep.evaluations += 1
        rep.functions.add(m.qname)
        why = None
        at = None
        if nm in stoppers:
            why, at = 'raises StopIteration', stoppers[nm]
        else:
            for c in walk_own(m.node):
                if isinstance(c, ast.Call) and \
                        isinstance(c.func, ast.Attribute) and \
                        isinstance(c.func.value, ast.Name) and \
                        c.func.value.id == 'self' and c.func.attr in may \
                        and not catches(m, c):
                    why, at = 'calls self.%s, which %s' % (
                        c.func.attr, may[c.func.attr]), c
                    break
        rep.check(why is None, 'R7.19', m.qname,
                  'generator `%s` cannot see the session-end signal' % nm,
                  '`%s` is a generator (it yields) and %s: a StopIteration '
                  'that leaves the body of a generator is turned into '
                  'RuntimeError (PEP 479), so the closing reply the server '
                  'has just sent (221, 421, 5xx with a close code) is '
                  'followed by the catch-all of handle() - the client gets a '
                  'second, unsolicited 421 and the session state is not '
                  'what the reply said' % (nm, why),
                  loc=m.loc(at) if at is not None else m.loc(),
                  reason='no raise / call of %s in it' % sorted(may)[:6])
    rep.evaluations += 1
    rep.ok('R7.19', SERVER, '%d method(s) raise StopIteration directly, %d '
           'may pass it on; %d generator method(s)' % (
               len(stoppers), len(may), n),
           reason='judged one by one', nontrivial=False)


# ------------------------------------------------------------------ R7.20
_ACCUMULATE = ('add', 'append', 'extend', 'update', 'insert', 'setdefault',
               'appendleft')


def r720(e: Engine, rep: Report):
    c = e.p.classes.get(SESSION)
    if c is None or 'RCPT' not in c.methods:
        rep.error('anchor vanished: %s.RCPT' % SESSION)
        return

    def closure(m, depth=0):
        out = [m]
        if depth < 3:
            for x in walk_own(m.node):
                if isinstance(x, ast.Call) and \
                        isinstance(x.func, ast.Attribute) and \
                        isinstance(x.func.value, ast.Name) and \
                        x.func.value.id == 'self' and \
                        x.func.attr in c.methods and \
                        c.methods[x.func.attr] not in out:
                    out += closure(c.methods[x.func.attr], depth + 1)
        return out

    def self_attr(x):
        return x.attr if isinstance(x, ast.Attribute) and \
            isinstance(x.value, ast.Name) and x.value.id == 'self' else None
    acc = {}
    for m in closure(c.methods['RCPT']):
        for x in walk_own(m.node):
            a = None
            if isinstance(x, ast.Call) and \
                    isinstance(x.func, ast.Attribute) and \
                    x.func.attr in _ACCUMULATE:
                a = self_attr(x.func.value)
            elif isinstance(x, ast.AugAssign):
                a = self_attr(x.target) or (
                    self_attr(x.target.value)
                    if isinstance(x.target, ast.Subscript) else None)
            elif isinstance(x, ast.Assign):
                for t in x.targets:
                    if isinstance(t, ast.Subscript) and self_attr(t.value):
                        a = self_attr(t.value)
            if a and a != 'envelope':
                acc.setdefault(a, (m, x))
    binders = []
    for mname, m in sorted(c.methods.items()):
        for x in walk_own(m.node):
            if isinstance(x, ast.Assign) and any(
                    self_attr(t) == 'envelope' for t in x.targets) and \
                    not (isinstance(x.value, ast.Constant) and
                         x.value.value is None):
                binders.append((m, x))
    if not binders:
        rep.error('anchor vanished: `self.envelope = Envelope(...)` in the '
                  'edge session')
        return
    rep.functions.add(c.methods['RCPT'].qname)
    steering = set()
    for m in c.methods.values():
        for x in walk_own(m.node):
            t = x.test if isinstance(x, (ast.If, ast.While, ast.IfExp,
                                         ast.Assert)) else None
            if t is not None:
                steering |= {self_attr(y) for y in ast.walk(t)} - {None}
    # (a counter kept for the log steers nothing and may span the session)
    acc = {a: v for a, v in acc.items() if a in steering}
    for a, (m0, x0) in sorted(acc.items()):
        for m, x in binders:
            rep.evaluations += 1
            resets = any(
                isinstance(y, ast.Assign) and any(
                    self_attr(t) == a for t in y.targets) or
                (isinstance(y, ast.Call) and
                 isinstance(y.func, ast.Attribute) and
                 y.func.attr == 'clear' and self_attr(y.func.value) == a)
                for mm in closure(m) for y in walk_own(mm.node))
            rep.check(resets, 'R7.20', m.qname,
                      '`self.%s` starts anew with the envelope' % a,
                      '%s accumulates into `self.%s` for every accepted '
                      'recipient (%s), and %s binds a fresh envelope without '
                      'setting it anew: after a message that was refused '
                      '(the envelope stays until the next MAIL) what was '
                      'collected for it is still there - the next '
                      'transaction of the session is judged by the '
                      'recipients of the previous one'
                      % (m0.name, a, ' '.join(ast.unparse(x0).split())[:50],
                         m.name),
                      loc=m.loc(x), reason='%s assigns / clears it' % m.name)
    rep.evaluations += 1
    rep.ok('R7.20', c.methods['RCPT'].qname,
           'RCPT accumulates into %s besides the envelope; the envelope is '
           'bound anew in %s' % (sorted(acc) or 'nothing',
                                 sorted({m.name for m, _ in binders})),
           reason='judged one by one', nontrivial=False)


# ------------------------------------------------------------------ R7.21
def r721(e: Engine, rep: Report):
    from .. import regexast as rx
    from re import _constants as sc
    mn = 'slimta.smtp.server'
    m = e.p.modules.get(mn)
    if m is None:
        rep.error('anchor vanished: ' + mn)
        return
    n = 0

    def first(alt, flags):
        """(literal delimiter or None, set of first characters or None)"""
        for op, av in alt:
            if op is sc.SUBPATTERN:
                return first(av[-1], flags)
            cs = rx.charset((op, av), flags)
            if cs is None:
                if op in (sc.MAX_REPEAT, sc.MIN_REPEAT) and av[0] >= 1:
                    return first(av[2], flags)
                return None, None
            return (av if op is sc.LITERAL else None), cs
        return None, None

    def walk(items, under, flags, out):
        for op, av in items:
            if op in (sc.MAX_REPEAT, sc.MIN_REPEAT):
                walk(av[2], under or av[1] > 1, flags, out)
            elif op is sc.SUBPATTERN:
                walk(av[-1], under, flags, out)
            elif op is sc.BRANCH:
                if under:
                    fs = [first(alt, flags) for alt in av[1]]
                    for i, (lit, _) in enumerate(fs):
                        if lit is None or chr(lit).isalnum():
                            continue
                        for j, (_, cs) in enumerate(fs):
                            if j != i and cs is not None and lit in cs:
                                out.append(chr(lit))
                for alt in av[1]:
                    walk(alt, under, flags, out)
    for st in m.tree.body:
        if not (isinstance(st, ast.Assign) and isinstance(st.value, ast.Call)
                and ast.unparse(st.value.func) == 're.compile'):
            continue
        name = ast.unparse(st.targets[0])
        got = rx.module_pattern(e, mn, name)
        if got is None:
            rep.error('cannot read the pattern %s.%s' % (mn, name))
            continue
        n += 1
        rep.evaluations += 1
        out = []
        walk(rx.parse(got[0], got[1]), False, got[1], out)
        rep.check(not out, 'R7.21', '%s.%s' % (mn, name),
                  'no delimiter of `%s` doubles as an ordinary character'
                  % name,
                  '%s repeats an alternation in which one arm opens with %r '
                  'and another arm takes %r as an ordinary character: when '
                  'the delimited arm cannot be completed the pattern falls '
                  'back to the other one, so an unbalanced %r does not make '
                  'the argument malformed - `MAIL FROM:<"ab>` is accepted '
                  'with the address `"ab` and handed to the callback'
                  % (name, out[0] if out else '', out[0] if out else '',
                     out[0] if out else ''),
                  loc='%s:%d' % (m.relpath, st.lineno),
                  reason='arms of repeated alternations start disjointly')
    if n < 3:
        rep.error('anchor vanished: compiled patterns of %s (%d < 3)'
                  % (mn, n))
