"""C05 - message content crosses DATA framing unchanged (reader half only).

The sender/reader bijection is value-level and NOT decided here.  Decided are
the structural parts of the reader that the round trip depends on:

R5.1 end-of-data sentinel discipline (None-or-index attribute tested by
     identity only)                                    = C09-G4 first half
R5.2 nothing after EOD is transformed; EOD is set once  = C09-G4 second half
R5.3 hand-over between command buffer and reader in both directions = C09-G3
R5.4 the reader's only source of bytes is the shared buffer + raw_recv
     (single-buffer discipline)                                       = C09-G1
R5.5 sender and reader agree on what ends a line: the reader's line pattern
     (regular-expression syntax tree) ends a line at every LF and nowhere
     else; every line-boundary literal the sender's stuffing uses is that
     terminator (or terminator + "."), offsets added to a find() result equal
     the length of the literal searched for
R5.6 every completed line goes through handle_finished_line exactly once;
     the line cursor / line table / EOD are written only by their owners
"""
from __future__ import annotations

import ast
import re

from ..engine import Engine
from ..report import Report
from ..model import walk_own
from ..resolve import Ctx
from . import c09, common
from .. import dataflow
from ..facts import path_of

READER_MOD = 'slimta.smtp.datareader'
READER = READER_MOD + '.DataReader'
SENDER = 'slimta.smtp.datasender.DataSender'
# attributes of the reader's line assembly and the methods that own them
STATE_OWNERS = {'i': {'__init__', 'handle_finished_line'},
                'lines': {'__init__', '_append_line',
                          'handle_finished_line'},
                # EOD is decided by what the write means, not by where it
                # is: see r56 (end-of-data line matched / reader gives up)
                }


def run(e: Engine, rep: Report):
    rep.rule('R5.1', 'None-or-index attribute (DataReader.EOD) is tested by '
             'identity only; lines are rewritten / EOD is set only while '
             'EOD is None')
    rep.rule('R5.3', 'DataReader.recv = from_recv_buffer (takes all, '
             'clears) ... return_all (lines[:EOD] returned, lines[EOD+1:] '
             'restored to io.recv_buffer)')
    rep.rule('R5.4', 'bytes reach the reader only through io.recv_buffer '
             'and IO.raw_recv')
    rep.rule('R5.5', 'line terminator of fullline_pattern (from its regex '
             'syntax tree) = LF with an LF-free body; every byte literal '
             'containing CR/LF in DataSender._process_part / __iter__ is LF '
             'or LF+"."; `find(lit) + k` has k = len(lit)')
    rep.rule('R5.6', 'add_lines calls handle_finished_line exactly once per '
             'match of fullline_pattern; DataReader.i / lines are assigned '
             'only in their owner methods (private helpers of owners '
             'included); EOD is set only to None initially, under a match of '
             'eod_pattern, or right before raise MessageTooBig')
    rep.tables.add('c05.STATE_OWNERS')
    rep.not_decided += [
        'the bijection between DataSender._process_part (dot stuffing, end '
        'marker choice) and the reader dot removal: a value-level fact '
        'about byte strings over all segmentations - not decided by this '
        'family; decided are the agreement of the two sides on the line '
        'terminator and the per-line bookkeeping of the reader',
        'the exact language of eod_pattern']
    c09.g4(e, rep, 'R5.1')
    c09.g3(e, rep, 'R5.3')
    c09.g1(e, rep, 'R5.4')
    r55(e, rep)
    r56(e, rep)
    rep.rule('R5.7', 'segmentation independence: the end-of-data write and '
             'the dot removal are guarded by the finished line, the cursor '
             'and EOD only - not by reader state that is set from the '
             'fragment being added')
    r57(e, rep)
    rep.rule('R5.8', 'the dot-stuffer is applied to the parts the caller '
             'gave, whole: every _process_part call receives an element of '
             'self.parts (the start of a part is treated as the start of a '
             'line; a piece cut elsewhere gets a dot doubled)')
    r58(e, rep)
    rep.rule('R5.9', 'the end marker is the end-of-data line `.CRLF`, '
             'preceded by one complete CRLF or by nothing: no other value '
             'is ever assigned to DataSender.end_marker')
    r59(e, rep)
    rep.rule('R5.16', 'the reader undoes the stuffing wherever the sender '
             'may have done it: the dot removal in handle_finished_line '
             'runs for every finished line of the message - under no '
             'condition other than "still inside the data", "not the '
             'end-of-data line", "starts with a dot"')
    r516(e, rep, 'R5.16')
    rep.rule('R5.15', 'the sender puts the content on the wire as it is, '
             'dots added and nothing else: no method of DataSender passes '
             'message bytes through a rewriting operation (table '
             'CONTENT_REWRITERS: replace / sub / translate / strip ...)')
    rep.tables.add('c05.CONTENT_REWRITERS')
    r515(e, rep)
    rep.rule('R5.14', '= C09-G11: a command line handed out by recv_line has '
             'been removed from recv_buffer (the DATA reader starts from '
             'what recv_buffer holds)')
    from . import c09 as _c09g
    _c09g.g11(e, rep, 'R5.14')
    rep.rule('R5.11', 'what decides the end marker is gathered over all '
             'parts: self.parts is only iterated, never read at a fixed '
             'position (an empty or one-byte last part says nothing about '
             'how the data ends)')
    r511(e, rep)
    rep.rule('R5.12', 'everything goes out through the send buffer, in '
             'order: IO.raw_send is called by IO.flush_send only, '
             'buffered_send only appends (a piece written around the buffer '
             'overtakes what was buffered before it)')
    r512(e, rep)
    rep.rule('R5.13', 'a line is finished by its terminator only: '
             'handle_finished_line is called inside the pass over the '
             'complete lines of the piece and nowhere else in the reader')
    r513(e, rep)
    rep.rule('R5.10', 'the reader looks for the end of the data after '
             'every socket read: between two raw_recv calls of '
             'DataReader.recv lie add_lines and the EOD test (a read '
             'issued after the message is complete waits for bytes that '
             'belong to nobody)')
    r510(e, rep)
    rep.rule('R5.17', 'a position found with find() / rfind() is judged '
             'against -1: in the DATA reader and sender no result of find '
             'is tested with `> 0`, `<= 0` or by truth - position 0 is a '
             'hit (a piece that begins with the line feed of a CR LF cut '
             'between two reads, a dot line at the very start), and taking '
             'it for "not found" leaves that line unfinished')
    r517(e, rep)
    rep.rule('R5.18', 'the end marker is looked for in the whole line: what '
             'the reader puts to eod_pattern (and to the leading-dot test) '
             'below add_lines is the line as it stands in self.lines - '
             'never the fragment the caller has just cut off the piece (a '
             'line that arrived in two reads, `\\r\\n.` + `\\r\\n`, is '
             'judged by its tail: the tail alone is not the marker, or '
             'worse, it is although the line is not)')
    r518(e, rep)
    rep.rule('R5.19', 'what a generator of the sender needs it is given: a '
             'generator method of DataSender reads no attribute that the '
             'method which creates it (without consuming it on the spot) '
             'also assigns - the body of a generator runs when it is '
             'iterated, so every part is stuffed with the value the '
             'attribute has after the last part was looked at, not the '
             'value that held for its own part')
    r519(e, rep)
    rep.floor('R5.1', 2, 'sentinel tests and rewrite sites')
    rep.floor('R5.3', 5, 'hand-over obligations')


def _module_pattern(e: Engine, mod: str, name: str):
    """(pattern bytes, flags int, ast node) of NAME = re.compile(<const>,
    flags) at module level, or None."""
    m = e.p.modules.get(mod)
    if m is None:
        return None
    for st in m.tree.body:
        if isinstance(st, ast.Assign) and any(
                isinstance(t, ast.Name) and t.id == name
                for t in st.targets) and isinstance(st.value, ast.Call) \
                and ast.unparse(st.value.func) == 're.compile' and \
                st.value.args and isinstance(st.value.args[0], ast.Constant):
            flags = 0
            fl = st.value.args[1:] + [k.value for k in st.value.keywords]
            for f in fl:
                for x in ast.walk(f):
                    if isinstance(x, ast.Attribute) and hasattr(re, x.attr):
                        flags |= int(getattr(re, x.attr))
            return st.value.args[0].value, flags, st
    return None


def line_terminator(pattern: bytes, flags: int):
    """(terminator bytes, body may contain the terminator's last byte) of a
    `<body>*<literal...>` pattern, from the regex syntax tree; None when the
    pattern has another shape."""
    from re import _parser as sp
    from re import _constants as sc
    items = list(sp.parse(pattern, flags))

    def flat(its):
        # capturing groups do not change what is matched
        out = []
        for it in its:
            if it[0] == sc.SUBPATTERN:
                out += flat(list(it[1][3]))
            else:
                out.append(it)
        return out
    items = flat(items)
    lits = []
    while items and items[-1][0] == sc.LITERAL:
        lits.insert(0, items.pop()[1])
    # an optional CR in front of the final LF (`\r?\n`) leaves the line end
    # where it was: at every LF (the CR, when there, is the last byte of
    # what the body repeat would have matched anyway)
    if lits == [10] and items and items[-1][0] == sc.MAX_REPEAT and \
            items[-1][1][0] == 0 and items[-1][1][1] == 1 and \
            list(items[-1][1][2]) == [(sc.LITERAL, 13)]:
        items.pop()
    if not lits or len(items) != 1:
        return None
    op, av = items[0]
    if op not in (sc.MAX_REPEAT, sc.MIN_REPEAT) or len(av[2]) != 1:
        return None
    bop, bav = av[2][0]
    last = lits[-1]
    if bop == sc.ANY:
        contains = bool(flags & re.DOTALL) or last != 10
    elif bop == sc.NOT_LITERAL:
        contains = bav != last
    else:
        return None
    return bytes(lits), contains, op == sc.MIN_REPEAT


# bytes methods that cut a buffer into lines, and the boundaries they use
# (Python language reference: bytes.splitlines splits on \n, \r and \r\n)
LINE_SPLITTERS = {'splitlines': {b'\n', b'\r', b'\r\n'}}


def _is_trigger(v: bytes) -> bool:
    """a "line boundary followed by a dot" literal: what the sender looks
    for to find dots at line starts (end-of-data markers end in a line
    break and are something else)"""
    return v.endswith(b'.') and (b'\n' in v or b'\r' in v)


def r55(e: Engine, rep: Report):
    got = _module_pattern(e, READER_MOD, 'fullline_pattern')
    mod = e.p.modules[READER_MOD]
    if got is None:
        # no line pattern: the reader may cut the piece with
        # `parts = piece.split(<sep>)`, pop the unfinished rest and walk the
        # finished lines - then <sep> is the terminator, and no line body
        # contains it
        rc = common.merged_class(e, READER)
        cut = None
        for mname, m in sorted(rc.methods.items()):
            for lp in walk_own(m.node):
                if isinstance(lp, ast.For) and isinstance(lp.iter, ast.Name):
                    ds = [a.value for a in walk_own(m.node)
                          if isinstance(a, ast.Assign) and any(
                              isinstance(t, ast.Name) and t.id == lp.iter.id
                              for t in a.targets)]
                    pops = [x for x in walk_own(m.node)
                            if isinstance(x, ast.Call) and
                            isinstance(x.func, ast.Attribute) and
                            x.func.attr == 'pop' and not x.args and
                            isinstance(x.func.value, ast.Name) and
                            x.func.value.id == lp.iter.id]
                    if len(ds) == 1 and len(pops) == 1 and \
                            isinstance(ds[0], ast.Call) and \
                            isinstance(ds[0].func, ast.Attribute) and \
                            ds[0].func.attr == 'split' and \
                            len(ds[0].args) == 1 and \
                            isinstance(ds[0].args[0], ast.Constant) and \
                            isinstance(ds[0].args[0].value, bytes):
                        cut = (ds[0].args[0].value, m, ds[0])
        if cut is None:
            rep.error('anchor vanished: fullline_pattern = re.compile(...)')
            return
        pat, node = b'split(%r)' % cut[0], cut[2]
        where = cut[1].qname
        lt = (cut[0], False, False)
    else:
        pat, flags, node = got
        where = READER_MOD + '.fullline_pattern'
        lt = line_terminator(pat, flags)
    rep.evaluations += 1
    if lt is None:
        rep.unknown('R5.5', where, 'shape of the line pattern',
                    'cannot read a line terminator off %r' % pat,
                    loc='%s:%d' % (mod.relpath, node.lineno))
        return
    term, body_has, lazy = lt
    rep.check(term == b'\n' and not body_has, 'R5.5', where,
              'a line ends at every LF and only there',
              'the reader\'s line pattern %r ends a line at %r%s: the '
              'sender stuffs a dot after every LF, so a dot-leading line '
              'that follows a bare LF (or a CR LF cut between two reads) '
              'is not recognised as a line of its own - a stuffed dot '
              'stays in the content or the end-of-data line is missed'
              % (pat, term, ' and lets the line body contain it'
                 if body_has else ''),
              loc='%s:%d' % (mod.relpath, node.lineno),
              reason='terminator LF, LF-free body')
    # the sender side
    c = e.p.cls(SENDER)
    nlit = 0
    for mname in ('_process_part', '__iter__'):
        if c.methods.get(mname) is None:
            rep.error('anchor vanished: DataSender.' + mname)
    # literals kept as class-level constants count like literals in the
    # code that uses them
    # (class level or module level of the sender's module)
    folded = []
    for st in list(c.module.tree.body):
        # (module constants built from earlier ones: _LF_DOT = b'\n' + _DOT)
        if isinstance(st, ast.Assign) and len(st.targets) == 1 and \
                isinstance(st.targets[0], ast.Name) and \
                not isinstance(st.value, ast.Constant):
            mv = common.module_const(c.module, st.targets[0].id)
            if isinstance(mv, bytes) and _is_trigger(mv):
                cst = ast.Constant(value=mv)
                asg = ast.Assign(targets=st.targets, value=cst)
                ast.copy_location(asg, st)
                ast.copy_location(cst, st)
                folded.append(asg)
    for st in list(c.node.body) + list(c.module.tree.body) + folded:
        if isinstance(st, ast.Assign) and \
                isinstance(st.value, ast.Constant) and \
                isinstance(st.value.value, bytes) and \
                _is_trigger(st.value.value):
            # a "line boundary + dot" trigger (the end-of-data markers,
            # which end in a line break, are not stuffing triggers)
            nlit += 1
            rep.evaluations += 1
            v = st.value.value
            rep.check(v == term + b'.', 'R5.5', SENDER,
                      'line-boundary literal %r' % v,
                      'the sender decides where a line starts with %r '
                      'while the reader ends lines at %r: a dot that the '
                      'reader will see at the start of a line is not '
                      'stuffed' % (v, term),
                      loc='%s:%d' % (c.module.relpath, st.lineno),
                      reason='equals the reader\'s terminator (+ ".")')
    for mname, m in sorted(c.methods.items()):
        rep.functions.add(m.qname)
        # library calls that decide where lines begin bring their own set of
        # line boundaries (table LINE_SPLITTERS): it has to be the reader's
        for n in ast.walk(m.node):
            if isinstance(n, ast.Call) and isinstance(n.func, ast.Attribute) \
                    and n.func.attr in LINE_SPLITTERS:
                nlit += 1
                rep.evaluations += 1
                bounds = LINE_SPLITTERS[n.func.attr]
                rep.check(bounds == {term}, 'R5.5', m.qname,
                          'line boundaries of %s()' % n.func.attr,
                          'the sender finds line starts with %s(), which '
                          'begins a new line after each of %s, while the '
                          'reader ends lines at %r only: a dot that follows '
                          'one of the other boundaries is stuffed although '
                          'the reader will not see it at the start of a '
                          'line - the extra dot stays in the content'
                          % (n.func.attr, sorted(bounds), term),
                          loc=m.loc(n), reason='same boundary set as the '
                          'reader')
        for n in ast.walk(m.node):
            if isinstance(n, ast.Constant) and isinstance(n.value, bytes) \
                    and _is_trigger(n.value):
                nlit += 1
                rep.evaluations += 1
                rep.check(n.value == term + b'.', 'R5.5', m.qname,
                          'line-boundary literal %r' % n.value,
                          'the sender decides where a line starts with %r '
                          'while the reader ends lines at %r: a dot that '
                          'the reader will see at the start of a line is '
                          'not stuffed (the reader strips a dot that '
                          'belongs to the content, or takes ".\\r\\n" '
                          'inside the content for the end of data)'
                          % (n.value, term), loc=m.loc(n),
                          reason='equals the reader\'s terminator (+ ".")')
        # a bare line-break literal used to LOOK for line ends (searched
        # for / tested at an end of the data) is the reader's terminator
        if mname not in ('send', '_send_piece'):
            for n in ast.walk(m.node):
                if not (isinstance(n, ast.Call) and
                        isinstance(n.func, ast.Attribute) and
                        n.func.attr in ('endswith', 'startswith', 'find',
                                        'rfind', 'index', 'rindex', 'count',
                                        'partition', 'rpartition')):
                    continue
                for a in n.args[:1]:
                    vals = [a] if isinstance(a, ast.Constant) else (
                        list(a.elts) if isinstance(a, ast.Tuple) else [])
                    for c0 in vals:
                        if isinstance(c0, ast.Constant) and \
                                isinstance(c0.value, bytes) and c0.value and \
                                set(c0.value) <= set(b'\r\n'):
                            nlit += 1
                            rep.evaluations += 1
                            rep.check(
                                c0.value == term, 'R5.5', m.qname,
                                'line-end test %s(%r)' % (n.func.attr,
                                                          c0.value),
                                'the sender takes %r for the end of a line '
                                'while the reader ends lines at %r: a dot '
                                'the reader will see at the start of a line '
                                'is not stuffed (or one inside a line is)'
                                % (c0.value, term), loc=m.loc(c0),
                                reason='equals the reader\'s terminator')
        # offsets added to a find() result
        finds = {}
        for n in walk_own(m.node):
            if isinstance(n, ast.Assign) and isinstance(n.value, ast.Call) \
                    and isinstance(n.value.func, ast.Attribute) and \
                    n.value.func.attr in ('find', 'index') and \
                    n.value.args and \
                    isinstance(n.value.args[0], ast.Constant) and \
                    isinstance(n.value.args[0].value, bytes) and \
                    isinstance(n.targets[0], ast.Name):
                finds[n.targets[0].id] = n.value.args[0].value
        # ... where the search is resumed: the start argument of the next
        # find (directly, or through the cursor it is assigned to).  Other
        # uses of the position (`index + 1` = where the dot is) are not
        # judged: they are arithmetic, not agreement with the reader.
        starts = set()
        cursors = set()
        for n in walk_own(m.node):
            if isinstance(n, ast.Call) and isinstance(n.func, ast.Attribute) \
                    and n.func.attr in ('find', 'index') and \
                    len(n.args) >= 2:
                for y in ast.walk(n.args[1]):
                    starts.add(id(y))
                if isinstance(n.args[1], ast.Name):
                    cursors.add(n.args[1].id)
        for n in walk_own(m.node):
            if isinstance(n, ast.Assign) and \
                    isinstance(n.targets[0], ast.Name) and \
                    n.targets[0].id in cursors:
                for y in ast.walk(n.value):
                    starts.add(id(y))
        for n in walk_own(m.node):
            if isinstance(n, ast.BinOp) and isinstance(n.op, ast.Add) and \
                    isinstance(n.left, ast.Name) and n.left.id in finds and \
                    isinstance(n.right, ast.Constant) and id(n) in starts:
                rep.evaluations += 1
                lit = finds[n.left.id]
                rep.check(n.right.value == len(lit), 'R5.5', m.qname,
                          'offset `%s` past the literal searched for'
                          % ast.unparse(n),
                          'after find(%r) the sender continues at +%r '
                          'instead of +%d: the bytes of the match are '
                          'sent twice or skipped' % (lit, n.right.value,
                                                     len(lit)),
                          loc=m.loc(n), reason='+ len(literal)')
    if nlit < 1:
        rep.error('anchor vanished: stuffing trigger literal in DataSender')


def _add_lines_graph(e: Engine):
    ctx = e.method_ctx(READER, 'add_lines')
    g = e.build(ctx, raises=lambda b, n, r: set(),
                inline=e.inline_same_self(deny=[
                    'handle_finished_line', '_count_size', '_append_line']),
                max_depth=3)
    return ctx, g


def _per_line_for(it, fn) -> bool:
    """does a `for` over `it` (in function node fn) visit the terminated
    lines of the piece, one per iteration?"""
    if 'fullline_pattern' in ast.unparse(it):
        return True
    # the finished lines of `parts = piece.split(b'\n')` after the
    # unfinished rest was popped off
    if isinstance(it, ast.Name):
        ds = [a.value for a in walk_own(fn) if isinstance(a, ast.Assign)
              and any(isinstance(t, ast.Name) and t.id == it.id
                      for t in a.targets)]
        pops = [x for x in walk_own(fn) if isinstance(x, ast.Call) and
                isinstance(x.func, ast.Attribute) and
                x.func.attr == 'pop' and not x.args and
                isinstance(x.func.value, ast.Name) and
                x.func.value.id == it.id]
        return len(ds) == 1 and len(pops) == 1 and \
            isinstance(ds[0], ast.Call) and \
            isinstance(ds[0].func, ast.Attribute) and \
            ds[0].func.attr == 'split' and len(ds[0].args) == 1 and \
            isinstance(ds[0].args[0], ast.Constant) and \
            ds[0].args[0].value == b'\n'
    return False


def _mentions_eod(e: Engine, k: str) -> bool:
    """does the fact key test the end-of-data pattern - directly, or through
    a predicate of the reader whose body is `return <test of eod_pattern>`"""
    if 'eod_pattern' in k:
        return True
    import re as _re
    for nm in _re.findall(r'(?:self|cls|DataReader)(?:#\d+)?\.(\w+)\(', k):
        m = e.p.lookup_method(READER, nm)
        if m is None:
            continue
        body = [st for st in m.node.body
                if not (isinstance(st, ast.Expr) and
                        isinstance(st.value, ast.Constant))]
        if len(body) == 1 and isinstance(body[0], ast.Return) and \
                body[0].value is not None and \
                'eod_pattern' in ast.unparse(body[0].value):
            return True
    return False


def r56(e: Engine, rep: Report):
    ctx, g = _add_lines_graph(e)
    where = ctx.func.qname
    rep.functions.add(where)

    def per_line(n):
        return _per_line_for(n.ast.iter, n.frame.ctx.func.node)
    loops = [n for n in g.of_kind('iter') if isinstance(n.ast, ast.For) and
             per_line(n)]
    rep.evaluations += 1
    if not loops:
        rep.error('anchor vanished: loop over fullline_pattern matches in '
                  'add_lines')
    for lp in loops:
        counts = common.per_iteration_counts(
            g, lp, lambda n: 1 if n.kind in ('call', 'call_enter') and
            e.call_name(n) == 'handle_finished_line' else 0)
        rep.check(counts == frozenset([1]), 'R5.6', where,
                  'every completed line is examined exactly once',
                  'per completed line handle_finished_line runs %s times: '
                  'a line that is not examined is neither tested for the '
                  'end-of-data marker nor un-stuffed (its first bytes may '
                  'have arrived in an earlier read)' % sorted(counts),
                  loc=lp.loc(), reason='one call per match')
    c = e.p.cls(READER)
    nw = 0
    # a private helper that is called by owner methods only is an owner too
    callers = {}
    for mname, m in c.methods.items():
        for x in walk_own(m.node):
            if isinstance(x, ast.Attribute) and isinstance(
                    x.value, ast.Name) and x.value.id == 'self' and \
                    x.attr in c.methods:
                callers.setdefault(x.attr, set()).add(mname)
    owners = {a: set(v) for a, v in STATE_OWNERS.items()}
    for a in owners:
        changed = True
        while changed:
            changed = False
            for mname in c.methods:
                if mname not in owners[a] and mname.startswith('_') and \
                        callers.get(mname) and \
                        callers[mname] <= owners[a]:
                    owners[a].add(mname)
                    changed = True
    # EOD: the initial None, the index of a line that matched the
    # end-of-data pattern, or the give-up mark set right before MessageTooBig
    # is raised - nothing else
    for mname, m in sorted(c.methods.items()):
        if not any(isinstance(x, ast.Attribute) and x.attr == 'EOD' and
                   isinstance(x.ctx, ast.Store) for x in ast.walk(m.node)):
            continue
        cx = Ctx(m, READER)
        gg = e.build(cx, raises=lambda b, n, r: set())
        ff = e.facts(gg)
        for n in gg.of_kind('stmt'):
            if not (isinstance(n.ast, ast.Assign) and any(
                    isinstance(t, ast.Attribute) and t.attr == 'EOD' and
                    isinstance(t.value, ast.Name) and t.value.id == 'self'
                    for t in n.ast.targets)):
                continue
            nw += 1
            rep.evaluations += 1
            v = n.ast.value
            st = ff.at(n) or frozenset()
            init = mname == '__init__' and isinstance(v, ast.Constant) and \
                v.value is None
            matched = any(p and _mentions_eod(e, k) for p, k in st)
            nxt = [s2 for l, s2 in n.succ]
            while len(nxt) == 1 and nxt[0].kind == 'call':
                nxt = [s2 for l, s2 in nxt[0].succ
                       if not isinstance(l, tuple)]
            gives_up = bool(nxt) and all(
                s2.kind == 'stmt' and isinstance(s2.ast, ast.Raise) and
                'MessageTooBig' in ast.unparse(s2.ast) for s2 in nxt)
            rep.check(init or matched or gives_up, 'R5.6', m.qname,
                      'write of self.EOD',
                      'DataReader.EOD is set in %s although neither the '
                      'line matched the end-of-data pattern nor the reader '
                      'gives up with MessageTooBig: content after that '
                      'point is handed back to the command parser'
                      % mname, loc=n.loc(),
                      reason='initial None' if init else (
                          'under a match of eod_pattern' if matched
                          else 'followed by raise MessageTooBig'))
    for mname, m in sorted(c.methods.items()):
        for n in walk_own(m.node):
            tg = []
            if isinstance(n, ast.Assign):
                tg = n.targets
            elif isinstance(n, (ast.AugAssign, ast.AnnAssign)):
                tg = [n.target]
            flat = []
            for t in tg:
                flat += list(t.elts) if isinstance(t, (ast.Tuple, ast.List)) \
                    else [t]
            for t in flat:
                x = t
                while isinstance(x, ast.Subscript):
                    x = x.value
                for x in [x]:
                    if isinstance(x, ast.Attribute) and \
                            isinstance(x.value, ast.Name) and \
                            x.value.id == 'self' and x.attr in STATE_OWNERS:
                        nw += 1
                        rep.evaluations += 1
                        rep.check(mname in owners[x.attr], 'R5.6',
                                  m.qname, 'write of self.%s' % x.attr,
                                  'DataReader.%s is changed in %s, outside '
                                  'the methods that keep cursor, line table '
                                  'and end-of-data index consistent (%s)'
                                  % (x.attr, mname,
                                     ', '.join(sorted(STATE_OWNERS[x.attr]))),
                                  loc=m.loc(n), reason='owner method')
    if nw < 6:
        rep.error('anchor vanished: writes of DataReader.i/lines/EOD '
                  '(%d < 6)' % nw)


# -------------------------------------------------------------------- R5.7
def r57(e: Engine, rep: Report):
    """What the reader decides about a line depends on the ASSEMBLED line
    only, never on how the bytes happened to arrive.  The decisions are the
    end-of-data write and the dot removal in the per-line handler; besides
    the finished line, the cursor and EOD itself they may look at reader
    state only if that state is computed from assembled lines too.  State
    written from the fragment being added (`piece`, a match over it) differs
    between two segmentations of the same byte stream."""
    c = e.p.cls(READER)
    core = {'EOD', 'lines', 'i'}
    # attributes written from fragment-derived values, per writer
    tainted_attrs = {}
    for mname, m in sorted(c.methods.items()):
        params = [p for p in m.params if p != 'self']
        if mname in ('__init__',) or not params:
            continue
        # names derived from the fragment parameters of a feeding method
        feeds = mname in ('add_lines', 'recv_piece', 'from_recv_buffer') or \
            any(p in ('piece', 'data', 'chunk', 'buf') for p in params)
        if not feeds:
            continue
        taint = set(params)
        changed = True
        while changed:
            changed = False
            for n in walk_own(m.node):
                tg, src = [], None
                if isinstance(n, ast.Assign):
                    tg, src = n.targets, n.value
                elif isinstance(n, ast.For):
                    tg, src = [n.target], n.iter
                elif isinstance(n, ast.AugAssign):
                    tg, src = [n.target], n.value
                if src is None:
                    continue
                if any(isinstance(x, ast.Name) and x.id in taint
                       for x in ast.walk(src)):
                    for t in tg:
                        for x in ast.walk(t):
                            if isinstance(x, ast.Name) and \
                                    x.id not in taint:
                                taint.add(x.id)
                                changed = True
        for n in walk_own(m.node):
            if isinstance(n, (ast.Assign, ast.AugAssign)):
                tg = n.targets if isinstance(n, ast.Assign) else [n.target]
                for t in tg:
                    if isinstance(t, ast.Attribute) and \
                            isinstance(t.value, ast.Name) and \
                            t.value.id == 'self' and t.attr not in core and \
                            any(isinstance(x, ast.Name) and x.id in taint
                                for x in ast.walk(n.value)):
                        tainted_attrs.setdefault(t.attr, (m, n))
    # the decision sites
    nsites = 0
    for mname, m in sorted(c.methods.items()):
        if mname == '__init__':
            continue
        cx = Ctx(m, READER)
        g = e.build(cx, raises=lambda b, n, r: set())
        fx = e.facts(g)
        for n in g.of_kind('stmt'):
            a = n.ast
            if not isinstance(a, ast.Assign):
                continue
            eod_w = any(isinstance(t, ast.Attribute) and t.attr == 'EOD' and
                        isinstance(t.value, ast.Name) and
                        t.value.id == 'self' for t in a.targets)
            line_w = any(isinstance(t, ast.Subscript) and
                         ast.unparse(t.value) == 'self.lines'
                         for t in a.targets)
            if not (eod_w or line_w):
                continue
            st = fx.at(n)
            if st is None:
                continue
            # (the give-up mark in front of `raise MessageTooBig` is not a
            # decision about a line)
            if eod_w and not any(p and _mentions_eod(e, k) for p, k in st):
                continue
            nsites += 1
            rep.evaluations += 1
            from ..facts import key_paths
            used = set()
            for p, k in st:
                for kp in key_paths(k):
                    if kp.startswith('self.'):
                        used.add(kp.split('.')[1].split('#')[0])
            bad = sorted(x for x in used if x in tainted_attrs)
            w = tainted_attrs[bad[0]] if bad else None
            rep.check(not bad, 'R5.7', m.qname,
                      'decision `%s` rests on the assembled line only'
                      % n.text(40),
                      'the reader decides this under a condition on '
                      'self.%s, which %s sets from the fragment being added '
                      '(`%s`): the same byte stream cut differently gives a '
                      'different value - an end-of-data line is taken for '
                      'data (or a data line for end-of-data) depending on '
                      'where a read boundary fell' % (
                          bad[0] if bad else '?',
                          w[0].name if w else '?',
                          ' '.join(ast.unparse(w[1]).split())[:60]
                          if w else ''),
                      loc=n.loc(), reason='guards mention the finished '
                      'line, the cursor and EOD only (or state computed '
                      'from assembled lines)')
    if nsites < 2:
        rep.error('anchor vanished: per-line decision sites of DataReader '
                  '(%d < 2)' % nsites)


# ------------------------------------------------------------------- R5.8
def r58(e: Engine, rep: Report):
    c = e.p.cls(SENDER)
    n = 0
    for mname, m in sorted(c.methods.items()):
        for x in ast.walk(m.node):
            if not (isinstance(x, ast.Call) and
                    isinstance(x.func, ast.Attribute) and
                    x.func.attr == '_process_part' and x.args):
                continue
            n += 1
            rep.evaluations += 1
            rep.functions.add(m.qname)
            a = x.args[0]
            ok = False
            if isinstance(a, ast.Name):
                # the variable of a loop / comprehension over self.parts (or
                # over a local that is self.parts)
                srcs = []
                for y in ast.walk(m.node):
                    if isinstance(y, (ast.For, ast.comprehension)) and any(
                            isinstance(t, ast.Name) and t.id == a.id
                            for t in ast.walk(y.target)):
                        srcs.append((y.target, y.iter))

                def is_parts(it, seen=()):
                    if ast.unparse(it) == 'self.parts':
                        return True
                    if isinstance(it, ast.Name) and it.id not in seen:
                        ds = [z.value for z in ast.walk(m.node)
                              if isinstance(z, ast.Assign) and any(
                                  isinstance(t, ast.Name) and t.id == it.id
                                  for t in z.targets)]
                        return bool(ds) and all(
                            is_parts(d, seen + (it.id,)) for d in ds)
                    return False
                ok = bool(srcs) and all(
                    isinstance(tg, ast.Name) and is_parts(it)
                    for tg, it in srcs)
            rep.check(ok, 'R5.8', m.qname,
                      '_process_part is given a whole part',
                      '`%s` hands the dot-stuffer something other than an '
                      'element of self.parts: it escapes a leading dot as '
                      'if its input began a line, so a piece that starts '
                      'in the middle of a line gets a dot doubled'
                      % ' '.join(ast.unparse(x).split())[:70], loc=m.loc(x),
                      reason='iteration variable over self.parts')
    if n < 1:
        rep.error('anchor vanished: _process_part call sites (%d < 1)' % n)


# ------------------------------------------------------------------- R5.9
def r59(e: Engine, rep: Report):
    import re as _re
    c = e.p.cls(SENDER)
    consts = common.class_constants(e, SENDER)
    n = 0

    mod_globals = getattr(c.module, 'globals', {})

    def fold(x):
        if isinstance(x, ast.Constant) and isinstance(x.value, bytes):
            return x.value
        if isinstance(x, ast.Name) and x.id in mod_globals:
            return fold(mod_globals[x.id])
        if isinstance(x, ast.BinOp) and isinstance(x.op, ast.Add):
            a, b = fold(x.left), fold(x.right)
            return None if a is None or b is None else a + b
        if isinstance(x, ast.Attribute) and isinstance(x.value, ast.Name) \
                and x.value.id in ('self', 'cls') and \
                isinstance(consts.get(x.attr), bytes):
            return consts[x.attr]
        return None
    for mname, m in sorted(c.methods.items()):
        for x in walk_own(m.node):
            if not (isinstance(x, ast.Assign) and any(
                    isinstance(t, ast.Attribute) and t.attr == 'end_marker'
                    for t in x.targets)):
                continue
            vals = [x.value.body, x.value.orelse] if isinstance(
                x.value, ast.IfExp) else [x.value]
            for v in vals:
                n += 1
                rep.evaluations += 1
                rep.functions.add(m.qname)
                b = fold(v)
                if b is None:
                    rep.unknown('R5.9', m.qname, 'end marker value',
                                'cannot evaluate `%s`' % ast.unparse(v),
                                loc=m.loc(x))
                    continue
                rep.check(_re.fullmatch(br'(\r\n)?\.\r\n', b) is not None,
                          'R5.9', m.qname, 'end marker %r' % b,
                          'the sender ends the data with %r: that is not '
                          '`.CRLF` preceded by a complete CRLF or by '
                          'nothing - a partial line break merges with the '
                          'last bytes of the message (a trailing CR becomes '
                          'part of the terminator: the reader returns other '
                          'bytes than were sent)' % b, loc=m.loc(x),
                          reason='(CRLF)? . CRLF')
    if n < 2:
        rep.error('anchor vanished: assignments of end_marker (%d < 2)' % n)


# ------------------------------------------------------------------ R5.10
def r510(e: Engine, rep: Report):
    ctx = e.method_ctx(READER, 'recv')
    g = e.build(ctx, raises=lambda b, n, r: set(),
                inline=e.inline_same_self(deny=['add_lines']), max_depth=4)
    where = ctx.func.qname
    rep.functions.add(where)
    reads = [n for n in g.nodes if n.kind == 'call' and
             e.call_name(n) in ('raw_recv', 'recv', 'recv_into') and
             n.frame.ctx.func.cls is not None]
    reads = [n for n in reads if e.call_name(n) != 'recv' or
             'socket' in ast.unparse(n.ast.func)]
    scans = [n for n in g.calls() if e.call_name(n) == 'add_lines']
    if not reads or not scans:
        rep.error('anchor vanished: raw_recv / add_lines in DataReader.recv')
        return

    rc = common.merged_class(e, READER)
    eod_props = set()
    for st0 in rc.node.body:
        if isinstance(st0, ast.FunctionDef) and any(
                isinstance(d, ast.Name) and d.id == 'property'
                for d in st0.decorator_list) and any(
                isinstance(y, ast.Attribute) and y.attr == 'EOD'
                for y in ast.walk(st0)):
            eod_props.add(st0.name)

    def asks_eod(t):
        # the sentinel itself, or a property of the reader that reads it
        return any(isinstance(y, ast.Attribute) and
                   (y.attr == 'EOD' or y.attr in eod_props)
                   for y in ast.walk(t))

    def step(x, label, st):
        if x in reads:
            return 'read'
        if x in scans and st == 'read':
            return 'scanned'
        if x.kind == 'test' and st == 'scanned' and label in ('T', 'F') and \
                asks_eod(x.ast):
            return 'clear'
        return st
    for r in reads:
        rep.evaluations += 1
        # (the state that matters is the one in which the read is reached)
        pth = dataflow.typestate_witness(
            g, 'clear', lambda x, l, st: st if x is r and st != 'clear'
            else step(x, l, st),
            lambda x, st: x is r and st in ('read', 'scanned'))
        rep.check(pth is None, 'R5.10', where,
                  'socket read only after the previous piece was examined',
                  'a second socket read can be issued before the piece '
                  'just received was searched for the end of the data: '
                  'when that piece completes the message the reader waits '
                  'for bytes that are not coming (until the data timeout), '
                  'depending only on how the stream was cut', loc=r.loc(),
                  reason='add_lines and the EOD test lie between two reads',
                  witness=dataflow.render_path(pth, 14) if pth else None)


# ------------------------------------------------------------------ R5.11
def r511(e: Engine, rep: Report):
    c = e.p.cls(SENDER)
    n_iter = 0
    for mname, m in sorted(c.methods.items()):
        for x in ast.walk(m.node):
            if isinstance(x, ast.Subscript) and \
                    ast.unparse(x.value) == 'self.parts' and \
                    isinstance(x.ctx, ast.Load) and not isinstance(
                        x.slice, ast.Slice):
                rep.evaluations += 1
                rep.functions.add(m.qname)
                rep.bad('R5.11', m.qname, 'fixed position `%s`'
                        % ast.unparse(x),
                        '%s looks at one fixed part (`%s`): how the data '
                        'ends is decided by its last bytes wherever the '
                        'caller cut it into parts - with an empty or '
                        'one-byte last part the end marker is chosen from '
                        'the wrong bytes (no line break before the final '
                        'dot, or one too many)' % (mname, ast.unparse(x)),
                        loc=m.loc(x))
            if isinstance(x, (ast.For, ast.comprehension)) and \
                    'self.parts' in ast.unparse(x.iter):
                n_iter += 1
    rep.evaluations += 1
    if n_iter < 2:
        rep.error('anchor vanished: passes over self.parts in DataSender '
                  '(%d < 2)' % n_iter)
    else:
        rep.ok('R5.11', SENDER, 'self.parts is only iterated',
               reason='%d passes, no fixed index' % n_iter)


# ------------------------------------------------------------------ R5.12
def r512(e: Engine, rep: Report):
    IOQ = 'slimta.smtp.io.IO'
    n = 0
    for f in e.p.functions.values():
        if not f.module.name.startswith('slimta.'):
            continue
        for x in walk_own(f.node):
            if isinstance(x, ast.Attribute) and x.attr == 'raw_send' and \
                    isinstance(x.ctx, ast.Load):
                n += 1
                rep.evaluations += 1
                rep.functions.add(f.qname)
                rep.check(f.qname == IOQ + '.flush_send', 'R5.12', f.qname,
                          'use of raw_send',
                          '%s writes to the socket around the send buffer: '
                          'what was buffered before (header part, a '
                          'stuffing dot, the end marker of the previous '
                          'piece) is overtaken, the peer reads the pieces '
                          'in another order than they were produced'
                          % f.qname, loc=f.loc(x),
                          reason='only IO.flush_send empties the buffer '
                          'onto the socket')
    if n < 1:
        rep.error('anchor vanished: uses of IO.raw_send (%d < 1)' % n)


# ------------------------------------------------------------------ R5.13
def r513(e: Engine, rep: Report):
    rc = common.merged_class(e, READER)
    n = 0
    _, g = _add_lines_graph(e)
    for mname, m in sorted(rc.methods.items()):
        for x in walk_own(m.node):
            if not (isinstance(x, ast.Call) and
                    isinstance(x.func, ast.Attribute) and
                    x.func.attr == 'handle_finished_line'):
                continue
            n += 1
            rep.evaluations += 1
            rep.functions.add(m.qname)
            loops = [l for l in walk_own(m.node)
                     if isinstance(l, (ast.For, ast.While)) and any(
                         y is x for y in ast.walk(l))]
            guarded = any(
                isinstance(i, ast.If) and any(y is x for y in ast.walk(i))
                and ('finished' in ast.unparse(i.test) or
                     'match' in ast.unparse(i.test))
                for i in walk_own(m.node))
            # a helper add_lines runs for each piece it cut: where the call
            # ends up once the helper is read in place is what counts
            inst = [nd for nd in g.nodes if nd.kind in ('call', 'call_enter')
                    and nd.ast is x]
            in_pass = bool(inst) and all(any(
                sc.kind == 'loop' and isinstance(sc.ast, ast.For) and
                _per_line_for(sc.ast.iter, sc.frame.ctx.func.node)
                for sc in nd.scopes) for nd in inst)
            rep.check(bool(loops) or guarded or in_pass, 'R5.13', m.qname,
                      'handle_finished_line only for terminated lines',
                      '%s calls handle_finished_line() outside the pass '
                      'over the complete lines of the piece: an '
                      'unterminated line is closed off where a read '
                      'happened to end, the rest of it is then taken for '
                      'the start of a line (a leading dot is removed, a '
                      'lone dot ends the data) - the result depends on how '
                      'the stream was cut' % mname, loc=m.loc(x),
                      reason='inside the loop over terminated lines')
    if n < 1:
        rep.error('anchor vanished: handle_finished_line call sites')


# ------------------------------------------------------------------- R5.15
CONTENT_REWRITERS = {'replace', 'sub', 'subn', 'translate', 'strip',
                     'rstrip', 'lstrip', 'lower', 'upper', 'expandtabs',
                     'splitlines', 'decode', 'encode', 'removeprefix',
                     'removesuffix', 'normalize'}


def r515(e: Engine, rep: Report):
    c = e.p.cls(SENDER)
    n = 0
    for mname, m in sorted(c.methods.items()):
        n += 1
        rep.functions.add(m.qname)
        for x in ast.walk(m.node):
            if isinstance(x, ast.Call) and \
                    isinstance(x.func, ast.Attribute) and \
                    x.func.attr in CONTENT_REWRITERS:
                rep.evaluations += 1
                rep.bad('R5.15', m.qname, '`%s`' % ' '.join(
                    ast.unparse(x).split())[:50],
                    'DataSender passes message bytes through %s(): what '
                    'the receiving side assembles is no longer the content '
                    'that was given to the sender (bare LF, white space, '
                    'case ... are content, not framing)' % x.func.attr,
                    loc=m.loc(x))
    rep.evaluations += 1
    if n < 3:
        rep.error('anchor vanished: methods of DataSender (%d < 3)' % n)
    else:
        rep.ok('R5.15', SENDER, 'no rewriting operation on the content',
               reason='%d methods scanned' % n, nontrivial=False)


# ------------------------------------------------------------------- R5.16
def r516(e: Engine, rep: Report, rule: str = 'R5.16'):
    ctx = e.method_ctx(READER, 'handle_finished_line')
    g = e.build(ctx, raises=lambda b, n, r: set(),
                inline=e.inline_same_self(), max_depth=3)
    fx = e.facts(g)
    where = ctx.func.qname
    rep.functions.add(where)
    sites = []
    for n in g.of_kind('stmt'):
        a = n.ast
        if not isinstance(a, ast.Assign):
            continue
        for t in a.targets:
            p = path_of(t, n.frame) or ''
            if p == 'self.EOD' and not (isinstance(a.value, ast.Constant)
                                        and a.value.value is None):
                sites.append((n, 'end-of-data mark'))
            elif isinstance(t, ast.Subscript) and \
                    (path_of(t.value, n.frame) or '') == 'self.lines':
                sites.append((n, 'dot removal'))
    # `line = line[1:]` followed by the write-back counts through the write
    if len(sites) < 2:
        rep.unknown(rule, where, 'un-stuffing sites',
                    'cannot see the end-of-data mark and the dot removal in '
                    'handle_finished_line', loc=ctx.func.loc())
        return

    def allowed(k):
        return 'EOD' in k or _mentions_eod(e, k) or "b'.'" in k or \
            k.startswith('len(') or '_in_data' in k
    for n, what in sites:
        if what != 'dot removal':
            # (the sender always ends the data with CRLF . CRLF: an end
            # mark recognised after a CRLF only still agrees with it)
            continue
        rep.evaluations += 1
        st = fx.at(n) or frozenset()
        extra = sorted(k for p, k in st if not allowed(k))
        rep.check(not extra, rule, where, '%s runs for every finished line'
                  % what,
                  'the %s happens only under %s: the sender stuffs a dot '
                  'after every LF and ends the data with CRLF . CRLF '
                  'whatever came before, so for a line the reader does not '
                  'treat, a stuffed dot stays in the content (or the end of '
                  'the data is missed)' % (what, extra), loc=n.loc(),
                  reason='conditions: inside the data / not EOD / leading '
                  'dot only')


# ------------------------------------------------------------------ R5.17
def r517(e: Engine, rep: Report):
    mods = ('slimta.smtp.datareader', 'slimta.smtp.datasender')
    n = 0
    for f in sorted(e.p.functions.values(), key=lambda f: f.qname):
        if f.module.name not in mods:
            continue
        found = set()
        for a in walk_own(f.node):
            if isinstance(a, ast.Assign) and isinstance(a.value, ast.Call) \
                    and isinstance(a.value.func, ast.Attribute) and \
                    a.value.func.attr in ('find', 'rfind'):
                for t in a.targets:
                    if isinstance(t, ast.Name):
                        found.add(t.id)

        def num(y):
            if isinstance(y, ast.UnaryOp) and isinstance(y.op, ast.USub):
                y = y.operand
            return isinstance(y, ast.Constant) and \
                isinstance(y.value, int)

        def is_found(x):
            return (isinstance(x, ast.Name) and x.id in found) or (
                isinstance(x, ast.Call) and
                isinstance(x.func, ast.Attribute) and
                x.func.attr in ('find', 'rfind'))
        if not found and not any(is_found(x) for x in walk_own(f.node)):
            continue
        rep.functions.add(f.qname)
        tests = []
        for x in walk_own(f.node):
            if isinstance(x, (ast.If, ast.While, ast.IfExp)):
                tests.append(x.test)
            elif isinstance(x, ast.BoolOp):
                tests += x.values
            elif isinstance(x, ast.UnaryOp) and isinstance(x.op, ast.Not):
                tests.append(x.operand)
        for x in walk_own(f.node):
            bad = None
            if isinstance(x, ast.Compare) and len(x.ops) == 1:
                l, r, op = x.left, x.comparators[0], x.ops[0]
                zero = lambda y: isinstance(y, ast.Constant) and \
                    y.value == 0 and y.value is not False
                if is_found(l) and zero(r) and isinstance(
                        op, (ast.Gt, ast.LtE)):
                    bad = x
                elif is_found(r) and zero(l) and isinstance(
                        op, (ast.Lt, ast.GtE)):
                    bad = x
                elif not ((is_found(l) and num(r)) or
                          (is_found(r) and num(l))):
                    continue
            elif is_found(x) and any(x is t for t in tests):
                bad = x
            else:
                continue
            n += 1
            rep.evaluations += 1
            rep.check(bad is None, 'R5.17', f.qname,
                      '`%s` judges the position against -1'
                      % ' '.join(ast.unparse(x).split())[:40],
                      '`%s` takes position 0 for "not found": a piece whose '
                      'first byte is the searched one (the LF of a CR LF '
                      'that was cut between two reads, a blank line at the '
                      'start of a piece) is not cut there - the line is '
                      'never finished, the end-of-data marker behind it is '
                      'not seen and the reader waits for bytes the client '
                      'has already sent'
                      % ' '.join(ast.unparse(x).split())[:40],
                      loc=f.loc(x), reason='== -1 / != -1 / >= 0 / < 0')
    if n < 1:
        rep.ok('R5.17', 'slimta.smtp.datasender', 'no find() result is '
               'tested in the DATA reader / sender',
               reason='nothing to judge', nontrivial=False)


# ------------------------------------------------------------------ R5.18
def r518(e: Engine, rep: Report):
    ctx = e.method_ctx(READER, 'add_lines')
    g = e.build(ctx, raises=lambda b, n, r: set(),
                inline=e.inline_same_self(deny=['_count_size',
                                                '_append_line']),
                max_depth=3)
    n = 0
    for nd in g.nodes:
        if nd.kind != 'call' or not isinstance(nd.ast.func, ast.Attribute) \
                or nd.ast.func.attr not in ('match', 'search', 'fullmatch') \
                or 'eod' not in ast.unparse(nd.ast.func.value).lower() \
                or not nd.ast.args:
            continue
        a0 = nd.ast.args[0]
        if not isinstance(a0, ast.Name):
            continue
        n += 1
        rep.evaluations += 1
        rep.functions.add(nd.frame.ctx.func.qname)
        defs = common.reaching_defs(g, nd, path_of(a0, nd.frame))
        bad = None
        for d in defs:
            if d is None:
                if a0.id in nd.frame.ctx.func.params:
                    ae = getattr(nd.frame, 'arg_exprs', {}).get(a0.id)
                    bad = 'the argument `%s` of its caller' % (
                        ' '.join(ast.unparse(ae[0]).split())[:40]
                        if ae else a0.id)
                continue
            v = d.ast.value if isinstance(d.ast, ast.Assign) else None
            if not (isinstance(v, ast.Subscript) and
                    'self.lines' in ast.unparse(v.value)):
                o = common.origin(g, v, d.frame)[0] if v is not None else None
                if not (isinstance(o, ast.Subscript) and
                        'self.lines' in ast.unparse(o.value)):
                    bad = '`%s`' % d.text(40)
        rep.check(bad is None, 'R5.18', nd.frame.ctx.func.qname,
                  '`%s` judges the stored line' % nd.text(40),
                  'the line put to the end-of-data pattern can be %s - what '
                  'has been cut off the piece just received, not the line '
                  'as accumulated in self.lines: when a line arrives in two '
                  'reads only its second part is examined, so `.` + CR LF '
                  'after a cut is taken for the end of the data in the '
                  'middle of a line (or the real marker is missed)' %
                  (bad or ''), loc=nd.loc(),
                  reason='every reaching definition reads self.lines[...]')
    if n < 1:
        rep.ok('R5.18', 'slimta.smtp.datareader', 'the end marker is not '
               'matched on a local below add_lines',
               reason='R5.11 reads the other shapes', nontrivial=False)


# ------------------------------------------------------------------ R5.19
def r519(e: Engine, rep: Report):
    n = 0
    for cq, c in sorted(e.p.classes.items()):
        if c.module.name != 'slimta.smtp.datasender':
            continue
        gens = {}
        for nm, m in c.methods.items():
            if any(isinstance(x, (ast.Yield, ast.YieldFrom))
                   for x in walk_own(m.node)):
                gens[nm] = {x.attr for x in walk_own(m.node)
                            if isinstance(x, ast.Attribute) and
                            isinstance(x.value, ast.Name) and
                            x.value.id == 'self' and
                            isinstance(x.ctx, ast.Load)}
        for nm, m in sorted(c.methods.items()):
            made = [x for x in walk_own(m.node) if isinstance(x, ast.Call)
                    and isinstance(x.func, ast.Attribute) and
                    isinstance(x.func.value, ast.Name) and
                    x.func.value.id == 'self' and x.func.attr in gens]
            if not made:
                continue
            # consumed on the spot: iterated by a for / yield from / list()
            eager = set()
            for x in walk_own(m.node):
                if isinstance(x, ast.For) and x.iter in made:
                    eager.add(id(x.iter))
                if isinstance(x, ast.YieldFrom) and x.value in made:
                    eager.add(id(x.value))
                if isinstance(x, ast.Call) and isinstance(x.func, ast.Name) \
                        and x.func.id in ('list', 'tuple', 'sum', 'bytes') \
                        and x.args and x.args[0] in made:
                    eager.add(id(x.args[0]))
                if isinstance(x, ast.Call) and \
                        isinstance(x.func, ast.Attribute) and \
                        x.func.attr == 'join' and x.args and \
                        x.args[0] in made:
                    eager.add(id(x.args[0]))
            wrote = {}
            for x in walk_own(m.node):
                tg = x.targets if isinstance(x, ast.Assign) else (
                    [x.target] if isinstance(x, (ast.AugAssign,
                                                 ast.AnnAssign)) else [])
                for t in tg:
                    if isinstance(t, ast.Attribute) and \
                            isinstance(t.value, ast.Name) and \
                            t.value.id == 'self':
                        wrote.setdefault(t.attr, x)
            for call in made:
                if id(call) in eager:
                    continue
                n += 1
                rep.evaluations += 1
                rep.functions.add(m.qname)
                both = sorted(gens[call.func.attr] & set(wrote))
                rep.check(not both, 'R5.19', m.qname,
                          '`%s` is given what it needs'
                          % ' '.join(ast.unparse(call).split())[:40],
                          '%s creates the generator `%s` and assigns '
                          'self.%s (`%s`), which the generator reads: its '
                          'body runs only when the chain is iterated, after '
                          '%s has finished - every part sees the last value '
                          'written, so the leading dot of a part is stuffed '
                          '(or not) by where the LAST part left off: a dot '
                          'line at a part boundary goes out unstuffed and '
                          'ends the message early' % (
                              nm, call.func.attr, both[0] if both else '',
                              ' '.join(ast.unparse(wrote[both[0]]).split(
                                  ))[:40] if both else '', nm),
                          loc=m.loc(call), reason='no attribute both read '
                          'by the generator and assigned by its creator')
    if n < 1:
        rep.ok('R5.19', 'slimta.smtp.datasender', 'no generator of the '
               'sender is created for later consumption',
               reason='nothing runs late', nontrivial=False)
