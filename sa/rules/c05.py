"""C05 - message content crosses DATA framing unchanged (reader half only).

The sender/reader bijection is value-level and NOT decided here.  Decided are
the structural parts of the reader that the round trip depends on:

R5.1 end-of-data sentinel discipline (None-or-index attribute tested by
     identity only)                                    = C09-G4 first half
R5.2 nothing after EOD is transformed; EOD is set once  = C09-G4 second half
R5.3 hand-over between command buffer and reader in both directions = C09-G3
R5.4 the reader's only source of bytes is the shared buffer + raw_recv
     (single-buffer discipline)                                       = C09-G1
"""
from __future__ import annotations

from ..engine import Engine
from ..report import Report
from . import c09


def run(e: Engine, rep: Report):
    rep.rule('R5.1', 'None-or-index attribute (DataReader.EOD) is tested by '
             'identity only; lines are rewritten / EOD is set only while '
             'EOD is None')
    rep.rule('R5.3', 'DataReader.recv = from_recv_buffer (takes all, '
             'clears) ... return_all (lines[:EOD] returned, lines[EOD+1:] '
             'restored to io.recv_buffer)')
    rep.rule('R5.4', 'bytes reach the reader only through io.recv_buffer '
             'and IO.raw_recv')
    rep.not_decided += [
        'the bijection between DataSender._process_part (dot stuffing, end '
        'marker choice) and the reader dot removal: a value-level fact '
        'about byte strings over all segmentations - not decided by this '
        'family', 'regular-expression semantics of eod_pattern / '
        'fullline_pattern']
    c09.g4(e, rep, 'R5.1')
    c09.g3(e, rep, 'R5.3')
    c09.g1(e, rep, 'R5.4')
    rep.floor('R5.1', 4, 'sentinel tests and rewrite sites')
    rep.floor('R5.3', 5, 'hand-over obligations')
