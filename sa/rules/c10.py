"""C10 - the pipelining client pairs every reply with its command.

The association is carried by one FIFO (Client.reply_queue); pairing holds iff
the FIFO discipline holds.

F1 ownership of reply_queue: append(<fresh Reply>) in command methods,
   pop(0) in _flush_pipeline, nothing else
F2 one owed reply per wire command on every path of every command method
F3 flush discipline: non-pipelinable commands flush before returning;
   pipelinable ones flush when PIPELINING is not offered; auth() flushes
   before AuthSession talks to the socket directly
F4 drain order: flush_send, then per iteration pop(0) and exactly one
   reply.recv(io); never a read with an empty queue
F5 LMTP bookkeeping of accepted recipients
"""
from __future__ import annotations

import ast
from typing import List

from ..engine import Engine
from ..report import Report
from ..cfg import Node
from ..facts import path_of, canon, holds, parse_atom
from ..model import walk_own
from ..resolve import Ctx
from .. import dataflow
from . import common, c07

CLIENT = 'slimta.smtp.client.Client'
LMTP = 'slimta.smtp.client.LmtpClient'

NO_WIRE = {'get_banner', 'get_reply'}           # wait for an unsolicited reply
NON_PIPELINED = {'custom_command', 'ehlo', 'helo', 'lhlo', 'get_banner',
                 'get_reply'}
PIPELINED = {'mailfrom', 'rcptto', 'send_data', 'send_empty_data'}
LMTP_DATA = {'send_data', 'send_empty_data'}


def is_append(e: Engine, n: Node) -> bool:
    return n.kind == 'call' and e.call_name(n) == 'append' and \
        canon(n.ast.func.value, n.frame).endswith('.reply_queue')


def is_wire(e: Engine, n: Node) -> bool:
    if n.kind != 'call':
        return False
    nm = e.call_name(n)
    if nm == 'send_command':
        return True
    if nm == 'send' and 'slimta.smtp.datasender.DataSender.send' in \
            e.targets(n):
        return True
    return False


def is_flush(e: Engine, n: Node) -> bool:
    return n.kind in ('call', 'call_enter') and \
        e.call_name(n) == '_flush_pipeline'


def run(e: Engine, rep: Report):
    rep.rule('F1', 'reply_queue is touched only by append(fresh Reply) in '
             'Client/LmtpClient command methods and pop(0) in '
             '_flush_pipeline')
    rep.rule('F2', 'appends minus wire commands is 0 on every normal path '
             '(1 for get_banner/get_reply; LMTP data: one append per '
             'accepted recipient, one transmission)')
    rep.rule('F16', 'a command method is one command: on no path does a '
             'method of Client / LmtpClient (other than the multi-step '
             'auth) put a second command on the wire - the caller gets one '
             'Reply per call, so a built-in fallback (EHLO refused: HELO) '
             'hands back the wrong command\'s answer under the first '
             'command\'s name and shifts the pairing')
    rep.rule('F3', 'flush discipline of non-pipelinable and pipelinable '
             'commands and of auth()')
    rep.rule('F4', '_flush_pipeline: flush_send, then {pop(0); one '
             'reply.recv(io)} until IndexError')
    rep.rule('F5', 'LmtpClient.rcpttos: appended per RCPT, cleared by '
             'send_data / send_empty_data / rset and by lhlo under 250')
    rep.rule('F6', 'IO.recv_reply consumes every line it records: each '
             'message_lines.append is followed by the consumption of that '
             'line before the buffer is refilled and rescanned')
    rep.rule('F7', 'one server reply per Reply object: Reply.recv calls '
             'io.recv_reply exactly once; recv_reply removes bytes from '
             'the buffer only after a whole line (pattern ending in LF on '
             'every alternative) matched')
    rep.not_decided += ['byte-level reply round trip (C17)',
                        'what the server actually answers']
    f1(e, rep)
    f2_f3(e, rep)
    f4(e, rep)
    f5(e, rep)
    f6(e, rep)
    f7(e, rep)
    rep.rule('F8', 'the FIFO of owed replies belongs to one session: no '
             'class-level mutable object of the client classes is changed '
             'in place through self without __init__ giving each instance '
             'its own')
    common.shared_state_rule(
        e, rep, 'F8', ['slimta.smtp.client', 'slimta.smtp.lmtpclient'],
        'two sessions that are open at the same time (pool clients) queue '
        'their owed replies in one list, and a flush in one reads the '
        'other\'s replies from the wrong socket')
    rep.rule('F9', '= C09-G8: no raise in the receive path of IO is '
             'conditioned on how much is buffered (a burst of short '
             'pipelined replies is a large buffer without a long line)')
    from . import c09 as _c09
    _c09.g8(e, rep, 'F9')
    rep.rule('F10', 'a search of the receive buffer that is resumed where '
             'the last one stopped (start = the old length) looks for a '
             'one-byte needle, or steps back by the needle length - 1: a '
             'CR LF cut between two reads is still found, the reader does '
             'not wait for bytes the server has no reason to send')
    f10(e, rep)
    rep.rule('F11', 'one read per refill: every call of IO.buffered_recv '
             'does exactly one raw_recv (a refill that goes on reading '
             '"while the last read was full" reads past the last reply the '
             'client is owed when that reply ends on a full read - and '
             'blocks)')
    f11(e, rep)
    rep.rule('F12', 'who-may-reset the LMTP recipient list: '
             'LmtpClient.rcpttos is emptied only where the server\'s '
             'transaction is over by protocol (table RCPTTOS_RESETTERS: '
             'constructor, accepted LHLO, RSET, end of data) - a reset on '
             'MAIL forgets recipients the server still holds when it '
             'refuses that MAIL, and their end-of-data replies are '
             'mis-paired')
    rep.tables.add('c10.RCPTTOS_RESETTERS')
    f12(e, rep)
    rep.rule('F13', 'every code the reply parser takes off the wire is one '
             'Reply.code accepts: position by position the code group of '
             'reply_line_pattern lies inside code_pattern (a reply that was '
             'consumed and then refused by the setter is lost: its Reply '
             'stays empty, the ValueError comes out of whichever method '
             'happened to flush)')
    f13(e, rep)
    rep.rule('F14', 'a reply that has been handed out leaves nothing '
             'behind: any attribute of IO that recv_reply fills while it '
             'assembles a reply (other than recv_buffer) is back to an '
             'empty constant on every normal return - left-overs of a '
             'finished reply are taken for the beginning of the next one')
    f14(e, rep)
    from . import c17 as _c17
    common.reuse(e, rep, _c17.w12, 'F15',
                 '= C17-W12: a reply is refused on whole lines only (a '
                 'verdict on a fragment pops the Reply and leaves the rest '
                 'of the reply to be taken for the next command\'s answer)',
                 only={'W12'})
    rep.floor('F2', 14, 'command methods')


def f1(e: Engine, rep: Report):
    for f in e.p.functions.values():
        if not f.module.name.startswith('slimta.'):
            continue
        for n in walk_own(f.node):
            if not (isinstance(n, ast.Attribute) and
                    n.attr == 'reply_queue'):
                continue
            rep.evaluations += 1
            in_client = f.cls is not None and f.cls.qname in (CLIENT, LMTP)
            if not in_client:
                rep.bad('F1', f.qname, 'use of reply_queue',
                        'the owed-reply FIFO is accessed from %s, outside '
                        'the client' % f.qname, loc=f.loc(n))
    for cq in (CLIENT, LMTP):
        c = e.p.cls(cq)
        drainers = common.owner_closure(e, cq, {'_flush_pipeline'})
        for mname, m in sorted(c.methods.items()):
            parents = {}
            for x in ast.walk(m.node):
                for ch in ast.iter_child_nodes(x):
                    parents[id(ch)] = x
            for n in walk_own(m.node):
                if not (isinstance(n, ast.Attribute) and
                        n.attr == 'reply_queue'):
                    continue
                par = parents.get(id(n))
                gp = parents.get(id(par)) if par is not None else None
                rep.evaluations += 1
                if isinstance(par, ast.Assign) or (
                        isinstance(n.ctx, ast.Store)):
                    rep.check(mname == '__init__', 'F1', m.qname,
                              'assignment of reply_queue',
                              'the FIFO is replaced outside __init__: owed '
                              'replies are forgotten', loc=m.loc(n),
                              reason='initialisation only')
                    continue
                if isinstance(par, ast.Attribute) and \
                        isinstance(gp, ast.Call) and gp.func is par:
                    op = par.attr
                    if op == 'append':
                        a = gp.args[0] if gp.args else None
                        fresh = False
                        if isinstance(a, ast.Name):
                            defs = [s for s in walk_own(m.node)
                                    if isinstance(s, ast.Assign) and any(
                                        isinstance(t, ast.Name) and
                                        t.id == a.id for t in s.targets)]
                            fresh = bool(defs) and all(
                                isinstance(s.value, ast.Call) and
                                ast.unparse(s.value.func) == 'Reply'
                                for s in defs)
                        elif isinstance(a, ast.Call):
                            fresh = ast.unparse(a.func) == 'Reply'
                        rep.check(fresh and mname not in drainers,
                                  'F1', m.qname, 'append of a fresh Reply',
                                  'something other than a newly created '
                                  'Reply is queued (a shared / reused '
                                  'object would be filled twice)',
                                  loc=m.loc(n), reason='Reply(...) created '
                                  'in this method')
                    elif op == 'pop':
                        ok = mname in drainers and gp.args and \
                            isinstance(gp.args[0], ast.Constant) and \
                            gp.args[0].value == 0
                        rep.check(ok, 'F1', m.qname, 'pop(0) in the drain '
                                  'loop only', 'the FIFO is popped '
                                  'elsewhere or not from the front: replies '
                                  'are paired with the wrong commands',
                                  loc=m.loc(n), reason='FIFO order')
                    else:
                        rep.bad('F1', m.qname, 'reply_queue.%s' % op,
                                'unexpected operation on the owed-reply '
                                'FIFO', loc=m.loc(n))
                elif isinstance(par, (ast.UnaryOp, ast.If, ast.While,
                                      ast.BoolOp, ast.Compare, ast.IfExp)) \
                        or (isinstance(par, ast.Call) and
                            ast.unparse(par.func) in ('len', 'bool')):
                    rep.ok('F1', m.qname, 'emptiness test of reply_queue',
                           reason='read-only use', loc=m.loc(n))
                else:
                    rep.bad('F1', m.qname, 'reply_queue escapes',
                            'the FIFO object is handed out / used in an '
                            'unexpected way', loc=m.loc(n))


def command_methods(e: Engine, cq: str) -> List[str]:
    out = []
    seen = set()
    for k in e.p.mro(cq):
        c = e.p.classes.get(k)
        if c is None:
            continue
        for mname, m in c.methods.items():
            if mname in seen or mname.startswith('_') or m.kind != 'method':
                continue
            seen.add(mname)
            out.append(mname)
    return sorted(out)


def f2_f3(e: Engine, rep: Report):
    for cq in (CLIENT, LMTP):
        short = cq.rpartition('.')[2]
        for mname in command_methods(e, cq):
            ctx = e.method_ctx(cq, mname)
            from ..resolve import is_abstract
            if is_abstract(ctx.func):
                continue
            if cq == LMTP and ctx.func.cls.qname == CLIENT and \
                    mname not in ('mailfrom', 'data', 'quit', 'starttls',
                                  'auth', 'custom_command', 'get_banner',
                                  'get_reply'):
                continue
            if cq == LMTP and ctx.func.cls.qname == CLIENT:
                continue          # inherited unchanged: checked for Client
            g = e.build(ctx, inline=e.inline_same_self(
                deny=['_flush_pipeline']), raises=lambda b, n, r: set(),
                max_depth=4)
            where = '%s[%s]' % (ctx.func.qname, short)
            rep.functions.add(ctx.func.qname)
            apps = [n for n in g.nodes if is_append(e, n)]
            wires = [n for n in g.nodes if is_wire(e, n)]
            flushes = [n for n in g.nodes if is_flush(e, n)]
            if not apps and not wires:
                continue
            rep.evaluations += 1
            if cq == LMTP and mname in LMTP_DATA:
                lmtp_data(e, rep, g, where, apps, wires)
            else:
                def step(n, label, st):
                    if n in apps:
                        return min(3, st + 1)
                    if n in wires:
                        return max(-3, st - 1)
                    return st
                IN = dataflow.typestate(g, 0, step)
                st = IN.get(g.exit.id) or frozenset()
                want = 1 if mname in NO_WIRE else 0
                w = None
                if st != frozenset([want]):
                    badv = [x for x in st if x != want]
                    pth = dataflow.typestate_witness(
                        g, 0, step, lambda n, x: n is g.exit and x in badv)
                    w = dataflow.render_path(pth) if pth else None
                rep.check(st == frozenset([want]), 'F2', where,
                          'owed replies match wire commands',
                          'on some path %s queues %s more reply objects '
                          'than it sends commands (expected %d): every '
                          'later reply is paired with the wrong command'
                          % (mname, sorted(st), want), loc=ctx.func.loc(),
                          reason='appends - commands == %d on every path'
                          % want, witness=w)
                # one command per call (F16)
                if mname != 'auth':
                    def wstep(n, label, st):
                        return min(3, st + 1) if n in wires else st
                    WIN = dataflow.typestate(g, 0, wstep)
                    wst = WIN.get(g.exit.id) or frozenset()
                    w2 = None
                    if any(x > 1 for x in wst):
                        pth = dataflow.typestate_witness(
                            g, 0, wstep, lambda n, x: n is g.exit and x > 1)
                        w2 = dataflow.render_path(pth) if pth else None
                    rep.check(not any(x > 1 for x in wst), 'F16', where,
                              'at most one command per call',
                              'on some path %s sends %d commands in one '
                              'call (a fallback, a retry): the Reply it '
                              'returns - still labelled with the first '
                              'command - holds the answer to the last one, '
                              'the server\'s answer to the first is lost, '
                              'and a peer that answers once per call of the '
                              'method is read one reply too far'
                              % (mname, max(wst) if wst else 0),
                              loc=ctx.func.loc(), reason='commands sent on '
                              'any path: %s' % sorted(wst), witness=w2)
                # the Reply is queued before its command goes out
                before = dataflow.must_events_before(
                    g, lambda n: ['app'] if n in apps else [])
                for wn in wires:
                    rep.check('app' in (before.get(wn.id) or ()), 'F2',
                              where, 'reply is queued before the command '
                              'is sent', 'a command is written before its '
                              'Reply object is queued', loc=wn.loc(),
                              reason='append dominates send_command')
            # ---- F3
            after = dataflow.must_events_after(
                g, lambda n: ['flush'] if n in flushes else [],
                edge=c07.no_call_exc)
            if mname in NON_PIPELINED or (cq == CLIENT and mname in (
                    'data', 'rset', 'quit', 'starttls')):
                for n in apps:
                    rep.evaluations += 1
                    st = after.get(n.id)
                    rep.check(isinstance(st, dataflow.Top) or
                              'flush' in (st or ()), 'F3', where,
                              'non-pipelinable command flushes before '
                              'returning', '%s can return without '
                              '_flush_pipeline(): the returned Reply is '
                              'not populated and the reply stays owed'
                              % mname, loc=n.loc(),
                              reason='_flush_pipeline on every path after '
                              'the append')
            if mname in PIPELINED:
                fx = e.facts(g)
                pip = (True, "'PIPELINING' in self.extensions")
                for n in flushes:
                    rep.evaluations += 1
                tests = [t for t in g.of_kind('test')
                         if "'PIPELINING'" in ast.unparse(t.ast)]
                ok = False
                for t in tests:
                    for l, s in t.succ:
                        # the edge on which PIPELINING is NOT offered
                        from ..facts import atoms_of_test
                        at = atoms_of_test(t.ast, l == 'T', t.frame)
                        if (False, pip[1]) in at:
                            st = after.get(s.id)
                            ok = isinstance(st, dataflow.Top) or \
                                'flush' in (st or ())
                rep.check(ok, 'F3', where,
                          'flushes when PIPELINING is not offered',
                          'without PIPELINING %s does not wait for its '
                          'reply: the returned Reply stays empty and '
                          'further commands are sent to a server that does '
                          'not pipeline' % mname, loc=ctx.func.loc(),
                          reason='_flush_pipeline on the not-PIPELINING '
                          'branch')
    # auth(): flush before the SASL exchange reads replies directly
    ctx = e.method_ctx(CLIENT, 'auth')
    g = e.build(ctx, raises=lambda b, n, r: set())
    where = ctx.func.qname
    sasl = [n for n in g.nodes if n.kind == 'call' and
            e.call_name(n) in ('client_attempt', 'AuthSession')]
    before = dataflow.must_events_before(
        g, lambda n: ['flush'] if is_flush(e, n) else [])
    if not sasl:
        rep.error('anchor vanished: AuthSession use in Client.auth')
    for n in sasl:
        rep.evaluations += 1
        rep.check('flush' in (before.get(n.id) or ()), 'F3', where,
                  'pipeline drained before the SASL exchange',
                  'AuthSession reads replies straight from the socket; '
                  'without a prior _flush_pipeline() it would consume '
                  'replies owed to earlier pipelined commands',
                  loc=n.loc(), reason='_flush_pipeline dominates')


def lmtp_data(e, rep, g, where, apps, wires):
    fx = e.facts(g)
    cw = dataflow.count_events(g, lambda n: 1 if n in wires else 0).get(
        g.exit.id)
    rep.check(cw == frozenset([1]), 'F2', where,
              'exactly one data transmission',
              'the LMTP data method sends the content %s times'
              % sorted(cw or []), reason='one DataSender.send / "."',
              loc=g.entry.loc())
    # (a `for` statement, or the comprehension that builds the pairs)
    loops = [n for n in g.of_kind('iter')
             if isinstance(n.ast, (ast.For, ast.comprehension)) and
             canon(n.ast.iter, n.frame) == 'self.rcpttos']
    rep.check(bool(loops) and bool(apps), 'F2', where,
              'one owed reply per recorded recipient',
              'the LMTP data method no longer queues one reply per '
              'recipient', reason='loop over self.rcpttos',
              loc=g.entry.loc())
    for a in apps:
        st = fx.at(a) or frozenset()
        ok = any(p and k.endswith(".code.startswith('2')") for p, k in st)
        inloop = any(sc.kind == 'loop' and loops and sc.ast is loops[0].ast
                     for sc in a.scopes)
        rep.check(ok and inloop, 'F2', where,
                  'a data reply is owed only for an accepted recipient',
                  'a reply is queued for a recipient whose RCPT was not '
                  'accepted (the server sends none): every later reply is '
                  'shifted by one', loc=a.loc(),
                  reason="inside the loop, dominated by "
                  "code.startswith('2')")
        # the pairing list gets the same object
    for lp in loops:
        counts = common.per_iteration_counts(
            g, lp, lambda n: 1 if n in apps else 0)
        if isinstance(lp.ast, ast.comprehension):
            # one pair per element the comprehension produces
            rets = common.per_iteration_counts(
                g, lp, lambda n: 1 if n.kind == 'nop' and
                n.extra.get('comp_elt') is not None and any(
                    c is lp.ast for c in n.extra['comp_elt'].generators)
                else 0)
        else:
            rets = common.per_iteration_counts(
                g, lp, lambda n: 1 if n.kind == 'call' and
                e.call_name(n) == 'append' and n not in apps else 0)
        rep.check(counts <= frozenset([0, 1]) and counts == rets, 'F2',
                  where, 'queued replies and returned pairs agree',
                  'per recipient the method queues %s replies but returns '
                  '%s (address, reply) pairs' % (sorted(counts),
                                                 sorted(rets)),
                  loc=lp.loc(), reason='one pair per queued reply')
    before = dataflow.must_events_before(
        g, lambda n: ['app_loop_done'] if n in loops else [])
    for w in wires:
        rep.check(not any(sc.kind == 'loop' for sc in w.scopes), 'F2',
                  where, 'content is sent once, after the bookkeeping',
                  'the content is transmitted inside the recipient loop',
                  loc=w.loc(), reason='outside the loop')


def f4(e: Engine, rep: Report):
    ctx = e.method_ctx(CLIENT, '_flush_pipeline')
    g = e.build(ctx, inline=e.inline_same_self(), max_depth=3)
    where = ctx.func.qname
    rep.functions.add(where)
    pops = [n for n in g.nodes if n.kind == 'call' and
            e.call_name(n) == 'pop' and
            canon(n.ast.func.value, n.frame) == 'self.reply_queue']
    fl = [n for n in g.nodes if n.kind == 'call' and
          e.call_name(n) == 'flush_send']
    recvs = [n for n in g.nodes if n.kind == 'call' and
             e.call_name(n) == 'recv']
    if not pops or not recvs:
        rep.error('anchor vanished: pop / recv in _flush_pipeline')
        return
    before = dataflow.must_events_before(
        g, lambda n: ['flush'] if n in fl else (['pop'] if n in pops
                                                else []),
        kill=lambda n: ['pop'] if n in recvs else [])
    for n in pops:
        rep.evaluations += 1
        rep.check('flush' in (before.get(n.id) or ()), 'F4', where,
                  'buffered commands are written before replies are read',
                  'replies are awaited before the buffered commands were '
                  'flushed to the socket: the client blocks',
                  loc=n.loc(), reason='flush_send dominates the drain loop')
    popvars = set()
    for s in g.of_kind('stmt'):
        if isinstance(s.ast, ast.Assign) and \
                isinstance(s.ast.targets[0], ast.Name) and any(
                    v is pops[0].ast or any(v is p.ast for p in pops)
                    for v, _ in common.values_of(g, s.ast.value, s.frame)):
            popvars.add(path_of(s.ast.targets[0], s.frame))
    nul = common.Nullness(g)

    def pstep(n, label, st):
        popped, ns = st
        ns2 = nul.step(n, label, ns)
        if ns2 == 'infeasible':
            return None
        if isinstance(label, tuple):
            return (popped, ns2)
        if n in pops:
            popped = True
        if n in recvs:
            popped = False
        return (popped, ns2)
    for n in recvs:
        rep.evaluations += 1
        same = path_of(n.ast.func.value, n.frame) in popvars
        pth = dataflow.typestate_witness(
            g, (False, frozenset()), pstep,
            lambda x, st: x is n and not st[0])
        rep.check(pth is None and same, 'F4', where,
                  'exactly one read per popped reply',
                  'a reply is read without a freshly popped Reply object '
                  '(reads past what is owed, or fills the wrong object)',
                  loc=n.loc(), reason='pop(0) since the previous recv; '
                  'recv on the popped object')
    # an empty queue ends the drain
    hs = [h for h in g.of_kind('handler')
          if 'builtins.IndexError' in h.extra.get('types', [])]
    rep.evaluations += 1
    ok = False
    for h in hs:
        pth = dataflow.find_path(
            g, h, lambda x: x in recvs or x in pops,
            edge_ok=lambda a, l, s: not isinstance(l, tuple))
        ok = pth is None
    if not hs:
        # written as a test instead: the pop is reached only where the queue
        # was found non-empty, and the empty case leads to no further read
        fx = e.facts(g)
        guarded = all(any(
            (p and k == 'self.reply_queue') or
            (p and k.startswith('0 < len(self.reply_queue)'))
            for p, k in (fx.at(pp) or ())) for pp in pops)

        def estep(n, label, st):
            popped, ns = st
            ns2 = nul.step(n, label, ns)
            if ns2 == 'infeasible':
                return None
            return (popped, ns2)
        # from a `return None` of the emptiness arm no recv is reachable
        # under nullness pruning
        empties = [r for r in g.of_kind('stmt')
                   if isinstance(r.ast, ast.Return) and
                   r.frame is not g.entry.frame and (
                       r.ast.value is None or (
                           isinstance(r.ast.value, ast.Constant) and
                           r.ast.value.value is None))]
        leak = None
        for r in empties:
            leak = leak or dataflow.typestate_witness(
                g, (False, frozenset()), estep,
                lambda x, st: x in recvs, start=r)
        ok = guarded and leak is None
    rep.check(ok, 'F4', where, 'an empty queue ends the drain',
              'after the FIFO is empty the loop keeps reading from the '
              'socket: the client reads past the last reply it is owed '
              'and blocks', reason='IndexError arm leaves the loop',
              loc=ctx.func.loc())


def f5(e: Engine, rep: Report):
    c = e.p.cls(LMTP)
    # appended in rcptto with the reply that was queued
    ctx = e.method_ctx(LMTP, 'rcptto')
    g = e.build(ctx, raises=lambda b, n, r: set())
    where = ctx.func.qname
    rep.functions.add(where)
    adds = [n for n in g.nodes if n.kind == 'call' and
            e.call_name(n) == 'append' and
            canon(n.ast.func.value, n.frame) == 'self.rcpttos']
    cnt = dataflow.count_events(g, lambda n: 1 if n in adds else 0).get(
        g.exit.id)
    rep.evaluations += 1
    rep.check(cnt == frozenset([1]), 'F5', where,
              'every RCPT is recorded once, in call order',
              'rcptto records the recipient %s times: the per-recipient '
              'data replies are paired with the wrong recipients'
              % sorted(cnt or []), reason='one append per call',
              loc=ctx.func.loc())
    for meth, code in (('send_data', None), ('send_empty_data', None),
                       ('rset', None), ('lhlo', '250')):
        ctx = e.method_ctx(LMTP, meth)
        g = e.build(ctx, raises=lambda b, n, r: set(),
                    inline=e.inline_same_self(deny=['_flush_pipeline']),
                    max_depth=3)
        where = ctx.func.qname
        rep.functions.add(where)
        clears = [n for n in g.of_kind('stmt')
                  if isinstance(n.ast, ast.Assign) and
                  any(path_of(t, n.frame) == 'self.rcpttos'
                      for t in n.ast.targets) and
                  isinstance(n.ast.value, (ast.List,)) and
                  not n.ast.value.elts]
        rep.evaluations += 1
        if code is None:
            st = dataflow.must_events_after(
                g, lambda n: ['clear'] if n in clears else [],
                edge=c07.no_call_exc).get(g.entry.id)
            ok = isinstance(st, dataflow.Top) or 'clear' in (st or ())
        else:
            fx = e.facts(g)
            ok = bool(clears) and all(
                any(p and k.endswith(".code == '%s'" % code)
                    for p, k in (fx.at(n) or ())) for n in clears)
        rep.check(ok, 'F5', where, 'accepted-recipient list is reset',
                  '%s leaves recipients of an earlier transaction in '
                  'rcpttos: the next message expects data replies for '
                  'them and pairs replies with the wrong recipients'
                  % meth, reason='self.rcpttos = [] on every path'
                  if code is None else 'reset under %s' % code,
                  loc=ctx.func.loc())

    # who may write the bookkeeping list: entries are added by rcptto's one
    # append and removed only by emptying the list (`= []`) - the server
    # sends one end-of-data reply per accepted RCPT *command*, so no entry
    # may be dropped, merged or reordered in between
    nw = 0
    for mname, m in sorted(c.methods.items()):
        for x in walk_own(m.node):
            what = None
            if isinstance(x, (ast.Assign, ast.AugAssign)):
                tg = x.targets if isinstance(x, ast.Assign) else [x.target]
                if any(ast.unparse(t) == 'self.rcpttos' for t in tg):
                    v = x.value
                    if not (isinstance(x, ast.Assign) and
                            isinstance(v, ast.List) and not v.elts):
                        what = '`%s`' % ' '.join(ast.unparse(x).split())[:60]
                    nw += 1
            elif isinstance(x, ast.Delete) and any(
                    'self.rcpttos' in ast.unparse(t) for t in x.targets):
                what = '`%s`' % ast.unparse(x)
            elif isinstance(x, ast.Call) and \
                    isinstance(x.func, ast.Attribute) and \
                    ast.unparse(x.func.value) == 'self.rcpttos' and \
                    x.func.attr in ('pop', 'remove', 'insert', 'sort',
                                    'reverse', 'clear', 'extend'):
                what = 'self.rcpttos.%s(...)' % x.func.attr
                if x.func.attr == 'clear':
                    what = None
            if what is None:
                continue
            rep.evaluations += 1
            rep.bad('F5', m.qname, 'bookkeeping list rewritten by %s' % what,
                    'the list of RCPT commands awaiting their end-of-data '
                    'reply is rewritten by %s: the LMTP server answers once '
                    'per accepted RCPT command, so with an entry dropped, '
                    'merged or moved the replies are paired with the wrong '
                    'recipients and a left-over reply is taken for the '
                    'answer to the next command' % what, loc=m.loc(x))
    if nw < 2:
        rep.error('anchor vanished: resets of LmtpClient.rcpttos (%d < 2)'
                  % nw)


def f6(e: Engine, rep: Report):
    ctx = e.method_ctx('slimta.smtp.io.IO', 'recv_reply')
    g = e.build(ctx, raises=lambda b, n, r: set(),
                inline=e.inline_same_self(deny=['buffered_recv',
                                                'raw_recv']), max_depth=3)
    where = ctx.func.qname
    rep.functions.add(where)
    recs = [n for n in g.nodes if n.kind == 'call' and
            e.call_name(n) == 'append' and 'line' in
            ast.unparse(n.ast.func.value)]
    cons = [n for n in g.of_kind('stmt') if isinstance(n.ast, ast.Assign)
            and any(path_of(t, n.frame) == 'self.recv_buffer'
                    for t in n.ast.targets)]
    refill = [n for n in g.calls() if e.call_name(n) == 'buffered_recv']
    if not recs or not cons or not refill:
        rep.error('anchor vanished: record / consume / refill sites in '
                  'recv_reply')
        return
    for r in recs:
        rep.evaluations += 1

        def step(n, label, st, r=r):
            if n is r:
                return 'recorded'
            if st == 'recorded' and n in cons:
                return 'consumed'
            return st
        pth = dataflow.typestate_witness(
            g, 'pre', step,
            lambda n, st: st == 'recorded' and (n in refill or n is g.exit),
            start=r)
        rep.check(pth is None, 'F6', where,
                  'recorded line `%s` is consumed before a refill / return'
                  % r.text(40),
                  'a reply line is recorded in message_lines but left in '
                  'recv_buffer; after the next read the buffer is scanned '
                  'again from the start and the line is recorded twice '
                  '(multi-line replies split across reads come back with '
                  'duplicated text / the next reply is mis-paired)',
                  loc=r.loc(), reason='recv_buffer advanced past the line',
                  witness=dataflow.render_path(pth) if pth else None)


def f7(e: Engine, rep: Report):
    from . import c09
    c09.g2(e, rep, 'F7', meths=('recv_reply',))
    ctx = e.method_ctx('slimta.smtp.reply.Reply', 'recv')
    g = e.build(ctx, raises=lambda b, n, r: set())
    where = ctx.func.qname
    rep.functions.add(where)
    calls = [n for n in g.calls() if e.call_name(n) == 'recv_reply']
    rep.evaluations += 1
    if not calls:
        rep.error('anchor vanished: io.recv_reply in Reply.recv')
        return
    counts = dataflow.count_events(
        g, lambda n: 1 if n in calls else 0, cap=3)
    st = counts.get(g.exit.id)
    rep.check(st == frozenset([1]), 'F7', where,
              'Reply.recv reads exactly one reply',
              'Reply.recv can read %s replies from the connection: a reply '
              'object that consumes a second server reply takes the one '
              'owed to the next command (every later reply is paired with '
              'the wrong command, and the client reads past the last reply '
              'it is owed)' % (sorted(st) if st else 'no'),
              loc=calls[0].loc(), reason='one io.recv_reply() on every path')


# --------------------------------------------------------------------- F10
def f10(e: Engine, rep: Report):
    n = 0
    for f in e.p.functions.values():
        if f.module.name != 'slimta.smtp.io':
            continue
        lens = {}
        for a in walk_own(f.node):
            if isinstance(a, ast.Assign) and len(a.targets) == 1 and \
                    isinstance(a.targets[0], ast.Name) and \
                    isinstance(a.value, ast.Call) and \
                    isinstance(a.value.func, ast.Name) and \
                    a.value.func.id == 'len' and a.value.args:
                lens[a.targets[0].id] = a.value.args[0]
        for c in walk_own(f.node):
            if not (isinstance(c, ast.Call) and
                    isinstance(c.func, ast.Attribute) and
                    c.func.attr in ('find', 'index') and len(c.args) >= 2
                    and isinstance(c.args[0], ast.Constant) and
                    isinstance(c.args[0].value, (bytes, str))):
                continue
            needle, start = c.args[0].value, c.args[1]
            n += 1
            rep.evaluations += 1
            rep.functions.add(f.qname)
            resumed = isinstance(start, ast.Name) and start.id in lens and \
                ast.unparse(lens[start.id]) == ast.unparse(c.func.value)
            rep.check(not (resumed and len(needle) > 1), 'F10', f.qname,
                      'resumed search `%s`' % ' '.join(
                          ast.unparse(c).split())[:50],
                      'the search for %r starts at `%s`, the length the '
                      'buffer had before the last read: when the read '
                      'boundary falls inside the %d-byte needle it is never '
                      'found, and the reader waits for more although the '
                      'reply is complete' % (
                          needle, ast.unparse(start), len(needle)),
                      loc=f.loc(c), reason='one-byte needle or search from '
                      'a position that covers a cut needle')
    if n == 0:
        rep.ok('F10', 'slimta.smtp.io', 'no resumed searches of the buffer',
               reason='every search starts at the head of the buffer',
               nontrivial=False)


# --------------------------------------------------------------------- F11
def f11(e: Engine, rep: Report):
    ctx = e.method_ctx('slimta.smtp.io.IO', 'buffered_recv')
    g = e.build(ctx, raises=lambda b, n, r: set(),
                inline=e.inline_same_self(deny=['raw_recv']), max_depth=2)
    where = ctx.func.qname
    rep.functions.add(where)
    calls = [n for n in g.calls() if e.call_name(n) == 'raw_recv']
    rep.evaluations += 1
    if not calls:
        rep.unknown('F11', where, 'one raw_recv per refill',
                    'no raw_recv call in buffered_recv', loc=ctx.func.loc())
        return
    counts = dataflow.count_events(g, lambda n: 1 if n in calls else 0,
                                   cap=3)
    st = counts.get(g.exit.id)
    rep.check(st == frozenset([1]), 'F11', where,
              'one raw_recv per refill',
              'buffered_recv can do %s socket reads per call: a second '
              'read is issued although the first one may already hold '
              'everything the peer sent - the client waits for bytes the '
              'server has no reason to send' % sorted(st or ()),
              loc=calls[0].loc(), reason='exactly one on every path')


# --------------------------------------------------------------------- F12
RCPTTOS_RESETTERS = {'__init__', 'lhlo', 'rset', 'send_data',
                     'send_empty_data'}


def f12(e: Engine, rep: Report):
    cq = 'slimta.smtp.client.LmtpClient'
    c = e.p.classes.get(cq)
    if c is None:
        rep.error('anchor vanished: ' + cq)
        return
    owners = common.owner_closure(e, cq, RCPTTOS_RESETTERS)
    n = 0
    for mname, m in sorted(c.methods.items()):
        for x in walk_own(m.node):
            hit = None
            if isinstance(x, ast.Assign) and any(
                    isinstance(t, ast.Attribute) and t.attr == 'rcpttos' and
                    isinstance(t.value, ast.Name) and t.value.id == 'self'
                    for t in x.targets):
                hit = x
            elif isinstance(x, ast.Call) and \
                    isinstance(x.func, ast.Attribute) and \
                    x.func.attr in ('clear', 'pop') and \
                    ast.unparse(x.func.value) == 'self.rcpttos':
                hit = x
            if hit is None:
                continue
            n += 1
            rep.evaluations += 1
            rep.functions.add(m.qname)
            rep.check(mname in owners, 'F12', m.qname,
                      'reset of self.rcpttos',
                      '%s empties the list of recipients whose end-of-data '
                      'replies are owed, outside %s: the server answers one '
                      'reply per recipient IT accepted, so after this reset '
                      'the replies are paired with the wrong recipients and '
                      'the surplus ones stay unread for the next command'
                      % (mname, sorted(RCPTTOS_RESETTERS)), loc=m.loc(hit),
                      reason='enumerated resetter')
    if n < 4:
        rep.error('anchor vanished: resets of LmtpClient.rcpttos (%d < 4)'
                  % n)


# --------------------------------------------------------------------- F13
def f13(e: Engine, rep: Report):
    from .. import regexast as rx
    pat = rx.module_pattern(e, 'slimta.smtp.io', 'reply_line_pattern')
    cp = rx.module_pattern(e, 'slimta.smtp.reply', 'code_pattern')
    if pat is None or cp is None:
        rep.error('anchor vanished: reply_line_pattern / code_pattern')
        return
    items = list(rx.parse(pat[0], pat[1]))
    cw = rx.fixed_charsets(list(rx.parse(cp[0], cp[1])), cp[1])
    digits = set(range(48, 58))
    code_cs = None
    for k in range(1, 10):
        gi = rx.find_group(items, k)
        if not gi:
            continue
        cs = rx.fixed_charsets(gi, pat[1])
        if cs and len(cs) == 3 and all(c and c <= digits for c in cs):
            code_cs = cs
            break
    rep.evaluations += 1
    mod = e.p.modules['slimta.smtp.reply']
    if code_cs is None or cw is None or len(cw) != 3:
        rep.unknown('F13', 'slimta.smtp.reply.code_pattern',
                    'parsed codes are valid codes',
                    'cannot read the code group of reply_line_pattern / the '
                    'shape of code_pattern',
                    loc='%s:%d' % (mod.relpath, cp[2].lineno))
        return

    def show(cs):
        return ''.join(chr(c) for c in sorted(cs))
    bad = [i for i in range(3) if not code_cs[i] <= cw[i]]
    rep.check(not bad, 'F13', 'slimta.smtp.reply.code_pattern',
              'parsed codes are valid codes',
              'reply_line_pattern takes codes off the wire whose digit %s '
              'may be one of `%s`, but Reply.code accepts only `%s` there: '
              'such a reply is consumed (and its Reply popped from the '
              'queue) and then refused with ValueError - the command it '
              'answers never gets its reply' % (
                  ', '.join(str(i + 1) for i in bad),
                  show(code_cs[bad[0]]) if bad else '',
                  show(cw[bad[0]]) if bad else ''),
              loc='%s:%d' % (mod.relpath, cp[2].lineno),
              reason='code group within code_pattern at every position')


# --------------------------------------------------------------------- F14
def f14(e: Engine, rep: Report):
    ctx = e.method_ctx('slimta.smtp.io.IO', 'recv_reply')
    g = e.build(ctx, raises=lambda b, n, r: set(),
                inline=e.inline_same_self(deny=['buffered_recv',
                                                'raw_recv']), max_depth=3)
    where = ctx.func.qname
    rep.functions.add(where)

    def empty(v):
        return (isinstance(v, ast.Constant) and not v.value) or (
            isinstance(v, (ast.List, ast.Tuple, ast.Dict, ast.Set)) and
            not (getattr(v, 'elts', None) or getattr(v, 'keys', None))) or (
            isinstance(v, ast.Call) and not v.args and not v.keywords and
            isinstance(v.func, ast.Name) and v.func.id in (
                'list', 'dict', 'set', 'deque', 'bytearray', 'tuple'))
    writes = {}
    for n in g.of_kind('stmt'):
        if not isinstance(n.ast, (ast.Assign, ast.AugAssign)):
            continue
        tg = n.ast.targets if isinstance(n.ast, ast.Assign) \
            else [n.ast.target]
        for t in tg:
            for el in (t.elts if isinstance(t, (ast.Tuple, ast.List))
                       else [t]):
                q = path_of(el, n.frame) or ''
                if q.startswith('self.') and q.count('.') == 1 and \
                        q not in ('self.recv_buffer', 'self.socket'):
                    writes.setdefault(q, []).append(n)
    rets = [n for n in g.of_kind('stmt') if isinstance(n.ast, ast.Return)
            and n.frame is g.entry.frame]
    rep.evaluations += 1
    if not writes:
        rep.ok('F14', where, 'recv_reply keeps nothing but recv_buffer',
               reason='no other attribute of IO is written while a reply is '
               'assembled', nontrivial=False)
        return
    for q, ws in sorted(writes.items()):
        def step(n, label, st, ws=ws, q=q):
            if n in ws and not isinstance(label, tuple):
                if isinstance(n.ast, ast.Assign) and empty(n.ast.value) and \
                        len(n.ast.targets) == 1 and \
                        path_of(n.ast.targets[0], n.frame) == q:
                    return 'clean'
                return 'dirty'
            return st
        for r in rets:
            rep.evaluations += 1
            w = dataflow.typestate_witness(
                g, 'clean', step, lambda n, st, r=r: n is r and st == 'dirty')
            rep.check(w is None, 'F14', where,
                      '`%s` is empty again when the reply is handed out'
                      % q.replace('self.', 'IO.'),
                      'recv_reply can return a finished reply while %s '
                      'still holds what it collected for it: the next call '
                      'starts from those left-overs - with another code it '
                      'raises BadReply, with the same code the lines of the '
                      'finished reply turn up again in the next one'
                      % q.replace('self.', 'IO.'), loc=r.loc(),
                      reason='reset on every path to the return',
                      witness=dataflow.render_path(w, 14) if w else None)
