"""C12 - a queued message is attempted when due, never early, never
forgotten.

Q1 flush() does not wait on the scheduler: the lock flush() takes is never
   held across a blocking wait
Q2 the timetable (self.queued) and its id set (self.queued_ids) are updated
   together by every writer
Q3 announcements (load, wait, retry) go through the de-duplicating insert,
   which wakes the scheduler
Q4 re-queue order: set_timestamp, then un-mark active, then insert
Q5 nothing leaves the timetable without a dispatch
Q6 never early: dispatch is dominated by `now >= timestamp`; the scan stops
   at the first entry that is not due; the scheduler sleeps at most until
   the first due time
"""
from __future__ import annotations

import ast
from typing import List

from ..engine import Engine
from ..report import Report
from ..cfg import Node
from ..facts import path_of, canon, holds, parse_atom, atoms_of_test
from ..model import walk_own
from ..resolve import Ctx
from .. import dataflow
from . import common, c07

QUEUE = 'slimta.queue.Queue'
BLOCKING_NAMES = {'wait', 'sleep', 'get', 'join', 'acquire'}


def run(e: Engine, rep: Report):
    rep.rule('Q1', 'between queued_lock.acquire() and its release in the '
             'scheduler loop no call can block indefinitely (Event.wait, '
             'sleep, AsyncResult.get, join)')
    rep.rule('Q2', 'every write of self.queued is followed, before the '
             'function returns or yields, by the matching write of '
             'self.queued_ids')
    rep.rule('Q3', '_load_all / _wait_store / _retry_later announce through '
             '_add_queued; every inserting path of _add_queued sets wake')
    rep.rule('Q4', 'in _retry_later: set_timestamp before '
             'active_ids.discard before _add_queued')
    rep.rule('Q5', 'entries dropped from the timetable are exactly those a '
             '_dequeue was spawned for')
    rep.rule('Q7', 'the scan over the shared timetable contains no call '
             'that can switch greenlets')
    rep.rule('Q6', 'dispatch only under now >= timestamp, scan stops at the '
             'first entry not due, bounded sleep until the first due time; '
             'the due predicate and the sleep predicate leave no gap')
    rep.rule('Q9', 'pool-order graph of the queue (holder of a slot of P '
             'waits for a slot of Q) has no cycle; _pool_spawn hands the '
             'waiting to a helper greenlet when its caller holds a slot')
    rep.rule('Q8', 'in _retry_later every continuation of '
             'store.set_recipients_delivered, exceptional ones included, '
             'reaches _add_queued')
    rep.not_decided += ['real clock behaviour', 'fairness of gevent',
                        'interleavings as executions']
    q1(e, rep)
    q2(e, rep)
    q3(e, rep)
    q4(e, rep)
    q5(e, rep)
    q6(e, rep)
    q8(e, rep)
    from . import poolorder
    poolorder.run(e, rep, 'Q9')
    from . import c03
    rep.rule('Q10', '= C03-R3.1: in-flight test-and-set with no yield point '
             'in between (an id is dispatched once per announcement, not '
             'once per dispatcher)')
    sub = Report(rep.prop, rep.tier, rep.repo)
    c03.r31(e, sub)
    for o in sub.obls:
        rep.add('Q10', o.where, o.text, o.status,
                (o.what + ' (the second attempt runs before the due time '
                 'the first one is about to store)') if o.what else '',
                o.loc, o.witness, o.nontrivial, o.reason)
    rep.functions |= sub.functions
    rep.rule('Q11', 'the scheduler compares due times with time.time() '
             'itself (no slack added to `now`)')
    q11(e, rep)
    rep.rule('Q12', 'self.queued_ids holds ids: what it is updated with is '
             'never the timetable or a piece of it (entries are '
             '(timestamp, id) pairs - removing pairs from a set of ids '
             'removes nothing)')
    q12(e, rep)
    rep.rule('Q13', 'flush() dispatches one snapshot of the timetable: the '
             'statement that takes the waiting entries out (re-binds / '
             'clears self.queued) is not inside a loop that goes round '
             'while entries are there - what arrives while flush is blocked '
             'on a bounded pool are the messages it has just dispatched, '
             're-queued with a new due time; a second round attempts them '
             'before that time and flush() never returns')
    q13(e, rep)
    rep.rule('Q14', 'no position of the timetable is used across a yield '
             'point: where _check_ready / flush remove an entry by position '
             '(`del self.queued[0]`, `self.queued.pop(0)`), no dispatch into '
             'a pool (which can block on a bounded pool while other '
             'greenlets insert entries) lies between reading the entry at '
             'that position and removing it - the position then belongs to '
             'another entry, and a stored, due message is forgotten')
    q14(e, rep)
    rep.floor('Q2', 3, 'timetable writers')


def _is_lock(n: Node, e: Engine, what: str) -> bool:
    return n.kind == 'call' and e.call_name(n) == what and \
        canon(n.ast.func.value, n.frame) == 'self.queued_lock'


def q1(e: Engine, rep: Report):
    # locks flush() takes
    fctx = e.method_ctx(QUEUE, 'flush')
    fg = e.build(fctx)
    taken = {canon(n.ast.func.value, n.frame) for n in fg.nodes
             if n.kind == 'call' and e.call_name(n) == 'acquire'}
    taken |= {canon(n.ast.context_expr, n.frame)
              for n in fg.of_kind('with_enter')
              if 'lock' in canon(n.ast.context_expr, n.frame)}
    rep.functions.add(fctx.func.qname)
    ctx = e.method_ctx(QUEUE, '_run')
    g = e.build(ctx, inline=e.inline_same_self(
        deny=['_pool_spawn', '_dequeue', '_load_all', '_wait_store']),
        max_depth=4)
    where = ctx.func.qname
    rep.functions.add(where)
    if not taken:
        rep.ok('Q1', where, 'flush takes no lock', reason='nothing to wait '
               'for', nontrivial=False)
        return
    for lock in sorted(taken):
        acq = [n for n in g.nodes if n.kind == 'call' and
               e.call_name(n) == 'acquire' and
               canon(n.ast.func.value, n.frame) == lock]
        rel = [n for n in g.nodes if n.kind == 'call' and
               e.call_name(n) == 'release' and
               canon(n.ast.func.value, n.frame) == lock]
        def with_held(n):
            return any(sc.kind == 'with' and
                       canon(sc.ast.context_expr, sc.frame) == lock
                       for sc in n.scopes)
        if not acq and not any(with_held(n) for n in g.nodes):
            rep.ok('Q1', where, 'scheduler does not hold ' + lock,
                   reason='no acquire in the loop')
            continue

        # typestate: held / not held
        def step(n, label, st):
            if n in acq and not isinstance(label, tuple):
                return True
            if n in rel:
                return False
            return st
        IN = dataflow.typestate(g, False, step)
        for n in g.nodes:
            if n.kind != 'call' or n in acq:
                continue
            nm = e.call_name(n)
            res = n.extra.get('res')
            blocking = nm in BLOCKING_NAMES and (res is None or
                                                 not res.targets)
            if not blocking:
                continue
            rep.evaluations += 1
            held = True in (IN.get(n.id) or ()) or with_held(n)
            w = None
            if held and not with_held(n):
                pth = dataflow.typestate_witness(
                    g, False, step, lambda x, st: x is n and st)
                w = dataflow.render_path(pth, 16) if pth else None
            rep.check(not held, 'Q1', where,
                      'no blocking `%s` while holding %s' % (
                          n.text(40), lock.replace('self.', '')),
                      'the scheduler loop blocks in `%s` while holding %s, '
                      'which flush() acquires: flush() on a started queue '
                      'waits until the scheduler wakes up (forever when the '
                      'timetable is empty)' % (n.text(40), lock),
                      loc=n.loc(), reason='lock released before waiting',
                      witness=w)


def _queued_writes(e: Engine, g) -> List[Node]:
    out = []
    for n in g.nodes:
        if n.kind == 'stmt' and isinstance(n.ast, (ast.Assign,
                                                   ast.AugAssign)):
            tg = n.ast.targets if isinstance(n.ast, ast.Assign) \
                else [n.ast.target]
            for t0 in tg:
                for t in (t0.elts if isinstance(t0, (ast.Tuple, ast.List))
                          else [t0]):
                    if path_of(t, n.frame) == 'self.queued' or (
                            isinstance(t, ast.Subscript) and
                            path_of(t.value, n.frame) == 'self.queued'):
                        if n not in out:
                            out.append(n)
        elif n.kind == 'stmt' and isinstance(n.ast, ast.Delete):
            # del self.queued[:k]
            if any(isinstance(t, ast.Subscript) and
                   path_of(t.value, n.frame) == 'self.queued'
                   for t in n.ast.targets):
                out.append(n)
        elif n.kind == 'call':
            if any(path_of(a, n.frame) == 'self.queued'
                   for a in n.ast.args) and e.call_name(n) in (
                    'insort', 'insort_left', 'insort_right', 'heappush'):
                out.append(n)
            elif isinstance(n.ast.func, ast.Attribute) and \
                    path_of(n.ast.func.value, n.frame) == 'self.queued' \
                    and e.call_name(n) in ('append', 'insert', 'extend',
                                           'pop', 'remove', 'clear'):
                out.append(n)
    return out


def _queued_value(w: Node):
    """the expression a timetable write assigns to self.queued (the paired
    element of a tuple assignment)"""
    a = w.ast
    if isinstance(a, ast.Assign):
        for t0 in a.targets:
            if isinstance(t0, (ast.Tuple, ast.List)) and \
                    isinstance(a.value, ast.Tuple) and \
                    len(t0.elts) == len(a.value.elts):
                for t, v in zip(t0.elts, a.value.elts):
                    if path_of(t, w.frame) == 'self.queued':
                        return v
    return getattr(a, 'value', None)


def _ids_write(e: Engine, n: Node) -> bool:
    if n.kind == 'stmt' and isinstance(n.ast, (ast.Assign, ast.AugAssign)):
        tg = n.ast.targets if isinstance(n.ast, ast.Assign) \
            else [n.ast.target]
        # (also as one element of a tuple assignment)
        flat = [el for t in tg for el in (
            t.elts if isinstance(t, (ast.Tuple, ast.List)) else [t])]
        return any(path_of(t, n.frame) == 'self.queued_ids' for t in flat)
    if n.kind == 'call' and isinstance(n.ast.func, ast.Attribute):
        return path_of(n.ast.func.value, n.frame) == 'self.queued_ids' and \
            e.call_name(n) in ('add', 'discard', 'remove', 'clear', 'update',
                               'difference_update')
    return False


def q2(e: Engine, rep: Report):
    c = common.merged_class(e, QUEUE)
    for mname, m in sorted(c.methods.items()):
        if 'queued' not in ast.unparse(m.node):
            continue
        ctx = Ctx(m, QUEUE)
        g = e.build(ctx, raises=lambda b, n, r: set())
        ws = _queued_writes(e, g)
        if not ws:
            continue
        where = m.qname
        rep.functions.add(where)
        after = dataflow.must_events_after(
            g, lambda n: ['ids'] if _ids_write(e, n) else [],
            edge=c07.no_call_exc)
        before = dataflow.must_events_before(
            g, lambda n: ['ids'] if _ids_write(e, n) else [])
        for w in ws:
            rep.evaluations += 1
            st = after.get(w.id)
            ok = isinstance(st, dataflow.Top) or (st is not None and
                                                  'ids' in st)
            ok = ok or _ids_write(e, w)        # both in one statement
            ok = ok or 'ids' in (before.get(w.id) or ()) and \
                mname == '__init__'
            pth = None
            if not ok:
                pth = dataflow.find_path(
                    g, w, lambda x: x is g.exit,
                    avoid=lambda x: _ids_write(e, x),
                    edge_ok=lambda a, l, s: not isinstance(l, tuple))
            rep.check(ok, 'Q2', where,
                      'timetable write `%s` is paired with queued_ids'
                      % w.text(40),
                      'self.queued is rewritten without the matching '
                      'update of self.queued_ids: stale ids make '
                      '_add_queued reject the re-queue of those messages, '
                      'which are then never attempted again', loc=w.loc(),
                      reason='queued_ids written on every path after',
                      witness=dataflow.render_path(pth) if pth else None)


def q3(e: Engine, rep: Report):
    for meth, src in (('_load_all', 'load'), ('_wait_store', 'wait')):
        ctx = e.method_ctx(QUEUE, meth)
        g = e.build(ctx, inline=common.queue_inline(e), max_depth=3)
        where = ctx.func.qname
        rep.functions.add(where)
        def iter_text(n):
            return ast.unparse(common.origin(g, n.ast.iter, n.frame)[0])
        loops = [n for n in g.of_kind('iter') if isinstance(n.ast, ast.For)
                 and ('.%s()' % src) in iter_text(n)]
        rep.evaluations += 1
        if not loops:
            rep.bad('Q3', where, 'iterates over store.%s()' % src,
                    '%s no longer consumes store.%s(): messages announced '
                    'by the storage are never scheduled' % (meth, src),
                    loc=ctx.func.loc())
            continue
        for lp in loops:
            counts = common.per_iteration_counts(
                g, lp, lambda n: 1 if n.kind in ('call', 'call_enter') and
                e.call_name(n) == '_add_queued' else 0)
            rep.check(counts == frozenset([1]), 'Q3', where,
                      'each announced entry goes through _add_queued',
                      'an entry yielded by store.%s() is scheduled %s times '
                      'through _add_queued instead of exactly once'
                      % (src, sorted(counts)), loc=lp.loc(),
                      reason='exactly one _add_queued per entry')
    from . import c03
    sub = Report(rep.prop, rep.tier, rep.repo)
    c03.r32(e, sub)
    for o in sub.obls:
        if 'neither queued nor active' in o.text:
            rep.add('Q3', o.where, o.text, o.status,
                    o.what + ' (and the later re-queue with the due time '
                    'the backoff chose is then rejected: attempted early / '
                    'twice)' if o.what else '', o.loc, o.witness,
                    o.nontrivial, o.reason)
    ctx = e.method_ctx(QUEUE, '_add_queued')
    g = e.build(ctx, raises=lambda b, n, r: set(),
                inline=common.queue_inline(e), max_depth=3)
    where = ctx.func.qname
    ws = _queued_writes(e, g)
    after = dataflow.must_events_after(
        g, lambda n: ['wake'] if n.kind == 'call' and
        e.call_name(n) == 'set' and
        canon(n.ast.func.value, n.frame) == 'self.wake' else [],
        edge=c07.no_call_exc)
    for w in ws:
        rep.evaluations += 1
        st = after.get(w.id)
        rep.check(isinstance(st, dataflow.Top) or 'wake' in (st or ()),
                  'Q3', where, 'insertion wakes the scheduler',
                  'an entry is inserted without wake.set(): a scheduler '
                  'sleeping on an empty timetable (or until a later due '
                  'time) does not notice it', loc=w.loc(),
                  reason='wake.set() on every inserting path')


def q4(e: Engine, rep: Report):
    ctx = e.method_ctx(QUEUE, '_retry_later')
    g = e.build(ctx, inline=common.queue_inline(e), max_depth=3)
    where = ctx.func.qname
    rep.functions.add(where)

    def ev(n):
        if n.kind not in ('call', 'call_enter'):
            return []
        nm = e.call_name(n)
        if nm == 'set_timestamp':
            return ['ts']
        if nm == 'discard' and 'active_ids' in ast.unparse(n.ast.func):
            return ['unmark']
        return []
    before = dataflow.must_events_before(
        g, ev, edge_events=lambda n, l: ev(n))
    adds = [n for n in g.calls() if e.call_name(n) == '_add_queued']
    unm = [n for n in g.calls() if 'unmark' in ev(n)]
    if not adds or not unm:
        rep.error('anchor vanished: discard/_add_queued in _retry_later')
    for n in unm:
        rep.evaluations += 1
        rep.check('ts' in (before.get(n.id) or ()), 'Q4', where,
                  'due time stored before the message is un-marked',
                  'the message is un-marked as active before its new due '
                  'time is stored', loc=n.loc(),
                  reason='set_timestamp on every path before')
    for n in adds:
        rep.evaluations += 1
        st = before.get(n.id) or ()
        rep.check('unmark' in st and 'ts' in st, 'Q4', where,
                  're-queue after un-marking the id',
                  '_add_queued refuses ids that are still in active_ids: '
                  're-queuing before active_ids.discard(id) forgets the '
                  'message', loc=n.loc(),
                  reason='active_ids.discard(id) on every path before')


def _spawns_dequeue(e: Engine, n: Node) -> bool:
    return n.kind == 'call' and e.call_name(n) in ('_pool_spawn', 'spawn') \
        and any(ast.unparse(a).endswith('._dequeue') for a in n.ast.args)


YIELD_FREE = {'insort', 'insort_left', 'insort_right', 'add', 'discard',
              'set', 'len', 'enumerate', 'isinstance', 'append', 'time',
              'clear', 'range', 'sorted', 'list', 'tuple'}


def _snapshot_vars(g, whole_only=False):
    """locals assigned from self.queued (whole list) or a prefix slice of
    it: {var path: slice upper text or None}"""
    out = {}
    for n in g.of_kind('stmt'):
        if not isinstance(n.ast, ast.Assign):
            continue
        v = n.ast.value
        tg = n.ast.targets[0]
        if isinstance(tg, (ast.Tuple, ast.List)) and \
                isinstance(v, ast.Tuple) and len(tg.elts) == len(v.elts):
            pairs = list(zip(tg.elts, v.elts))
        else:
            pairs = [(tg, v)]
        for t, val in pairs:
            p = path_of(t, n.frame)
            if p is None or p.startswith('self.'):
                continue
            if path_of(val, n.frame) == 'self.queued':
                out[p] = (None, n)
            elif isinstance(val, ast.Subscript) and \
                    path_of(val.value, n.frame) == 'self.queued' and \
                    isinstance(val.slice, ast.Slice) and \
                    val.slice.lower is None and val.slice.upper is not None \
                    and not whole_only:
                out[p] = (ast.unparse(val.slice.upper), n)
            elif _takewhile_of_queued(val, n.frame) is not None and \
                    isinstance(t, ast.Name) and not whole_only:
                # the longest prefix satisfying a predicate: its length is
                # the cut
                out[p] = ('len(%s)' % t.id, n)
    return out


def _takewhile_of_queued(val, frame):
    """the lambda of `list(takewhile(lambda x: ..., self.queued))` (or the
    bare takewhile call), else None"""
    v = val
    if isinstance(v, ast.Call) and isinstance(v.func, ast.Name) and \
            v.func.id in ('list', 'tuple') and len(v.args) == 1:
        v = v.args[0]
    if isinstance(v, ast.Call) and \
            ast.unparse(v.func).rpartition('.')[2] == 'takewhile' and \
            len(v.args) == 2 and isinstance(v.args[0], ast.Lambda) and \
            path_of(v.args[1], frame) == 'self.queued':
        return v.args[0]
    return None


def q5(e: Engine, rep: Report):
    """Entries leave the timetable exactly when a _dequeue is spawned for
    them.  Two shapes are recognised: (A) spawn inside the scan loop over
    self.queued, the prefix index advancing only after the spawn; (B) the
    removed entries are first taken into a local list (prefix slice / whole
    list) and each element of that list is dispatched exactly once."""
    for meth in ('_check_ready', 'flush'):
        ctx = e.method_ctx(QUEUE, meth)
        g = e.build(ctx, raises=lambda b, n, r: set(),
                    inline=common.queue_inline(e), max_depth=3)
        where = ctx.func.qname
        rep.functions.add(where)
        ws = [n for n in _queued_writes(e, g) if n.kind == 'stmt']
        spawns = [n for n in g.nodes if _spawns_dequeue(e, n)]
        rep.evaluations += 1
        if not ws or not spawns:
            rep.bad('Q5', where, 'entries removed from the timetable are '
                    'dispatched', '%s no longer rewrites the timetable / '
                    'dispatches entries' % meth, loc=ctx.func.loc())
            continue
        snaps = _snapshot_vars(g)
        direct = [n for n in g.of_kind('iter') if isinstance(n.ast, ast.For)
                  and 'self.queued' in ast.unparse(n.ast.iter) and any(
                      sc.kind == 'loop' and sc.ast is n.ast
                      for s in spawns for sc in s.scopes)]
        def unpacked(x, fr):
            # `a, b = self._helper(...)` with the helper inlined and
            # returning a tuple display: the element x stands for, per
            # return
            defs = [s2 for s2 in g.of_kind('stmt')
                    if s2.frame is fr and isinstance(s2.ast, ast.Assign) and
                    len(s2.ast.targets) == 1 and
                    isinstance(s2.ast.targets[0], (ast.Tuple, ast.List)) and
                    any(isinstance(t, ast.Name) and t.id == x.id
                        for t in s2.ast.targets[0].elts)]
            stores = [y for y in walk_own(fr.ctx.func.node)
                      if isinstance(y, ast.Name) and y.id == x.id and
                      isinstance(y.ctx, ast.Store)]
            if len({id(d.ast) for d in defs}) != 1 or len(stores) != 1 or \
                    not isinstance(defs[0].ast.value, ast.Call):
                return None
            tg = defs[0].ast.targets[0]
            i = [k for k, t in enumerate(tg.elts)
                 if isinstance(t, ast.Name) and t.id == x.id][0]
            vals = common.values_of(g, defs[0].ast.value, fr)
            out = []
            for v, f2 in vals:
                if not (isinstance(v, ast.Tuple) and
                        len(v.elts) == len(tg.elts)):
                    return None
                out.append((v.elts[i], f2))
            return out

        def stmt_of(x, fr):
            for s2 in g.of_kind('stmt'):
                if s2.frame is fr and any(y is x for y in ast.walk(s2.ast)):
                    return s2
            return None

        def iter_path(n):
            # what is iterated, seen through helpers that hand it on /
            # back; a helper with several returns may also hand back an
            # empty list ("nothing was due")
            def walk(x, fr, depth=0):
                if depth > 6:
                    return {None}
                x, fr = common.origin(g, x, fr, follow_locals=False)
                if isinstance(x, ast.Name):
                    up = unpacked(x, fr)
                    if up is not None:
                        out = set()
                        for v, f2 in up:
                            out |= walk(v, f2, depth + 1)
                        return out
                if isinstance(x, ast.Subscript) and \
                        path_of(x.value, fr) == 'self.queued' and \
                        isinstance(x.slice, ast.Slice) and \
                        x.slice.lower is None and \
                        x.slice.upper is not None and \
                        stmt_of(x, fr) is not None:
                    # a prefix slice handed back directly
                    key = 'slice@%d' % id(x)
                    snaps[key] = (ast.unparse(x.slice.upper), stmt_of(x, fr))
                    return {key}
                # an element-wise projection `[f(x) for x in xs]` of the
                # list has one element per entry
                if isinstance(x, (ast.ListComp, ast.GeneratorExp)) and \
                        len(x.generators) == 1 and \
                        not x.generators[0].ifs:
                    return walk(x.generators[0].iter, fr, depth + 1)
                if isinstance(x, (ast.List, ast.Tuple)) and not x.elts:
                    return set()
                if isinstance(x, ast.Name):
                    q = path_of(x, fr)
                    if q in snaps:
                        return {q}
                    # a local assigned once from a helper call
                    defs = [s2 for s2 in g.of_kind('stmt')
                            if s2.frame is fr and
                            isinstance(s2.ast, ast.Assign) and
                            len(s2.ast.targets) == 1 and
                            isinstance(s2.ast.targets[0], ast.Name) and
                            s2.ast.targets[0].id == x.id]
                    if len({id(d.ast) for d in defs}) == 1 and \
                            isinstance(defs[0].ast.value, ast.Call):
                        return walk(defs[0].ast.value, fr, depth + 1)
                    return {q}
                if isinstance(x, ast.Call):
                    vals = common.values_of(g, x, fr)
                    if not (len(vals) == 1 and vals[0][0] is x):
                        out = set()
                        for v, f2 in vals:
                            out |= walk(v, f2, depth + 1)
                        return out
                return {path_of(x, fr)}
            got = walk(n.ast.iter, n.frame)
            return next(iter(got)) if len(got) == 1 else None
        local = [n for n in g.of_kind('iter') if isinstance(n.ast, ast.For)
                 and iter_path(n) in snaps and any(
                     sc.kind == 'loop' and sc.ast is n.ast
                     for s in spawns for sc in s.scopes)]
        if local:
            lp = local[0]
            upper, defn = snaps[iter_path(lp)]
            # the captured list is dispatched as it was captured: nothing
            # takes entries out of it on the way to the loop
            lname = lp.ast.iter.id if isinstance(lp.ast.iter, ast.Name) \
                else None
            if lname is not None:
                shr = []
                for n2 in g.nodes:
                    if n2.frame is not lp.frame:
                        continue
                    a2 = n2.ast
                    if n2.kind == 'stmt' and isinstance(a2, ast.Delete) and \
                            any(isinstance(t, ast.Subscript) and
                                isinstance(t.value, ast.Name) and
                                t.value.id == lname for t in a2.targets):
                        shr.append(n2)
                    if n2.kind == 'stmt' and isinstance(a2, ast.Assign) and \
                            any(isinstance(t, ast.Subscript) and
                                isinstance(t.value, ast.Name) and
                                t.value.id == lname for t in a2.targets):
                        shr.append(n2)
                    if n2.kind == 'call' and \
                            isinstance(a2.func, ast.Attribute) and \
                            isinstance(a2.func.value, ast.Name) and \
                            a2.func.value.id == lname and a2.func.attr in (
                                'pop', 'remove', 'clear', 'popleft'):
                        shr.append(n2)
                rep.evaluations += 1
                rep.check(not shr, 'Q5', where,
                          'the removed entries are dispatched as captured',
                          '`%s` takes entries out of `%s` after they were '
                          'removed from the timetable and before they are '
                          'dispatched: those entries are in neither place '
                          'any more - stored, due, and never attempted'
                          % (shr[0].text(40) if shr else '', lname),
                          loc=shr[0].loc() if shr else lp.loc(),
                          reason='no deletion from the captured list')
            counts = common.per_iteration_counts(
                g, lp, lambda n: 1 if _spawns_dequeue(e, n) else 0)
            rep.check(counts == frozenset([1]), 'Q5', where,
                      'every removed entry is dispatched exactly once',
                      'per removed entry %s _dequeue spawns' % sorted(counts),
                      loc=lp.loc(), reason='one _dequeue per element of the '
                      'removed list')
            # one statement that takes the removed part and names the kept
            # part: `taken, kept = self.queued[:n], self.queued[n:]` /
            # `taken, kept = self.queued, []` (possibly one per branch)
            def pair_stmt(s2):
                a = s2.ast
                if not (isinstance(a, ast.Assign) and len(a.targets) == 1 and
                        isinstance(a.targets[0], ast.Tuple) and
                        len(a.targets[0].elts) == 2 and
                        isinstance(a.value, ast.Tuple) and
                        len(a.value.elts) == 2):
                    return None
                A, B = a.value.elts
                if path_of(A, s2.frame) == 'self.queued' and \
                        isinstance(B, ast.List) and not B.elts:
                    return a.targets[0].elts
                if isinstance(A, ast.Subscript) and \
                        isinstance(B, ast.Subscript) and \
                        path_of(A.value, s2.frame) == 'self.queued' and \
                        path_of(B.value, s2.frame) == 'self.queued' and \
                        isinstance(A.slice, ast.Slice) and \
                        isinstance(B.slice, ast.Slice) and \
                        A.slice.lower is None and B.slice.upper is None and \
                        A.slice.upper is not None and \
                        B.slice.lower is not None and \
                        ast.unparse(A.slice.upper) == \
                        ast.unparse(B.slice.lower):
                    return a.targets[0].elts
                return None
            pairs = [s2 for s2 in g.of_kind('stmt') if pair_stmt(s2)]
            # the kept part is the complement of the removed part
            for w in ws:
                if isinstance(w.ast, ast.Delete):
                    # del self.queued[:n] keeps self.queued[n:]
                    t = w.ast.targets[0]
                    okd = upper is not None and len(w.ast.targets) == 1 and \
                        isinstance(t, ast.Subscript) and \
                        isinstance(t.slice, ast.Slice) and \
                        t.slice.lower is None and t.slice.step is None and \
                        t.slice.upper is not None and \
                        ast.unparse(t.slice.upper) == upper
                    rep.evaluations += 1
                    rep.check(okd, 'Q5', where, 'kept entries are the '
                              'complement of the dispatched ones',
                              '`%s` removes other entries than the '
                              'dispatched self.queued[:%s]' % (
                                  w.text(40), upper), loc=w.loc(),
                              reason='deletes exactly the removed prefix')
                    continue
                v = _queued_value(w)
                if isinstance(v, ast.Name) and pairs:
                    rd = common.reaching_defs(g, w, path_of(v, w.frame))
                    if rd and all(d is not None and d in pairs and
                                  isinstance(pair_stmt(d)[1], ast.Name) and
                                  pair_stmt(d)[1].id == v.id for d in rd):
                        rep.evaluations += 1
                        rep.ok('Q5', where, 'kept entries are the complement '
                               'of the dispatched ones', loc=w.loc(),
                               reason='taken and kept part come from one '
                               'complementary assignment')
                        continue
                if isinstance(v, ast.Name):
                    up = unpacked(v, w.frame)
                    if up is not None and len(up) == 1:
                        v = up[0][0]
                if isinstance(v, ast.Name):
                    # remaining = self.queued[n:]; self.queued = remaining
                    v2, f2 = common.origin(g, v, w.frame)
                    if v2 is not v and f2 is w.frame:
                        v = v2
                if upper is None:
                    ok = isinstance(v, ast.List) and not v.elts
                    what = 'the whole list was taken: the timetable is ' \
                           'emptied'
                else:
                    ok = isinstance(v, ast.Subscript) and \
                        isinstance(v.slice, ast.Slice) and \
                        v.slice.upper is None and v.slice.lower is not None \
                        and ast.unparse(v.slice.lower) == upper and \
                        path_of(v.value, w.frame) == 'self.queued'
                    what = 'kept part self.queued[%s:] complements the ' \
                           'removed prefix [:%s]' % (upper, upper)
                rep.evaluations += 1
                rep.check(ok, 'Q5', where, 'kept entries are the complement '
                          'of the dispatched ones',
                          'the timetable is rewritten as `%s` although the '
                          'dispatched entries are self.queued[:%s]: '
                          'entries are dropped without dispatch or '
                          'dispatched and kept' % (ast.unparse(v), upper),
                          loc=w.loc(), reason=what)
            # snapshot taken before the rewrite, with no yield in between
            before = dataflow.must_events_before(
                g, lambda n: ['snap'] if n is defn or n in pairs else [])
            for w in ws:
                rep.check('snap' in (before.get(w.id) or ()) or w is defn,
                          'Q5', where, 'removed entries are captured '
                          'before the rewrite', 'the timetable is rewritten '
                          'before the entries to dispatch were captured',
                          loc=w.loc(), reason='snapshot dominates the write')
        elif direct:
            lp = direct[0]
            slice_vars = set()
            for w in ws:
                for x in ast.walk(w.ast.value):
                    if isinstance(x, ast.Slice) and \
                            isinstance(x.lower, ast.Name):
                        slice_vars.add(path_of(x.lower, w.frame))
            adv = [n for n in g.of_kind('stmt')
                   if isinstance(n.ast, ast.Assign) and
                   path_of(n.ast.targets[0], n.frame) in slice_vars and
                   any(sc.kind == 'loop' and sc.ast is lp.ast
                       for sc in n.scopes)]
            before = dataflow.must_events_before(
                g, lambda n: ['spawn'] if _spawns_dequeue(e, n) else [],
                kill=lambda n: ['spawn'] if n is lp else [])
            if meth == '_check_ready':
                rep.check(bool(adv) and all(
                    'spawn' in (before.get(n.id) or ()) for n in adv), 'Q5',
                    where, 'prefix index advances only after a dispatch',
                    'an entry can be counted into the dropped prefix '
                    'without a _dequeue having been spawned for it',
                    loc=lp.loc(), reason='_dequeue spawned in the same '
                    'iteration')
            counts = common.per_iteration_counts(
                g, lp, lambda n: 1 if _spawns_dequeue(e, n) else 0)
            want = frozenset([1]) if meth == 'flush' else None
            rep.check(counts == want if want else (
                counts <= frozenset([0, 1]) and 1 in counts), 'Q5', where,
                'one dispatch per entry', '%s dispatches per entry'
                % sorted(counts), loc=lp.loc(), reason='one _dequeue per '
                'entry')
            for w in ws:
                rep.evaluations += 1
                rep.check(not common_reach_without_done(g, w, lp), 'Q5',
                          where, 'timetable rewritten only after the '
                          'dispatch loop', 'the timetable is rewritten '
                          'before every entry was dispatched', loc=w.loc(),
                          reason='loop completed before the rewrite')
        else:
            # no dispatch anywhere in reach: the removed entries are lost;
            # a dispatch in a shape not read here is undecided
            qc0 = common.merged_class(e, QUEUE)
            seen0, todo0 = set(), [ctx.func]
            reach = False
            while todo0 and len(seen0) < 12:
                f0 = todo0.pop()
                if f0.qname in seen0:
                    continue
                seen0.add(f0.qname)
                for y in walk_own(f0.node):
                    if isinstance(y, ast.Attribute) and \
                            isinstance(y.value, ast.Name) and \
                            y.value.id == 'self':
                        if y.attr == '_dequeue':
                            reach = True
                        elif y.attr in qc0.methods and y.attr not in (
                                '_pool_spawn', '_add_queued'):
                            todo0.append(qc0.methods[y.attr])
            if reach:
                rep.unknown('Q5', where, 'dispatch loop over the removed '
                            'entries', 'cannot see how %s pairs the entries '
                            'it removes from the timetable with the '
                            '_dequeue it reaches' % meth, loc=ctx.func.loc())
            else:
                rep.bad('Q5', where, 'dispatch loop over the removed '
                        'entries', 'no loop dispatches the entries that %s '
                        'removes from the timetable' % meth,
                        loc=ctx.func.loc())
        # Q7: the shared list is never iterated across a yield point
        for lp in [n for n in g.of_kind('iter') if isinstance(n.ast, ast.For)
                   and 'self.queued' in ast.unparse(n.ast.iter)]:
            ycalls = [n for n in g.calls() if any(
                sc.kind == 'loop' and sc.ast is lp.ast for sc in n.scopes)
                and e.call_name(n) not in YIELD_FREE]
            rep.evaluations += 1
            rep.check(not ycalls, 'Q7', where,
                      'no yield point inside the scan over self.queued',
                      'the loop over the shared timetable calls `%s`, which '
                      'can switch greenlets (pool.spawn blocks on a bounded '
                      'pool): _add_queued can insert meanwhile, the list '
                      'shifts under the iteration and the final rewrite '
                      'drops entries that were never dispatched' % (
                          ycalls[0].text(40) if ycalls else ''),
                      loc=lp.loc(), reason='scan loop is yield-free')


def common_reach_without_done(g, dst, lp) -> bool:
    def edge_ok(a, l, s):
        if a is lp and l == 'done':
            return False
        return not isinstance(l, tuple)
    return dst.id in dataflow.reachable(g, g.entry, edge_ok)


def q6(e: Engine, rep: Report):
    ctx = e.method_ctx(QUEUE, '_check_ready')
    g = e.build(ctx, raises=lambda b, n, r: set(),
                    inline=common.queue_inline(e), max_depth=3)
    fx = e.facts(g)
    where = ctx.func.qname
    loops = [n for n in g.of_kind('iter') if isinstance(n.ast, ast.For) and
             'self.queued' in ast.unparse(n.ast.iter)]
    spawns = [n for n in g.nodes if _spawns_dequeue(e, n)]
    now = '%s#%d' % (ctx.func.params[1], g.entry.frame.id)
    due_kind = None        # 'le': ts <= now is due;  'lt': only ts < now
    if spawns and not loops:
        due_kind = _takewhile_cut(e, rep, g, ctx, where, now)
        if due_kind is None:
            due_kind = _bisect_cut(e, rep, g, ctx, where)
        if due_kind is None:
            return
        _wait_ready_part(e, rep, due_kind)
        return
    if not spawns or not loops:
        rep.error('anchor vanished: dispatch in _check_ready')
        return
    lp = loops[0]
    # sites that decide that an entry is dispatched: the spawn itself when
    # it sits in the scan loop, else the advance of the prefix index
    deciders = [n for n in spawns if any(
        sc.kind == 'loop' and sc.ast is lp.ast for sc in n.scopes)]
    if not deciders:
        snaps = _snapshot_vars(g)
        uppers = {u for u, _ in snaps.values() if u}
        def advanced(a):
            if isinstance(a, ast.Assign) and \
                    isinstance(a.targets[0], ast.Name):
                return a.targets[0].id
            if isinstance(a, ast.AugAssign) and \
                    isinstance(a.target, ast.Name):
                return a.target.id          # count += 1
            return None
        deciders = [n for n in g.of_kind('stmt')
                    if advanced(n.ast) in uppers and any(
                        sc.kind == 'loop' and sc.ast is lp.ast
                        for sc in n.scopes)]
    if not deciders:
        rep.bad('Q6', where, 'dispatch only when due',
                'cannot find where _check_ready decides which entries are '
                'due', loc=ctx.func.loc())
    for n in deciders:
        rep.evaluations += 1
        st = fx.at(n) or frozenset()
        # normalised form of `now >= timestamp` is `timestamp <= now`
        due = [k for p, k in st if p and k.endswith(' <= ' + now)]
        strict = [k for p, k in st if p and k.endswith(' < ' + now)]
        if due or strict:
            due_kind = 'le' if due and due_kind != 'lt' else 'lt'
        rep.check(bool(due or strict), 'Q6', where,
                  'dispatch only when due',
                  'an entry is selected for dispatch without `now >= '
                  'timestamp` holding for it: the message is attempted '
                  'before the time the backoff policy chose', loc=n.loc(),
                  reason='dominated by timestamp <= now')
    # the scan stops at the first entry that is not due
    tests = [t for t in g.of_kind('test') if any(
        k.endswith(' <= ' + now) or k.startswith(now + ' < ')
        for _, k in atoms_of_test(t.ast, True, t.frame))]
    for t in tests:
        for l, s in t.succ:
            # the edge on which the entry is NOT due
            atoms = atoms_of_test(t.ast, l == 'T', t.frame)
            if not any(k.startswith(now + ' < ') for _, k in atoms):
                continue
            rep.evaluations += 1
            back = lp.id in dataflow.reachable(
                g, s, lambda a, l2, s2: not isinstance(l2, tuple))
            rep.check(not back, 'Q6', where,
                      'scan stops at the first entry that is not due',
                      'after an entry that is not yet due the scan goes on: '
                      'later entries advance the dropped prefix past it and '
                      'it is removed from the timetable unattempted',
                      loc=t.loc(), reason='break on the not-due branch')
    _wait_ready_part(e, rep, due_kind)


def _takewhile_pred(val, frame):
    """(entry parameter, test, names bound to the entry's timestamp) of the
    predicate of a takewhile(PRED, self.queued) anywhere inside `val`: a
    lambda, or a def nested in the same function whose body is an optional
    `ts, id = entry` followed by `return <test>`"""
    for v in ast.walk(val):
        if not (isinstance(v, ast.Call) and
                ast.unparse(v.func).rpartition('.')[2] == 'takewhile' and
                len(v.args) == 2 and
                path_of(v.args[1], frame) == 'self.queued'):
            continue
        pr = v.args[0]
        if isinstance(pr, ast.Lambda):
            arg = pr.args.args[0].arg if pr.args.args else None
            return arg, pr.body, set()
        if isinstance(pr, ast.Name):
            defs = [d for d in frame.ctx.func.node.body
                    if isinstance(d, ast.FunctionDef) and d.name == pr.id]
            if len(defs) != 1 or len(defs[0].args.args) != 1:
                return None
            arg = defs[0].args.args[0].arg
            body = [st for st in defs[0].body
                    if not (isinstance(st, ast.Expr) and
                            isinstance(st.value, ast.Constant))]
            ts = set()
            if len(body) == 2 and isinstance(body[0], ast.Assign) and \
                    isinstance(body[0].targets[0], ast.Tuple) and \
                    isinstance(body[0].value, ast.Name) and \
                    body[0].value.id == arg and \
                    len(body[0].targets[0].elts) == 2 and \
                    isinstance(body[0].targets[0].elts[0], ast.Name):
                ts.add(body[0].targets[0].elts[0].id)
                body = body[1:]
            if len(body) == 1 and isinstance(body[0], ast.Return) and \
                    body[0].value is not None:
                return arg, body[0].value, ts
        return None
    return None


def _takewhile_cut(e: Engine, rep: Report, g, ctx, where, now):
    """The due prefix taken with takewhile(lambda entry: PRED, self.queued):
    PRED must compare the entry's timestamp (entry[0]) with `now`."""
    kind = None
    for n in g.of_kind('stmt'):
        # (the count may be what a helper returns)
        if not isinstance(n.ast, (ast.Assign, ast.Return)) or \
                n.ast.value is None:
            continue
        pred = _takewhile_pred(n.ast.value, n.frame)
        if pred is None:
            continue
        rep.evaluations += 1
        arg, t, ts_names = pred
        k = None
        if isinstance(t, ast.Compare) and len(t.ops) == 1 and arg:
            l, r = t.left, t.comparators[0]

            def is_ts(x):
                if isinstance(x, ast.Name) and x.id in ts_names:
                    return True
                return isinstance(x, ast.Subscript) and \
                    isinstance(x.value, ast.Name) and x.value.id == arg and \
                    isinstance(x.slice, ast.Constant) and x.slice.value == 0

            def is_now(x):
                try:
                    return canon(x, n.frame) == now
                except Exception:
                    return False
            op = t.ops[0]
            if is_ts(l) and is_now(r):
                k = {ast.LtE: 'le', ast.Lt: 'lt'}.get(type(op))
            elif is_now(l) and is_ts(r):
                k = {ast.GtE: 'le', ast.Gt: 'lt'}.get(type(op))
        if k is None:
            rep.error('cannot decide the due predicate `%s` of the '
                      'takewhile() cut in _check_ready' % ast.unparse(t))
            return None
        kind = k
        rep.ok('Q6', where, 'dispatch only when due',
               reason='takewhile() keeps the prefix with timestamp %s now'
               % ('<=' if k == 'le' else '<'), loc=n.loc())
    return kind


def _bisect_cut(e: Engine, rep: Report, g, ctx, where):
    """The due prefix computed by bisection instead of a scan: the cut is
    bisect(self.queued, KEY).  Entries are (timestamp, id) pairs, so by tuple
    ordering a 1-tuple KEY (now,) sorts before every (now, id): only entries
    with timestamp < now are cut off."""
    now = ctx.func.params[1]
    cuts = [n for n in g.nodes if n.kind == 'call' and
            e.call_name(n) in ('bisect', 'bisect_left', 'bisect_right')
            and n.ast.args and
            canon(n.ast.args[0], n.frame) == 'self.queued']
    if not cuts:
        rep.error('anchor vanished: dispatch in _check_ready')
        return None
    kind = None
    for n in cuts:
        rep.evaluations += 1
        key = n.ast.args[1] if len(n.ast.args) > 1 else None
        if isinstance(key, ast.Tuple) and len(key.elts) == 1 and \
                isinstance(key.elts[0], ast.Name) and key.elts[0].id == now:
            kind = 'lt'
            rep.ok('Q6', where, 'dispatch only when due',
                   reason='bisection key (now,) cuts off entries with '
                   'timestamp < now', loc=n.loc())
        else:
            rep.error('cannot decide the due predicate of the bisection key '
                      '`%s` in _check_ready' % (ast.unparse(key) if key
                                                else '?'))
            return None
    return kind


def _wait_ready_part(e: Engine, rep: Report, due_kind):
    # _wait_ready
    ctx = e.method_ctx(QUEUE, '_wait_ready')
    g = e.build(ctx, raises=lambda b, n, r: {'builtins.IndexError'}
                if False else set(), inline=common.queue_inline(e),
                max_depth=3)
    fx = e.facts(g)
    where = ctx.func.qname
    rep.functions.add(where)
    now = '%s#%d' % (ctx.func.params[1], g.entry.frame.id)
    waits = [n for n in g.nodes if n.kind == 'call' and
             e.call_name(n) == 'wait' and
             canon(n.ast.func.value, n.frame) == 'self.wake']
    if not waits:
        rep.error('anchor vanished: wake.wait in _wait_ready')
    # the timeout may be computed first (`timeout = first - now` on one
    # branch, `timeout = None` on the empty one): every definition that
    # reaches the wait is one case, judged where it is made
    cases = []
    for n in waits:
        eff = list(n.ast.args)
        aframe = n.frame
        if len(eff) == 1 and isinstance(eff[0], ast.Starred) and \
                isinstance(eff[0].value, ast.Name) and \
                n.frame.ctx.func.vararg == eff[0].value.id and \
                n.frame.star_args is not None:
            # wait(*timeout) in a helper: what the helper was given
            sa = n.frame.star_args
            eff = [x for x, _f in sa]
            aframe = sa[0][1] if sa else n.frame
        if len(eff) == 1 and isinstance(eff[0], ast.Starred) and \
                isinstance(eff[0].value, ast.Name):
            # wait(*args) with `args = self._helper(now)` handing back the
            # argument tuple: () = no timeout, (t,) = timeout t; one case
            # per return of the helper (a None return cannot be starred: the
            # caller has turned back before)
            nm = eff[0].value.id
            ds = [d for d in walk_own(n.frame.ctx.func.node)
                  if isinstance(d, ast.Assign) and any(
                      isinstance(t, ast.Name) and t.id == nm
                      for t in d.targets)]
            vals = common.values_of(g, ds[0].value, n.frame) \
                if len(ds) == 1 and isinstance(ds[0].value, ast.Call) else []
            if vals and all(
                    isinstance(v, ast.Tuple) and len(v.elts) <= 1 or (
                        isinstance(v, ast.Constant) and v.value is None)
                    for v, _f in vals):
                for v, vf in vals:
                    if isinstance(v, ast.Constant):
                        continue
                    # judged where the helper decided: its return
                    rs = [r for r in g.of_kind('stmt')
                          if isinstance(r.ast, ast.Return) and
                          r.ast.value is v]
                    site0 = rs[0] if rs else n
                    if not v.elts:
                        cases.append((n, None, site0))
                    else:
                        x = v.elts[0]
                        if isinstance(x, ast.BinOp) and \
                                isinstance(x.right, ast.Name):
                            r2, _rf = common.deref(x.right, vf)
                            if r2 is not x.right:
                                x = ast.BinOp(left=x.left, op=x.op, right=r2)
                        cases.append((n, x, site0))
                continue
        if not (eff or n.ast.keywords):
            cases.append((n, None, n))
            continue
        a = eff[0] if eff else n.ast.keywords[0].value
        if aframe is n.frame and isinstance(a, ast.Name) and \
                n.frame.parent is not None and \
                a.id in n.frame.ctx.func.params and not any(
                    isinstance(y, ast.Name) and y.id == a.id and
                    isinstance(y.ctx, ast.Store)
                    for y in walk_own(n.frame.ctx.func.node)):
            # wait(timeout) in a helper `_sleep(self, timeout=None)`: what
            # this call of the helper was given (nothing = its default)
            call_site = [c for c in g.of_kind('call_enter')
                         if c.extra.get('callee_frame') is n.frame]
            site0 = call_site[0] if call_site else n
            if a.id in getattr(n.frame, 'arg_exprs', {}):
                ax, afr = n.frame.arg_exprs[a.id]
                if isinstance(ax, ast.Constant) and ax.value is None:
                    cases.append((n, None, site0))
                else:
                    cases.append((n, ax, site0))
                continue
            fnode = n.frame.ctx.func.node
            prm = [x.arg for x in fnode.args.args]
            dfl = fnode.args.defaults
            k = prm.index(a.id) - (len(prm) - len(dfl)) \
                if a.id in prm else -1
            if 0 <= k < len(dfl) and isinstance(dfl[k], ast.Constant) and \
                    dfl[k].value is None:
                cases.append((n, None, site0))
                continue
        if aframe is not n.frame:
            # judged where the duration was computed: the helper's call
            call_site = [c for c in g.of_kind('call_enter')
                         if c.extra.get('callee_frame') is n.frame]
            cases.append((n, a, call_site[0] if call_site else n))
            continue
        ap = path_of(a, n.frame) if isinstance(a, ast.Name) else None
        defs = common.reaching_defs(g, n, ap) if ap else []
        # `should_wait, timeout = self._wake_timeout(now)`: one case per
        # return of the helper, judged where the helper decided; returns
        # whose other elements contradict what is known at the wait (the
        # flag tested in front of it) do not reach it
        tup = [d for d in defs if d is not None and
               isinstance(d.ast, ast.Assign) and
               len(d.ast.targets) == 1 and
               isinstance(d.ast.targets[0], (ast.Tuple, ast.List)) and
               isinstance(d.ast.value, ast.Call)]
        if ap and defs and len(tup) == len(defs) == 1:
            d = tup[0]
            tg = d.ast.targets[0]
            idx = [k for k, t in enumerate(tg.elts)
                   if path_of(t, d.frame) == ap]
            vals = common.values_of(g, d.ast.value, d.frame)
            if idx and vals and not (len(vals) == 1 and
                                     vals[0][0] is d.ast.value) and all(
                    isinstance(v, ast.Tuple) and len(v.elts) == len(tg.elts)
                    for v, _f in vals):
                stn = fx.at(n) or frozenset()
                for v, vf in vals:
                    dead = False
                    for k, t in enumerate(tg.elts):
                        if k == idx[0] or not isinstance(
                                v.elts[k], ast.Constant):
                            continue
                        tp = path_of(t, d.frame)
                        truth = bool(v.elts[k].value)
                        if (holds(stn, (True, tp)) and not truth) or \
                                (holds(stn, (False, tp)) and truth):
                            dead = True
                    if dead:
                        continue
                    rs = [r for r in g.of_kind('stmt')
                          if isinstance(r.ast, ast.Return) and
                          r.ast.value is v]
                    site0 = rs[0] if rs else n
                    x = v.elts[idx[0]]
                    if isinstance(x, ast.Constant) and x.value is None:
                        cases.append((n, None, site0))
                    else:
                        if isinstance(x, ast.BinOp) and \
                                isinstance(x.right, ast.Name):
                            r2, _rf = common.deref(x.right, vf)
                            if r2 is not x.right:
                                x = ast.BinOp(left=x.left, op=x.op, right=r2)
                        cases.append((n, x, site0))
                continue
        if ap and defs and all(
                d is not None and isinstance(d.ast, ast.Assign) and
                isinstance(d.ast.targets[0], ast.Name) for d in defs):
            for d in defs:
                v = d.ast.value
                if isinstance(v, ast.Constant) and v.value is None:
                    cases.append((n, None, d))
                else:
                    cases.append((n, v, d))
        else:
            cases.append((n, a, n))
    for n, a, site in cases:
        rep.evaluations += 1
        if a is not None:
            ok = isinstance(a, ast.BinOp) and isinstance(a.op, ast.Sub) and \
                isinstance(a.right, ast.Name) and \
                a.right.id == ctx.func.params[1]
            rep.check(ok, 'Q6', where, 'bounded sleep until the first due '
                      'time', 'the scheduler sleeps `%s` instead of '
                      '(first due time - now): it wakes too late or too '
                      'early' % ast.unparse(a), loc=n.loc(),
                      reason='timeout = first_timestamp - now')
            # `now` was sampled by the caller: it is only as fresh as the
            # path from the entry to this wait is short - an unbounded wait
            # on the way makes the timeout late by however long it lasted
            stale = [w for w in g.nodes if w.kind == 'call' and w is not n
                     and e.call_name(w) in ('wait', 'sleep', 'get', 'join')
                     and not w.ast.args and not w.ast.keywords]
            pth = None
            for w in stale:
                p1 = dataflow.find_path(
                    g, g.entry, lambda x, w=w: x is w,
                    edge_ok=lambda a, l, s2: not isinstance(l, tuple))
                p2 = dataflow.find_path(
                    g, w, lambda x: x is n,
                    edge_ok=lambda a, l, s2: not isinstance(l, tuple)) \
                    if p1 else None
                if p1 and p2:
                    pth = p1 + p2[1:]
                    break
            rep.evaluations += 1
            rep.check(pth is None, 'Q6', where,
                      '`now` is still current when the sleep is computed',
                      'an unbounded wait lies between the entry of '
                      '_wait_ready (where `%s` was current) and the timed '
                      'wait computed from it: after an idle period of '
                      'length d the first due entry is attempted d seconds '
                      'late' % ctx.func.params[1], loc=n.loc(),
                      reason='no untimed wait on the way to the timed one',
                      witness=dataflow.render_path(pth, 12) if pth else None)
            # the due predicate of _check_ready and the sleep predicate
            # here leave no gap: an entry that is not dispatched is slept
            # for
            st = fx.at(site) or frozenset()
            sleeps_gt = any(p and k.startswith(now + ' < ') for p, k in st)
            sleeps_ge = any(p and k.startswith(now + ' <= ') for p, k in st)
            if due_kind is not None and (sleeps_gt or sleeps_ge):
                rep.evaluations += 1
                gap = due_kind == 'lt' and sleeps_gt and not sleeps_ge
                rep.check(not gap, 'Q6', where,
                          'an entry that is not yet dispatched is slept for',
                          '_check_ready dispatches only entries with '
                          'timestamp < now while _wait_ready sleeps only '
                          'for timestamp > now: an entry due exactly now is '
                          'neither dispatched nor waited for, the scheduler '
                          'loop spins without yielding and the message is '
                          'never attempted', loc=n.loc(),
                          reason='due predicate (timestamp <= now) is the '
                          'complement of the sleep predicate (timestamp > '
                          'now)')
        else:
            inh = any(sc.kind == 'handler' and any(
                'IndexError' in t for t in (sc.data['node'].extra.get(
                    'types', []))) for sc in site.scopes)
            # ... or on the branch on which the timetable tested empty
            st = fx.at(site) or frozenset()
            inh = inh or (False, 'self.queued') in st or \
                (True, 'len(self.queued) == 0') in st
            rep.check(inh, 'Q6', where, 'unbounded sleep only on an empty '
                      'timetable', 'the scheduler waits without a timeout '
                      'although the timetable has entries: due messages '
                      'are not attempted until something else wakes it',
                      loc=n.loc(), reason='inside the IndexError (empty '
                      'timetable) arm')


def q8(e: Engine, rep: Report):
    """A failing set_recipients_delivered (known finding: it raises TypeError
    on accumulate-and-filter backends from the second partial round on) must
    not strand the message: every way out of that call still un-marks and
    re-queues the id."""
    ctx = e.method_ctx(QUEUE, '_retry_later')
    g = e.build(ctx, inline=common.queue_inline(e), max_depth=3)
    where = ctx.func.qname
    marks = [n for n in g.nodes if n.kind == 'call' and
             e.call_name(n) == 'set_recipients_delivered']
    for m in marks:
        rep.evaluations += 1
        pth = dataflow.find_path(
            g, m, lambda x: x is g.exit or x is g.raise_exit,
            avoid=lambda x: x.kind in ('call', 'call_enter') and
            e.call_name(x) == '_add_queued',
            edge_ok=lambda a, l, s2: not isinstance(l, tuple) or a is m
            or a.kind not in ('call', 'call_enter'))
        rep.check(pth is None, 'Q8', where,
                  're-queue on every way out of set_recipients_delivered',
                  '_retry_later can leave (normally or by an exception of '
                  'the storage call) after the marks were attempted without '
                  'calling _add_queued: the id stays in active_ids, is in '
                  'no timetable and every later announcement of it is '
                  'refused - the stored message is never attempted again',
                  loc=m.loc(), witness=dataflow.render_path(pth, 12)
                  if pth else None,
                  reason='_add_queued on the normal and the exceptional '
                  'continuation')


# -------------------------------------------------------------------- Q11
def q12(e: Engine, rep: Report, rule: str = 'Q12'):
    c = common.merged_class(e, QUEUE)
    n = 0

    def entries(x, fn, depth=0):
        """does `x` denote the timetable, a slice of it, a copy of those,
        or a local bound to one?"""
        if depth > 4:
            return False
        if isinstance(x, ast.Attribute) and isinstance(x.value, ast.Name) \
                and x.value.id == 'self' and x.attr == 'queued':
            return True
        if isinstance(x, ast.Subscript) and isinstance(x.slice, ast.Slice):
            return entries(x.value, fn, depth + 1)
        if isinstance(x, ast.Call) and isinstance(x.func, ast.Name) and \
                x.func.id in ('list', 'tuple', 'set', 'frozenset', 'sorted',
                              'reversed', 'iter') and len(x.args) == 1:
            return entries(x.args[0], fn, depth + 1)
        if isinstance(x, ast.Name):
            ds = [a.value for a in walk_own(fn) if isinstance(a, ast.Assign)
                  and any(isinstance(t, ast.Name) and t.id == x.id
                          for t in a.targets)]
            return bool(ds) and any(entries(d, fn, depth + 1) for d in ds)
        return False

    def entry_var(x, fn):
        # the loop variable of a pass over the timetable, taken whole
        if not isinstance(x, ast.Name):
            return False
        for lp in walk_own(fn):
            if isinstance(lp, (ast.For, ast.comprehension)) and \
                    isinstance(lp.target, ast.Name) and \
                    lp.target.id == x.id and entries(lp.iter, fn):
                return True
        return False
    for mname, m in sorted(c.methods.items()):
        for x in walk_own(m.node):
            arg, how = None, None
            if isinstance(x, ast.Call) and \
                    isinstance(x.func, ast.Attribute) and \
                    ast.unparse(x.func.value) == 'self.queued_ids' and \
                    x.args:
                arg, how = x.args[0], x.func.attr
            elif isinstance(x, (ast.Assign, ast.AugAssign)) and any(
                    ast.unparse(t) == 'self.queued_ids'
                    for t in (x.targets if isinstance(x, ast.Assign)
                              else [x.target])):
                arg, how = x.value, 'assignment'
            if arg is None:
                continue
            n += 1
            rep.evaluations += 1
            rep.functions.add(m.qname)
            bad = entries(arg, m.node) or (
                how in ('add', 'discard', 'remove') and
                entry_var(arg, m.node))
            rep.check(not bad, rule, m.qname,
                      'queued_ids %s with ids: `%s`' % (how, ' '.join(
                          ast.unparse(x).split())[:50]),
                      'self.queued_ids is updated (%s) with `%s`, which are '
                      'timetable entries - (timestamp, id) pairs - not ids: '
                      'the ids of the entries taken off the timetable stay '
                      'in the set, _add_queued then rejects their re-queue '
                      'as duplicates and the messages are never attempted '
                      'again' % (how, ' '.join(ast.unparse(arg).split())[:40]),
                      loc=m.loc(x), reason='argument is not the timetable')
    if n < 3:
        rep.error('anchor vanished: updates of self.queued_ids (%d < 3)' % n)


def q11(e: Engine, rep: Report):
    """The scheduler compares due times with the CURRENT time: the `now`
    handed to _check_ready / _wait_ready is what time.time() returned,
    nothing added or subtracted.  `now + slack` dispatches every retry that
    much before the due time the backoff policy chose."""
    ctx = e.method_ctx(QUEUE, '_run')
    g = e.build(ctx, raises=lambda b, n, r: set(),
                inline=common.queue_inline(e), max_depth=3)
    where = ctx.func.qname
    rep.functions.add(where)
    sites = [n for n in g.nodes if n.kind in ('call', 'call_enter') and
             e.call_name(n) in ('_check_ready', '_wait_ready') and n.ast.args]
    if not sites:
        rep.error('anchor vanished: _check_ready(now) / _wait_ready(now) in '
                  'Queue._run')
        return
    for n in sites:
        rep.evaluations += 1
        x, fr = common.origin(g, n.ast.args[0], n.frame)
        # a local assigned several times: every assignment counts
        vals = [x]
        if isinstance(x, ast.Name):
            vals = [a.value for a in walk_own(fr.ctx.func.node)
                    if isinstance(a, ast.Assign) and any(
                        isinstance(t, ast.Name) and t.id == x.id
                        for t in a.targets)] or [x]
        ok = all(isinstance(v, ast.Call) and
                 ast.unparse(v.func) in ('time.time', 'time') and
                 not v.args for v in vals)
        rep.check(ok, 'Q11', where,
                  '%s is given the current time' % e.call_name(n),
                  'the scheduler hands `%s` to %s instead of what '
                  'time.time() returned: entries are dispatched before '
                  '(or slept past) the due time the backoff policy chose'
                  % (', '.join(' '.join(ast.unparse(v).split())
                               for v in vals)[:70], e.call_name(n)),
                  loc=n.loc(), reason='now = time.time()')


# ---------------------------------------------------------------------- Q13
def q13(e: Engine, rep: Report):
    c = common.merged_class(e, QUEUE)
    if 'flush' not in c.methods:
        rep.error('anchor vanished: Queue.flush')
        return
    todo, seen = [(c.methods['flush'], [])], set()
    n = 0
    while todo:
        m, outer = todo.pop()
        if m.qname in seen:
            continue
        seen.add(m.qname)
        rep.functions.add(m.qname)

        def visit(ch, loops, m=m):
            nonlocal n
            if isinstance(ch, (ast.FunctionDef, ast.Lambda,
                               ast.AsyncFunctionDef)) and ch is not m.node:
                return
            takes = False
            if isinstance(ch, ast.Assign) and any(
                    ast.unparse(el) == 'self.queued' for t in ch.targets
                    for el in (t.elts if isinstance(t, (ast.Tuple, ast.List))
                               else [t])):
                takes = True
            if isinstance(ch, ast.Expr) and \
                    isinstance(ch.value, ast.Call) and \
                    isinstance(ch.value.func, ast.Attribute) and \
                    ch.value.func.attr == 'clear' and \
                    ast.unparse(ch.value.func.value) == 'self.queued':
                takes = True
            if isinstance(ch, ast.Delete) and any(
                    'self.queued' in ast.unparse(t) and
                    'queued_ids' not in ast.unparse(t)
                    for t in ch.targets):
                takes = True
            if takes:
                n += 1
                rep.evaluations += 1
                lp = [l for l in loops if isinstance(l, ast.While) or
                      'self.queued' in ast.unparse(l.iter)]
                rep.check(not lp, 'Q13', m.qname,
                          '`%s` takes one snapshot'
                          % ' '.join(ast.unparse(ch).split())[:40],
                          'flush() takes the waiting entries out inside '
                          '`%s`: it goes round again for whatever is on '
                          'the timetable when a round ends - with a '
                          'bounded store pool those are the messages of '
                          'the round before, failed and re-queued with '
                          'the due time the backoff chose; they are '
                          'attempted at once, again and again, and '
                          'flush() (which holds the timetable lock) does '
                          'not return while the relay keeps deferring'
                          % (' '.join(ast.unparse(lp[0]).split(
                              ))[:40] if lp else ''),
                          loc=m.loc(ch), reason='not inside a loop over '
                          'the live timetable')
            if isinstance(ch, ast.Call) and \
                    isinstance(ch.func, ast.Attribute) and \
                    isinstance(ch.func.value, ast.Name) and \
                    ch.func.value.id == 'self' and \
                    ch.func.attr in c.methods and \
                    ch.func.attr.startswith('_') and \
                    ch.func.attr not in ('_pool_spawn', '_dequeue'):
                todo.append((c.methods[ch.func.attr], list(loops)))
            if isinstance(ch, ast.For):
                visit(ch.target, loops)
                visit(ch.iter, loops)
                for b in ch.body + ch.orelse:
                    visit(b, loops + [ch])
                return
            if isinstance(ch, ast.While):
                for b in [ch.test] + ch.body + ch.orelse:
                    visit(b, loops + [ch])
                return
            for sub in ast.iter_child_nodes(ch):
                visit(sub, loops)
        visit(m.node, list(outer))
    if n < 1:
        rep.error('anchor vanished: flush() takes the entries out of '
                  'self.queued')


# ---------------------------------------------------------------------- Q14
def q14(e: Engine, rep: Report):
    n = 0
    for meth in ('_check_ready', 'flush'):
        ctx = e.method_ctx(QUEUE, meth)
        g = e.build(ctx, raises=lambda b, nn, r: set(),
                    inline=e.inline_same_self(deny=['_pool_spawn',
                                                    '_add_queued']),
                    max_depth=3)
        where = ctx.func.qname
        rep.functions.add(where)
        spawns = [x for x in g.calls() if e.call_name(x) in (
            '_pool_spawn', '_pool_run', 'spawn')]
        reads = [x for x in g.nodes if x.kind == 'stmt' and
                 isinstance(x.ast, ast.Assign) and
                 isinstance(x.ast.value, ast.Subscript) and
                 ast.unparse(x.ast.value.value) == 'self.queued' and
                 not isinstance(x.ast.value.slice, ast.Slice)]
        # spawned since the entry was read (the read kills the event)
        before = dataflow.may_events_before(
            g, lambda x: ['spawn'] if x in spawns else [],
            kill=lambda x: ['spawn'] if x in reads else [])
        for x in g.nodes:
            pos = None
            if x.kind == 'stmt' and isinstance(x.ast, ast.Delete):
                for t in x.ast.targets:
                    if isinstance(t, ast.Subscript) and \
                            ast.unparse(t.value) == 'self.queued' and \
                            not isinstance(t.slice, ast.Slice):
                        pos = t
            elif x.kind == 'call' and isinstance(x.ast.func, ast.Attribute) \
                    and x.ast.func.attr == 'pop' and \
                    ast.unparse(x.ast.func.value) == 'self.queued':
                pos = x.ast
            if pos is None or not reads:
                continue
            n += 1
            rep.evaluations += 1
            rep.check('spawn' not in (before.get(x.id) or ()), 'Q14', where,
                      '`%s` removes the entry that was read'
                      % ' '.join(ast.unparse(pos).split())[:40],
                      '%s reads an entry of the timetable by position, '
                      'dispatches into a pool and then removes `%s`: the '
                      'dispatch can block on a bounded pool, and an entry '
                      'inserted in front meanwhile takes that position - it '
                      'is removed without ever having been dispatched, and '
                      'the message stays stored with nobody scheduled to '
                      'attempt it' % (meth, ' '.join(
                          ast.unparse(pos).split())[:40]), loc=x.loc(),
                      reason='no pool dispatch between the read and the '
                      'removal')
    rep.evaluations += 1
    if n == 0:
        rep.ok('Q14', QUEUE, 'no removal by position in _check_ready / flush',
               reason='entries are taken out by slice / re-binding',
               nontrivial=False)
