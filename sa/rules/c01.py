"""C01 - accepted mail is never lost: every attempt ends in exactly one
disposition, removal only on a final disposition.

R1.1 outcome dispatch of Queue._attempt is exhaustive; every arm disposes
R1.2 the storage record is removed only at the enumerated final-disposition
     sites and under their guards (who-may-call + guard facts)
R1.3 retry exhaustion bounces every group before it removes; a granted retry
     re-schedules and does not remove
R1.4 relay result-kind contract (shared with C11-N1)
R1.5 storage argument-kind conformance: what the queue passes to
     set_recipients_delivered is usable by every backend
R1.6 index-space consistency of delivered marks (shared with C03-R3.4)
R1.7 settled-set membership in _handle_partial_relay
"""
from __future__ import annotations

import ast
from typing import Dict, List, Optional

from ..engine import Engine
from ..report import Report
from ..cfg import Node, ANY
from ..facts import path_of, canon, holds, parse_atom, atoms_of_test
from ..kinds import Kinds, KindFlow, show, U, ks
from ..model import walk_own
from ..resolve import Ctx
from .. import dataflow
from . import common, c07, c11

QUEUE = 'slimta.queue.Queue'
STORAGE = 'slimta.queue.QueueStorage'
RELAY = 'slimta.relay.Relay'
TRANS = 'slimta.relay.TransientRelayError'
PERM = 'slimta.relay.PermanentRelayError'


def run(e: Engine, rep: Report):
    rep.rule('R1.1', 'every way Queue._attempt can end (normal, Transient, '
             'Permanent, any other exception) passes exactly one disposition '
             'event of the right kind')
    rep.rule('R1.2', 'callers of store.remove / Queue._remove are the '
             'enumerated final-disposition sites, each under its guard')
    rep.rule('R1.3', 'in _retry_later: exhaustion => one _perm_fail per '
             'group, then removal; otherwise set_timestamp, un-mark active, '
             're-queue, and no removal')
    rep.rule('R1.4', 'relay results are None | Reply | mapping | sequence '
             '(an exception object returned is consumed as success)')
    rep.rule('R1.5', 'the kind passed to set_recipients_delivered (a set) '
             'is only used in set-safe ways by every backend')
    rep.rule('R1.6', 'delivered marks are stored in the index space get() '
             'filters with')
    rep.rule('R1.7', 'a recipient is marked settled only for None / Reply / '
             'permanent failure; transient failures go to the retry list')
    rep.rule('R1.8', 'after the classification loop of '
             '_handle_partial_relay every path tests both failure lists; '
             'a non-empty permanent-failure list always reaches its bounce '
             'loop')
    rep.rule('R1.9', 'a per-recipient result mapping built by a relay is '
             'total over envelope.recipients on every path that returns it')
    rep.rule('R1.10', 'a builtin used by a package __init__ is not '
             'shadowed by a submodule of the same name (importing '
             'slimta.queue.dict rebinds `dict` in slimta.queue)')
    rep.rule('R1.12', 'relay clients report a recipient as accepted only '
             'when the server accepted it: failure entries only under an '
             'error reply / non-zero exit, success entries never overwrite '
             'a recorded failure, the request is resolved before any further '
             'protocol step (= C11 N3)')
    rep.rule('R1.11', 'no greenlet of the queue waits for a slot of a '
             'bounded pool while occupying one on a cycle of the pool-order '
             'graph (the handler that would settle, retry or bounce the '
             'message never runs)')
    rep.not_decided += ['that retries eventually happen (scheduling '
                        'structure is C12)', 'behaviour of real redis / S3',
                        'what a custom relay returns']
    r11(e, rep)
    r12(e, rep)
    r13(e, rep)
    sub = Report(rep.prop, rep.tier, rep.repo)
    K = Kinds(e)
    c11.n1(e, sub, K)
    for o in sub.obls:
        rep.add('R1.4', o.where, o.text, o.status, o.what, o.loc, o.witness,
                o.nontrivial, o.reason)
    rep.evaluations += sub.evaluations
    rep.functions |= sub.functions
    sub = Report(rep.prop, rep.tier, rep.repo)
    c11.n3(e, sub, K)
    for o in sub.obls:
        rep.add('R1.12', o.where, o.text, o.status, o.what, o.loc, o.witness,
                o.nontrivial, o.reason)
    rep.errors += sub.errors
    rep.evaluations += sub.evaluations
    rep.functions |= sub.functions
    r15(e, rep, K, 'R1.5')
    from . import c03
    c03.r34(e, rep, 'R1.6')
    r17(e, rep)
    r18(e, rep)
    c11.n7(e, rep, 'R1.9')
    r110(e, rep)
    from . import poolorder
    poolorder.run(e, rep, 'R1.11')
    from . import storeback
    storeback.run(e, rep, 'R1.13')
    rep.rule('R1.14', 'who-may-delete: in every backend the stored record '
             'of a message is deleted only inside remove() and its private '
             'helpers')
    r114(e, rep)
    from . import c03 as _c03
    _c03.r39(e, rep, 'R1.15')
    c11.n10(e, rep, 'R1.16')
    rep.rule('R1.17', '= C03-R3.6: settled positions are positions in the '
             'recipient list of the envelope at hand (not in the order the '
             'relay reported its results)')
    _c03.r36(e, rep, 'R1.17')
    r118(e, rep)
    from . import c12 as _c12, c13 as _c13, c19 as _c19
    rep.rule('R1.19', '= C12-Q11: the scheduler compares due times with '
             'time.time() - the clock of the timestamps the store keeps '
             'across restarts (a message loaded from storage is not '
             'scheduled decades ahead)')
    sub = Report(rep.prop, rep.tier, rep.repo)
    _c12.q11(e, sub)
    for o in sub.obls:
        rep.add('R1.19', o.where, o.text, o.status, o.what, o.loc, o.witness,
                o.nontrivial, o.reason)
    rep.errors += sub.errors
    rep.evaluations += sub.evaluations
    rep.functions |= sub.functions
    rep.rule('R1.20', '= C13-B12: the default bounce factory always makes '
             'a bounce')
    _c13.b12(e, rep, 'R1.20')
    rep.rule('R1.21', '= C19-L12: relay greenlets are killed only from '
             'kill()')
    _c19.l12(e, rep, 'R1.21')
    rep.rule('R1.22', '= C12-Q12: the id index of the timetable is updated '
             'with ids, never with timetable entries (a stale id makes '
             '_add_queued refuse the re-queue: the message is never '
             'attempted again)')
    _c12.q12(e, rep, 'R1.22')
    rep.rule('R1.23', 'Relay._attempt hands attempt() the very envelope the '
             'queue gave it (relay policies change it in place): the '
             'per-recipient results are keyed by the recipients of that '
             'object, which is where the queue looks them up')
    r123(e, rep)
    common.reuse(e, rep, _c13.b3, 'R1.24',
                 '= C13-B3: the per-reply grouping of failed recipients '
                 'puts every recipient into exactly one group (a recipient '
                 'that falls out of the grouping is struck off the message '
                 'and named in no bounce)', only={'B3'})
    rep.rule('R1.25', 'what a relay hands back as the outcome of one '
             'recipient is something the queue can classify: an exception '
             'that a relay catches and then returns / files in its result '
             'mapping is caught as a RelayError - any other class (OSError, '
             'ValueError, ...) is no value Queue._handle_partial_relay '
             'knows: the recipient is neither delivered, failed nor kept, '
             'and with nobody left to retry the message is removed')
    r125(e, rep)
    rep.rule('R1.26', 'the call that records an unexpected exception cannot '
             'replace it: slimta.logging.log_exception stands first in the '
             'catch-all arms of the queue, before the message is filed for '
             'its retry - it contains no look-up by a computed key '
             '(table[value.x]) outside a try that takes the KeyError (an '
             'OSError without errno, a socket.timeout, has errno None: the '
             'KeyError leaves the arm and the message stays in storage with '
             'nobody scheduled to attempt it)')
    r126(e, rep)
    rep.rule('R1.27', '= C03-R3.3: the settled marks of a partial round are '
             'persisted (attempted) before the message becomes dispatchable '
             'again - also when the re-queue sits in a helper: a retry that '
             'is due at once on a yielding backend otherwise loads the '
             'un-reduced envelope, and the positions its round marks are '
             'applied to the reduced list (an outstanding recipient is '
             'struck off and never delivered or bounced)')
    sub = Report(rep.prop, rep.tier, rep.repo)
    _c03.r33(e, sub)
    for o in sub.obls:
        rep.add('R1.27', o.where, o.text, o.status, o.what, o.loc, o.witness,
                o.nontrivial, o.reason)
    rep.errors += sub.errors
    rep.evaluations += sub.evaluations
    rep.functions |= sub.functions
    rep.floor('R1.2', 5, 'removal sites')
    rep.floor('R1.5', 3, 'backend uses of the index argument')


# ------------------------------------------------------------------- R1.23
def r123(e: Engine, rep: Report):
    n = 0
    for cq in sorted(set([RELAY] + list(e.p.subclasses(RELAY)))):
        c = e.p.classes.get(cq)
        m = c.methods.get('_attempt') if c else None
        if m is None:
            continue
        n += 1
        rep.functions.add(m.qname)
        own = [p for p in m.params if p not in ('self', 'cls')]
        envp = own[0] if own else None
        calls = [x for x in walk_own(m.node) if isinstance(x, ast.Call) and
                 isinstance(x.func, ast.Attribute) and
                 x.func.attr == 'attempt' and
                 isinstance(x.func.value, ast.Name) and
                 x.func.value.id == 'self']
        rep.evaluations += 1
        rebound = [x for x in walk_own(m.node) if isinstance(x, ast.Name) and
                   x.id == envp and isinstance(x.ctx, (ast.Store, ast.Del))]
        passed = bool(calls) and all(
            c2.args and isinstance(c2.args[0], ast.Name) and
            c2.args[0].id == envp for c2 in calls)
        rep.check(envp is not None and not rebound and passed, 'R1.23',
                  m.qname, 'attempt() gets the envelope _attempt was given',
                  '%s hands attempt() another object than the envelope the '
                  'queue holds (`%s` is re-bound / not passed on): relay '
                  'policies that rewrite recipients then act on the copy '
                  'only, the per-recipient results name recipients the '
                  "queue's envelope does not have, "
                  'envelope.recipients.index() raises in '
                  '_handle_partial_relay and the attempt dies before any '
                  'disposition' % (m.qname, envp),
                  loc=m.loc(rebound[0]) if rebound else m.loc(),
                  reason='parameter passed on, never re-bound')
    if n < 1:
        rep.error('anchor vanished: Relay._attempt')


# -------------------------------------------------------------------- R1.1
def disposition(e: Engine, n: Node) -> Optional[str]:
    if n.kind not in ('call', 'call_enter'):
        return None
    nm = e.call_name(n)
    if nm == '_retry_later':
        return 'retry'
    if nm == '_handle_partial_relay':
        return 'partial'
    if nm == '_remove':
        return 'remove'
    if nm == '_perm_fail':
        a0 = n.ast.args[0] if n.ast.args else None
        if isinstance(a0, ast.Constant) and a0.value is None:
            return None      # bounce only, the record stays
        return 'perm_fail'
    if nm in ('_pool_spawn', '_pool_run') and len(n.ast.args) >= 2:
        ref = ast.unparse(n.ast.args[1])
        if ref.endswith('._retry_later'):
            return 'retry'
        if ref.endswith('._perm_fail'):
            return 'perm_fail'
        if ref.endswith('._remove'):
            return 'remove'
    return None


def r11(e: Engine, rep: Report):
    ctx = e.method_ctx(QUEUE, '_attempt')
    where = ctx.func.qname
    rep.functions.add(where)

    def raises(builder, n: Node, res):
        if n.kind == 'call' and e.call_name(n) in ('_attempt', 'attempt') \
                and 'relay' in ast.unparse(n.ast.func):
            out = {TRANS, PERM, ANY}
            # under `with Timeout(...)` the call can also be left by that
            # Timeout - a BaseException, which `except Exception` lets pass
            for sc in n.scopes:
                if sc.kind == 'with' and not sc.data.get(
                        'swallows_timeout'):
                    items = getattr(sc.ast, 'items', None) or [sc.ast]
                    for it in items:
                        ce = getattr(it, 'context_expr', None)
                        if isinstance(ce, ast.Call) and ast.unparse(
                                ce.func).rpartition('.')[2] == 'Timeout':
                            out.add('gevent.timeout.Timeout')
            return out
        return set()
    # _attempt together with the private helpers its arms were moved into
    # (the disposition primitives themselves are events, not inlined)
    g = e.build(ctx, raises=raises, assert_raises=False,
                inline=e.inline_same_self(deny=[
                    '_retry_later', '_handle_partial_relay', '_remove',
                    '_perm_fail', '_pool_spawn', '_pool_run', '_pool_imap',
                    '_add_queued', '_bounce', '_split_by_reply']),
                max_depth=4)
    relay = [n for n in g.nodes if n.kind == 'call' and
             e.call_name(n) in ('_attempt', 'attempt') and
             'relay' in ast.unparse(n.ast.func)]
    if not relay:
        rep.error('anchor vanished: relay._attempt call in Queue._attempt')
        return
    p = e.p
    # the arm is what the relay raised; a handler that catches several
    # kinds and tells them apart with isinstance() is followed with the
    # kind in hand
    arm_by_token = {TRANS: 'trans', PERM: 'perm', ANY: 'exc'}

    def arm_of(h: Node) -> str:
        ts = h.extra.get('types', [])
        if any(p.is_subclass(t, TRANS) for t in ts):
            return 'trans'
        if any(p.is_subclass(t, PERM) for t in ts):
            return 'perm'
        return 'other'
    caught = set()
    for h in g.of_kind('handler'):
        if h.frame is g.entry.frame and h.ast.name:
            caught.add(canon(ast.Name(id=h.ast.name, ctx=ast.Load()),
                             h.frame))

    def decided(n, arm):
        """truth of `isinstance(<caught exception>, C)` on this arm"""
        t = n.ast
        neg = False
        while isinstance(t, ast.UnaryOp) and isinstance(t.op, ast.Not):
            t, neg = t.operand, not neg
        if not (isinstance(t, ast.Call) and isinstance(t.func, ast.Name) and
                t.func.id == 'isinstance' and len(t.args) == 2):
            return None
        try:
            if canon(t.args[0], n.frame) not in caught:
                return None
        except Exception:
            return None
        cs = t.args[1].elts if isinstance(t.args[1], ast.Tuple) \
            else [t.args[1]]
        qs = [p.resolve_expr_qname(n.frame.ctx.func.module, c) for c in cs]
        if any(q is None for q in qs):
            return None
        mine = {'trans': TRANS, 'perm': PERM}.get(arm)
        if mine is None:
            # something that is not a relay error: no RelayError class
            # matches; broader classes are not decided
            r = None if any(not p.is_subclass(q, 'slimta.relay.RelayError')
                            for q in qs) else False
        else:
            r = any(p.is_subclass(mine, q) for q in qs)
            if not r and any(p.is_subclass(q, mine) for q in qs):
                r = None        # a subclass of the raised kind: may match
        return None if r is None else (r != neg)

    def step(n, label, st):
        arm, evs = st
        if n in relay:
            arm = 'normal' if not isinstance(label, tuple) else \
                arm_by_token.get(label[1], 'exc')
        if n.kind == 'handler' and n.frame is g.entry.frame and \
                arm == 'exc':
            # an unspecified exception is of the kind its handler names
            arm = arm_of(n)
        if n.kind == 'test' and label in ('T', 'F') and \
                arm in ('trans', 'perm', 'other'):
            r = decided(n, arm)
            if r is not None and r != (label == 'T'):
                return None
        d = disposition(e, n)
        if d and not isinstance(label, tuple):
            evs = evs + (d,)
            if len(evs) > 3:
                evs = evs[:3]
        return (arm, evs)
    init = ('pre', ())
    IN = dataflow.typestate(g, init, step)
    want = {'trans': {'retry'}, 'other': {'retry'}, 'perm': {'perm_fail'},
            'normal': {'partial', 'remove'}}
    finals = set()
    for term in (g.exit, g.raise_exit):
        for st in IN.get(term.id) or ():
            finals.add((term is g.raise_exit, st))
    rep.evaluations += len(finals)
    arms_seen = set()
    for is_raise, (arm, evs) in sorted(finals, key=str):
        if arm == 'pre':
            continue          # failed before the relay was called
        arms_seen.add(arm)
        text = 'arm %s ends with %s' % (arm, list(evs) or 'no disposition')
        ok = arm in want and len(evs) == 1 and evs[0] in want[arm]
        w = None
        if not ok:
            pth = dataflow.typestate_witness(
                g, init, step, lambda n, s: n in (g.exit, g.raise_exit) and
                s == (arm, evs))
            w = dataflow.render_path(pth, 20) if pth else None
        rep.check(ok, 'R1.1', where, text,
                  'an attempt that ends through the %s arm passes %s '
                  'instead of exactly one of %s: the message is %s' % (
                      arm, list(evs) or 'no disposition event',
                      sorted(want.get(arm, ['?'])),
                      'never retried, bounced or removed (stuck in flight)'
                      if not evs else 'disposed of wrongly / twice'),
                  reason='exactly one disposition of the right kind',
                  loc=ctx.func.loc(), witness=w)
    for arm in ('normal', 'trans', 'perm', 'other'):
        if arm not in arms_seen and arm != 'trans' and arm != 'perm':
            rep.bad('R1.1', where, 'arm %s exists' % arm,
                    'Queue._attempt has no %s outcome path' % arm,
                    loc=ctx.func.loc())
    # the success removal only for results that are neither mapping nor
    # sequence
    fx = e.facts(g)
    for n in g.calls():
        if disposition(e, n) == 'remove':
            st = fx.at(n) or frozenset()
            m = any(not pp and k.startswith('isinstance(') and
                    'Mapping' in k for pp, k in st)
            s = any(not pp and k.startswith('isinstance(') and
                    'Sequence' in k for pp, k in st)
            rep.evaluations += 1
            rep.check(m and s, 'R1.1', where,
                      'whole-message success only for non-mapping, '
                      'non-sequence results',
                      'a per-recipient result (mapping / sequence) can reach '
                      'the unconditional removal: recipients that failed '
                      'transiently are dropped', loc=n.loc(),
                      reason='dominated by not Mapping and not Sequence')


# -------------------------------------------------------------------- R1.2
REMOVAL_SITES = {
    # function -> (callee name, guard atoms (textual, on canonical names))
    QUEUE + '._attempt': ('_remove', []),          # guard checked in R1.1
    QUEUE + '._perm_fail': ('_remove', ['not ID is None']),
    QUEUE + '._retry_later': ('_remove', ['WAIT is None']),
    QUEUE + '._handle_partial_relay': ('remove', ['not TEMPFAILS']),
    QUEUE + '._remove': ('remove', []),
}


def _removal_helpers(e: Engine):
    """Private methods of Queue that are referenced from the removal
    primitive `_remove` (or from such a helper) only: they are part of it,
    the guards are checked where `_remove` is called."""
    c = common.merged_class(e, QUEUE)
    refs = {}
    for mname, m in c.methods.items():
        for x in walk_own(m.node):
            if isinstance(x, ast.Attribute) and isinstance(
                    x.value, ast.Name) and x.value.id == 'self' and \
                    x.attr in c.methods and x.attr != mname:
                refs.setdefault(x.attr, set()).add(mname)
    out = {'_remove'}
    changed = True
    while changed:
        changed = False
        for mname in c.methods:
            if mname not in out and mname.startswith('_') and \
                    refs.get(mname) and refs[mname] <= out:
                out.add(mname)
                changed = True
    return out


def r12(e: Engine, rep: Report):
    rep.tables.add('c01.REMOVAL_SITES')
    p = e.p
    helpers = _removal_helpers(e)
    c = common.merged_class(e, QUEUE)

    def site_calls(fn_node):
        out = []
        for n in walk_own(fn_node):
            if not isinstance(n, ast.Call):
                continue
            t = ast.unparse(n.func)
            if t in ('self._remove', 'self.store.remove'):
                out.append(n)
            for a in n.args:
                if isinstance(a, ast.Attribute) and ast.unparse(a) in (
                        'self._remove', 'self.store.remove'):
                    out.append(n)
        return out
    covered = set()          # id(call ast) of sites examined under a root
    for root_q, row in sorted(REMOVAL_SITES.items()):
        mname = root_q.rpartition('.')[2]
        f = c.methods.get(mname)
        if f is None:
            continue
        ctx = Ctx(f, QUEUE)
        # the root together with the private helpers extracted from it (but
        # not into another table function, which is judged on its own)
        others = {q.rpartition('.')[2] for q in REMOVAL_SITES} - {mname}
        g = e.build(ctx, inline=e.inline_same_self(
            deny=sorted(others | helpers | {'_pool_spawn', '_pool_run',
                                            '_pool_imap', '_add_queued',
                                            '_split_by_reply', '_bounce'})),
            max_depth=4)
        fx = e.facts(g)
        rep.functions.add(f.qname)
        for cn in g.nodes:
            if cn.kind != 'call':
                continue
            t = ast.unparse(cn.ast.func)
            is_site = t in ('self._remove', 'self.store.remove') or any(
                isinstance(a, ast.Attribute) and ast.unparse(a) in (
                    'self._remove', 'self.store.remove')
                for a in cn.ast.args)
            if not is_site:
                continue
            covered.add(id(cn.ast))
            rep.evaluations += 1
            st = fx.at(cn)
            if st is None:
                continue
            missing = []
            for spec in row[1]:
                atom = bind_atom(spec, f, g)
                if isinstance(atom, list):
                    if not any(holds(st, a) for a in atom):
                        missing.append(spec)
                elif atom is None or not holds(st, atom):
                    missing.append(spec)
            w = None
            if missing:
                pth = dataflow.find_path(g, g.entry, lambda x: x is cn)
                w = dataflow.render_path(pth) if pth else None
            rep.check(not missing, 'R1.2', f.qname,
                      'removal in %s under its guard' % f.name,
                      'the stored message can be removed without the guard '
                      '%s: a message with outstanding recipients is deleted'
                      % missing, loc=cn.loc(),
                      reason='guard %s dominates' % (row[1] or 'n/a'),
                      witness=w)
    # who may remove: every removal site was seen under one of the roots
    for mname, m in sorted(c.methods.items()):
        for n in site_calls(m.node):
            if id(n) in covered:
                continue
            if mname in helpers:
                rep.evaluations += 1
                rep.ok('R1.2', m.qname, 'removal inside the removal '
                       'primitive', reason='%s is part of _remove; the '
                       'guards are checked where _remove is called' % mname,
                       loc=m.loc(n))
                continue
            rep.evaluations += 1
            rep.bad('R1.2', m.qname, 'removal site ' + ast.unparse(n.func),
                    'the stored message is removed from %s, which is not '
                    '(part of) a final-disposition site' % m.qname,
                    loc=m.loc(n))


def bind_atom(spec: str, f, g):
    fid = g.entry.frame.id
    names = {'ID': None, 'WAIT': None, 'TEMPFAILS': None}
    if 'ID' in spec:
        prm = f.params[1] if len(f.params) > 1 else None
        if prm is None:
            return None
        spec = spec.replace('ID', '%s#%d' % (prm, fid))
    if 'WAIT' in spec:
        # the local assigned from self.backoff(...)
        v = None
        for n in walk_own(f.node):
            if isinstance(n, ast.Assign) and isinstance(n.value, ast.Call) \
                    and ast.unparse(n.value.func) == 'self.backoff' and \
                    isinstance(n.targets[0], ast.Name):
                v = n.targets[0].id
        if v is None:
            return None
        spec = spec.replace('WAIT', '%s#%d' % (v, fid))
    if 'TEMPFAILS' in spec:
        # the collection the retried envelope is made from
        alts = retry_sources(g)
        if not alts:
            return None
        pol = not spec.strip().startswith('not ')
        return [(pol, k) for k in alts]
    return parse_atom(spec)


def retry_sources(g):
    """canonical texts of the locals the envelope handed to _retry_later is
    computed from (backward slice inside the calling function, parameters
    excluded): `not <one of them>` is the "nothing left to retry" guard"""
    out = []
    for n in g.calls():
        if not (isinstance(n.ast.func, ast.Attribute) and
                n.ast.func.attr == '_retry_later' and len(n.ast.args) >= 2):
            continue
        fn = n.frame.ctx.func
        want = {x.id for x in ast.walk(n.ast.args[1])
                if isinstance(x, ast.Name)}
        direct = set(want)
        changed = True
        while changed:
            changed = False
            for a in walk_own(fn.node):
                if not isinstance(a, ast.Assign):
                    continue
                tn = {x.id for t in a.targets for x in ast.walk(t)
                      if isinstance(x, ast.Name)}
                if tn & want:
                    new = {x.id for x in ast.walk(a.value)
                           if isinstance(x, ast.Name)} - want
                    if new:
                        want |= new
                        changed = True
        for nm in sorted(want - direct - set(fn.params) - {'self', 'zip'}):
            try:
                out.append(canon(ast.Name(id=nm, ctx=ast.Load()), n.frame))
            except Exception:
                pass
    return out


# -------------------------------------------------------------------- R1.3
def r13(e: Engine, rep: Report):
    ctx = e.method_ctx(QUEUE, '_retry_later')
    g = e.build(ctx, inline=e.inline_same_self(
        deny=['_perm_fail', '_remove', '_add_queued', '_split_by_reply',
              '_pool_spawn', '_pool_run', '_pool_imap']), max_depth=4)
    fx = e.facts(g)
    where = ctx.func.qname
    rep.functions.add(where)
    f = ctx.func
    wait_atom = bind_atom('WAIT is None', f, g)
    if wait_atom is None:
        rep.error('anchor vanished: wait = self.backoff(...) in '
                  '_retry_later')
        return

    bnames = common.bouncers(e)

    def ev(n):
        if n.kind not in ('call', 'call_enter'):
            return []
        nm = e.call_name(n)
        if common.bounce_event(e, n, bnames):
            return ['bounce']
        if nm == '_remove':
            return ['remove']
        if nm == 'set_timestamp':
            return ['timestamp']
        if nm == 'discard' and 'active_ids' in ast.unparse(n.ast.func):
            return ['unmark']
        if nm == '_add_queued':
            return ['requeue']
        return []
    # exhaustion side
    removes = [n for n in g.calls() if 'remove' in ev(n)]
    loops = [n for n in g.of_kind('iter') if isinstance(n.ast, ast.For) and
             '_split_by_reply' in ast.unparse(n.ast.iter)]
    rep.evaluations += 1
    if not loops:
        rep.bad('R1.3', where, 'bounce loop over _split_by_reply',
                'retry exhaustion no longer bounces the outstanding '
                'recipients group by group', loc=ctx.func.loc())
    for lp in loops:
        counts = common.per_iteration_counts(
            g, lp, lambda n: 1 if 'bounce' in ev(n) else 0)
        rep.check(counts == frozenset([1]), 'R1.3', where,
                  'one _perm_fail per reply group',
                  'an iteration of the exhaustion loop performs %s '
                  '_perm_fail calls instead of exactly one: recipients are '
                  'dropped silently or bounced twice' % sorted(counts),
                  loc=lp.loc(),
                  reason='exactly one _perm_fail on every path through the '
                  'loop body')
    for n in removes:
        rep.evaluations += 1
        st = fx.at(n)
        okg = holds(st, wait_atom)
        # the loop has completed before the removal
        after_loop = all(not _reach_without(g, g.entry, n, lp)
                         for lp in loops) and bool(loops)
        rep.check(okg and after_loop, 'R1.3', where,
                  'removal only after the bounce loop, on exhaustion',
                  'the message is removed in _retry_later although a retry '
                  'was granted, or before the outstanding recipients were '
                  'bounced', loc=n.loc(),
                  reason='dominated by `wait is None` and by the bounce loop')
    # granted-retry side: events on every path from the F edge
    # (spelled `wait is None` or `wait is not None`: the granted side is
    # the edge on which the wait is known not to be None)
    neg_atom = (not wait_atom[0], wait_atom[1])
    tests = [(n, 'F') for n in g.of_kind('test')
             if atoms_of_test(n.ast, True, n.frame) == [wait_atom]] + \
            [(n, 'T') for n in g.of_kind('test')
             if atoms_of_test(n.ast, True, n.frame) == [neg_atom]]
    if not tests:
        rep.error('anchor vanished: `wait is None` test in _retry_later')
    after = dataflow.must_events_after(g, ev, edge=c07.no_call_exc)
    may_after = _may_events_from(g, ev)
    for t, granted in tests:
        for l, s in t.succ:
            if l != granted:
                continue
            rep.evaluations += 1
            st = after.get(s.id)
            got = set(st) if st is not None and not isinstance(
                st, dataflow.Top) else set()
            need = {'timestamp', 'unmark', 'requeue'}
            rep.check(need <= got, 'R1.3', where,
                      'granted retry re-schedules the message',
                      'with a retry granted the message is not (always) '
                      're-scheduled: missing %s - it stays stored but is '
                      'never attempted again' % sorted(need - got),
                      loc=t.loc(), reason='set_timestamp, active_ids.discard '
                      'and _add_queued on every path')
            rep.check('remove' not in may_after(s) and
                      'bounce' not in may_after(s), 'R1.3', where,
                      'granted retry neither removes nor bounces',
                      'a message whose retry was granted can be removed / '
                      'bounced', loc=t.loc(),
                      reason='no removal reachable on the retry side')


def _reach_without(g, src, dst, avoid_node) -> bool:
    """Is dst reachable from src without passing the 'done' edge of
    avoid_node (i.e. without the loop having completed)?"""
    def edge_ok(a, l, s):
        if a is avoid_node and l == 'done':
            return False
        return not isinstance(l, tuple)
    return dst.id in dataflow.reachable(g, src, edge_ok)


def _may_events_from(g, ev):
    def f(start):
        seen = dataflow.reachable(
            g, start, lambda a, l, s: not isinstance(l, tuple))
        out = set()
        for n in g.nodes:
            if n.id in seen:
                out |= set(ev(n) or ())
        return out
    return f


# -------------------------------------------------------------------- R1.5
def r15(e: Engine, rep: Report, K: Kinds, rule: str):
    # kind of the argument at the (single) call site in the queue
    ctx = e.method_ctx(QUEUE, '_handle_partial_relay')
    g = e.build(ctx, inline=e.inline_same_self(), max_depth=3)
    flow = KindFlow(K, g)
    sites = [n for n in g.nodes if n.kind == 'call' and
             e.call_name(n) == 'set_recipients_delivered']
    if not sites:
        rep.error('anchor vanished: store.set_recipients_delivered call')
        return
    arg_kinds = frozenset()
    for n in sites:
        if len(n.ast.args) >= 2:
            arg_kinds |= flow.eval_at(n, n.ast.args[1])
    rep.notes.append('%s: queue passes kind %s to set_recipients_delivered'
                     % (rule, show(arg_kinds)))
    if U in arg_kinds or not arg_kinds:
        rep.unknown(rule, ctx.func.qname, 'kind of the delivered-index '
                    'argument', 'cannot determine the kind passed to '
                    'set_recipients_delivered (%s)' % show(arg_kinds))
        return
    for cq in e.p.subclasses(STORAGE):
        ictx = e.method_ctx(cq, 'set_recipients_delivered')
        if ictx.func.cls.qname == STORAGE:
            rep.bad(rule, cq, 'implements set_recipients_delivered',
                    '%s inherits the NotImplementedError placeholder' % cq)
            continue
        pname = ictx.func.params[2]
        ig = e.build(ictx, inline=e.inline_all(
            deny=['log_exception'], only_modules=['slimta.cloudstorage',
                                                   'slimta.queue',
                                                   'slimta.diskstorage',
                                                   'slimta.redisstorage']),
            max_depth=3)
        iflow = KindFlow(K, ig, {pname: arg_kinds})
        where = ictx.func.qname
        rep.functions.add(where)
        n_ops = 0
        seen_ops = set()
        for n in ig.nodes:
            if iflow.IN.get(n.id) is None:
                continue
            exprs = []
            if n.kind == 'stmt' and not isinstance(
                    n.ast, (ast.FunctionDef, ast.AsyncFunctionDef,
                            ast.ClassDef)):
                exprs = [x for x in ast.walk(n.ast)
                         if isinstance(x, ast.BinOp)]
            for x in exprs:
                if not isinstance(x.op, ast.Add) or id(x) in seen_ops:
                    continue
                seen_ops.add(id(x))
                lk = iflow.eval_at(n, x.left)
                rk = iflow.eval_at(n, x.right)
                if not ({'Set'} & (set(lk) | set(rk))):
                    continue
                n_ops += 1
                rep.evaluations += 1
                bad = lk == ks('Set') or rk == ks('Set')
                rep.check(not bad, rule, where,
                          'stored marks concatenated (+) with the index '
                          'argument',
                          'the queue passes a %s; `%s` evaluates %s + %s, '
                          'which raises TypeError: the delivered marks are '
                          'never persisted on this backend' % (
                              show(arg_kinds), ast.unparse(x), show(lk),
                              show(rk)), loc=n.loc(),
                          reason='operand kinds %s + %s' % (show(lk),
                                                            show(rk)))
            if n.kind == 'call' and e.call_name(n) == 'dumps' and \
                    n.ast.args and any('json' in x for x in
                                       e.externals(n)):
                ak = iflow.eval_at(n, n.ast.args[0])
                if 'Set' in ak:
                    n_ops += 1
                    rep.evaluations += 1
                    rep.bad(rule, where, 'json.dumps of the index argument '
                            'in ' + n.frame.ctx.func.name,
                            'a %s reaches json.dumps (%s): sets are not '
                            'JSON serialisable, TypeError' % (
                                show(ak), n.text(50)), loc=n.loc(),
                            witness=common.chain_text(n))
        if n_ops == 0:
            rep.ok(rule, where, 'index argument used in set-safe ways only',
                   reason='no concatenation / JSON encoding of the set')


PARTIAL_DENY = ['_perm_fail', '_retry_later', '_remove', '_split_by_reply',
                '_pool_spawn', '_pool_run', '_pool_imap', '_add_queued',
                '_bounce']


def partial_graph(e: Engine, raises=None):
    """_handle_partial_relay together with the helpers it was split into"""
    ctx = e.method_ctx(QUEUE, '_handle_partial_relay')
    kw = {} if raises is None else {'raises': raises}
    return ctx, e.build(ctx, inline=e.inline_same_self(deny=PARTIAL_DENY),
                        max_depth=4, **kw)


def settled_paths(e: Engine, g):
    """canonical paths of the container(s) whose content is handed to
    _retry_later / set_recipients_delivered as the settled positions"""
    out = set()
    for n in g.calls():
        nm = e.call_name(n)
        a = None
        if nm == '_retry_later' and len(n.ast.args) >= 4:
            a = n.ast.args[3]
        elif nm == '_retry_later':
            for k in n.ast.keywords:
                if k.arg == 'delivered':
                    a = k.value
        elif nm == 'set_recipients_delivered' and len(n.ast.args) >= 2:
            a = n.ast.args[1]
        if a is not None:
            p = path_of(a, n.frame)
            if p:
                out.add(p)
    return out


# -------------------------------------------------------------------- R1.7
def r17(e: Engine, rep: Report):
    ctx, g = partial_graph(e)
    where = ctx.func.qname
    rep.functions.add(where)
    # the per-recipient result variable: value position of the .items() loop
    from .c03 import items_loop_vars
    loop = None
    lv = None
    for n in g.of_kind('iter'):
        if isinstance(n.ast, ast.For) and items_loop_vars(n.ast):
            loop, lv = n, items_loop_vars(n.ast)
    if loop is None:
        rep.error('anchor vanished: `for rcpt, rcpt_res in results.items()`')
        return
    rv = '%s#%d' % (lv[1], loop.frame.id)
    reply_q = 'Reply'
    settle_alts = [(True, '%s is None' % rv),
                   (True, 'isinstance(%s, Reply)' % rv),
                   (True, 'isinstance(%s, PermanentRelayError)' % rv)]
    nsites = 0
    kinds = set()
    settled = settled_paths(e, g)
    derived = common.derived_paths(g, {rv})
    content = common.content_paths(g, {rv})

    def judge(n, w, text, detail, reason):
        # a witness that runs through a test of a value computed from the
        # result (a tag the results were first mapped to) is not evidence:
        # whether that path exists depends on values
        op = common.opaque_tests(w, derived, content) if w else []
        if op:
            # (tests the values on this very path settle are evidence)
            dec = common.decided_tests(e, g, w)
            op = [t for t in op if t not in dec]
        if op:
            rep.error('R1.7 cannot be decided at %s: the path to this site '
                      'depends on `%s`, computed from the result'
                      % (n.loc(), ast.unparse(op[0].ast)))
            return
        rep.check(w is None, 'R1.7', where, text, detail, loc=n.loc(),
                  reason=reason,
                  witness=dataflow.render_path(w) if w else None)
    for n in g.nodes:
        if n.kind != 'call' or not isinstance(n.ast.func, ast.Attribute):
            continue
        recv = ast.unparse(n.ast.func.value)
        rpath = path_of(n.ast.func.value, n.frame)
        nm = n.ast.func.attr
        in_loop = any(sc.kind == 'loop' and sc.ast is loop.ast
                      for sc in n.scopes)
        if not in_loop:
            continue
        if nm in ('add', 'append') and (
                rpath in settled or (not settled and 'deliver' in recv)):
            nsites += 1
            kinds.add('settled')
            rep.evaluations += 1
            w = common.unguarded_path(e, g, n, settle_alts, start=loop)
            judge(n, w, 'recipient marked settled only when delivered or '
                  'failed for good',
                  'a recipient can be marked delivered although its '
                  'result is neither None, a Reply nor a permanent '
                  'failure: it is dropped from every later attempt',
                  'guarded by None / Reply / PermanentRelayError')
        elif nm == 'append' and isinstance(n.ast.func.value, ast.Subscript) \
                and isinstance(n.ast.func.value.value, ast.Name) and \
                isinstance(n.ast.func.value.slice, ast.Name) and \
                common.local_dict_keys(n.frame.ctx.func,
                                       n.ast.func.value.value.id):
            # failures[kind].append(...): one list per key of a local dict,
            # the key being the tag the result was mapped to
            dname = n.ast.func.value.value.id
            kq = path_of(n.ast.func.value.slice, n.frame)
            nulc = common.Nullness(g, e)
            for kx in common.local_dict_keys(n.frame.ctx.func, dname):
                kv = nulc._const(kx, n.frame)
                if not (isinstance(kv, tuple) and kv[0] == 'c'):
                    continue
                which = 'temp' if 'temp' in kv[1].lower() else (
                    'perm' if 'perm' in kv[1].lower() else None)
                if which is None:
                    continue
                nsites += 1
                kinds.add(which)
                rep.evaluations += 1
                cls = 'TransientRelayError' if which == 'temp' \
                    else 'PermanentRelayError'
                lname = '%s[%s]' % (dname, kv[1])
                w = common.unguarded_path(
                    e, g, n, [(True, 'isinstance(%s, %s)' % (rv, cls))],
                    start=loop,
                    site_ok=lambda get, kq=kq, kv=kv: get(kq) in (None, kv))
                judge(n, w, '%s collects only %s results' % (lname, cls),
                      'a result that is not a %s is filed under %s'
                      % (cls, lname), 'guarded by isinstance(..., %s)' % cls)
        elif nm == 'append' and ('temp' in recv or 'perm' in recv):
            nsites += 1
            kinds.add('temp' if 'temp' in recv else 'perm')
            rep.evaluations += 1
            cls = 'TransientRelayError' if 'temp' in recv \
                else 'PermanentRelayError'
            w = common.unguarded_path(
                e, g, n, [(True, 'isinstance(%s, %s)' % (rv, cls))],
                start=loop)
            judge(n, w, '%s collects only %s results' % (recv, cls),
                  'a result that is not a %s is filed under %s'
                  % (cls, recv), 'guarded by isinstance(..., %s)' % cls)
    if kinds != {'settled', 'temp', 'perm'}:
        rep.error('anchor vanished: classification sites in '
                  '_handle_partial_relay (found %s of settled/temp/perm)'
                  % sorted(kinds))
    # transient results must reach the retry list: the transient arm exists
    has_t = any(n.kind == 'test' and 'TransientRelayError' in
                ast.unparse(n.ast) for n in g.of_kind('test'))
    rep.check(has_t, 'R1.7', where, 'transient results are collected',
              'transient per-recipient failures are no longer collected for '
              'retry', reason='isinstance(..., TransientRelayError) arm')


# -------------------------------------------------------------------- R1.8
def r18(e: Engine, rep: Report):
    """Every recipient that was classified is acted on: both failure lists
    are examined on every path after the classification loop, whatever the
    other list led to."""
    ctx, g = partial_graph(e, raises=lambda b, n, r: set())
    where = ctx.func.qname
    loop = None
    for n in g.of_kind('iter'):
        if isinstance(n.ast, ast.For) and '.items()' in ast.unparse(
                n.ast.iter):
            loop = n
    if loop is None:
        rep.error('anchor vanished: classification loop (R1.8)')
        return
    # the lists filled inside the loop
    filled = {}
    for n in g.nodes:
        if n.kind == 'call' and e.call_name(n) == 'append' and any(
                sc.kind == 'loop' and sc.ast is loop.ast for sc in n.scopes) \
                and isinstance(n.ast.func.value, ast.Name):
            filled[path_of(n.ast.func.value, n.frame)] = \
                n.ast.func.value.id
    # lists kept in a local dict under the tag of the result
    # (`failed[kind].append(...)`): each one is looked at under the name it
    # is handed on with (`return settled, failed['permfail'], ...` taken
    # apart by the caller, or `permfails = failed['permfail']`)
    for n in g.nodes:
        if not (n.kind == 'call' and e.call_name(n) == 'append' and any(
                sc.kind == 'loop' and sc.ast is loop.ast for sc in n.scopes)
                and isinstance(n.ast.func.value, ast.Subscript) and
                isinstance(n.ast.func.value.value, ast.Name)):
            continue
        dname = n.ast.func.value.value.id
        keys = common.local_dict_keys(n.frame.ctx.func, dname)
        if not keys:
            continue
        nulc = common.Nullness(g, e)
        want = {nulc._const(k, n.frame) for k in keys}
        got = {}

        def key_of(x, fr, dname=dname, nulc=nulc):
            if isinstance(x, ast.Subscript) and \
                    isinstance(x.value, ast.Name) and x.value.id == dname:
                return nulc._const(x.slice, fr)
            return None
        for m in g.of_kind('stmt'):
            if m.frame is not n.frame:
                continue
            if isinstance(m.ast, ast.Assign) and len(m.ast.targets) == 1 \
                    and isinstance(m.ast.targets[0], ast.Name) and \
                    key_of(m.ast.value, m.frame) is not None:
                got[key_of(m.ast.value, m.frame)] = (
                    path_of(m.ast.targets[0], m.frame),
                    m.ast.targets[0].id)
            if isinstance(m.ast, ast.Return) and \
                    isinstance(m.ast.value, ast.Tuple) and \
                    m.frame.call is not None:
                for c in g.of_kind('stmt'):
                    if isinstance(c.ast, ast.Assign) and \
                            c.ast.value is m.frame.call and \
                            len(c.ast.targets) == 1 and \
                            isinstance(c.ast.targets[0], ast.Tuple) and \
                            len(c.ast.targets[0].elts) == \
                            len(m.ast.value.elts):
                        for tv, rv2 in zip(c.ast.targets[0].elts,
                                           m.ast.value.elts):
                            kk = key_of(rv2, m.frame)
                            if kk is not None and isinstance(tv, ast.Name):
                                got[kk] = (path_of(tv, c.frame), tv.id)
        if None in want or set(got) != want:
            rep.error('cannot follow the lists of `%s` out of the '
                      'classification loop (R1.8)' % dname)
            return
        for kk, (p, nm) in got.items():
            filled[p] = nm
    done = [s for l, s in loop.succ if l == 'done']
    if not done or not filled:
        rep.error('anchor vanished: failure lists of _handle_partial_relay')
        return

    def tested_path(t):
        # `if xs:` / `if not xs:` / `if len(xs)`: the list that is looked at
        a = t.ast
        if isinstance(a, ast.Call) and isinstance(a.func, ast.Name) and \
                a.func.id == 'len' and a.args:
            a = a.args[0]
        return path_of(a, t.frame)
    tests = {p: [t for t in g.of_kind('test')
                 if tested_path(t) == p] for p in filled}
    after = dataflow.must_events_after(
        g, lambda n: ['test:' + tested_path(n)]
        if n.kind == 'test' and tested_path(n) in filled else [],
        edge=c07.no_call_exc)
    st = after.get(done[0].id)
    for p, nm in sorted(filled.items()):
        rep.evaluations += 1
        ok = isinstance(st, dataflow.Top) or ('test:' + p) in (st or ())
        w = None
        if not ok:
            pth = dataflow.find_path(
                g, done[0], lambda x: x is g.exit,
                avoid=lambda x: x.kind == 'test' and
                tested_path(x) == p,
                edge_ok=lambda a, l, s: not isinstance(l, tuple))
            w = dataflow.render_path(pth, 16) if pth else None
        rep.check(ok, 'R1.8', where,
                  'the list `%s` is examined on every path' % nm,
                  'after the recipients were classified, a path reaches '
                  'the end of _handle_partial_relay without looking at '
                  '`%s`: recipients filed there are neither bounced nor '
                  'retried although their outcome was recorded as settled'
                  % nm, loc=loop.loc(),
                  reason='tested on every path after the loop', witness=w)
    # a non-empty permanent-failure list always reaches a _perm_fail loop
    for p, nm in filled.items():
        if 'perm' not in nm:
            continue
        for t in tests[p]:
            for l, s in t.succ:
                if l != 'T':
                    continue
                rep.evaluations += 1
                st2 = dataflow.must_events_after(
                    g, lambda n: ['bounce'] if n.kind in (
                        'call', 'call_enter') and
                    e.call_name(n) == '_perm_fail' else [],
                    edge=lambda a, l2, s2, si: (
                        None if isinstance(l2, tuple) else
                        (si if not (a.kind == 'iter' and l2 == 'done' and
                                    '_split_by_reply' in ast.unparse(
                                        a.ast.iter)) else si))).get(s.id)
                loops = [x for x in g.of_kind('iter')
                         if isinstance(x.ast, ast.For) and
                         '_split_by_reply' in ast.unparse(x.ast.iter) and
                         x.id in dataflow.reachable(
                             g, s, lambda a, l2, s2: not isinstance(
                                 l2, tuple))]
                rep.check(bool(loops), 'R1.8', where,
                          'a non-empty `%s` reaches the bounce loop' % nm,
                          'permanently failed recipients are collected but '
                          'no bounce loop follows', loc=t.loc(),
                          reason='for ... in _split_by_reply(...): '
                          '_perm_fail')


# ------------------------------------------------------------------- R1.10
def r110(e: Engine, rep: Report):
    """Importing package.sub binds the name `sub` in the package namespace.
    If `sub` is also a builtin that the package __init__ calls, that call
    breaks as soon as the submodule has been imported.  In slimta.queue this
    hits the Sequence arm of Queue._attempt (`dict(zip(...))`): the attempt
    dies before any disposition and the message stays in flight forever."""
    from ..model import BUILTIN_NAMES
    import builtins
    n = 0
    for m in e.p.modules.values():
        if not m.is_pkg or not m.name.startswith('slimta.queue'):
            continue
        subs = {x.name.rpartition('.')[2] for x in e.p.modules.values()
                if x.name.startswith(m.name + '.') and
                '.' not in x.name[len(m.name) + 1:]}
        shadow = {x for x in subs if hasattr(builtins, x) and
                  x not in m.imports and x not in m.globals and
                  x not in m.classes and x not in m.functions}
        if not shadow:
            continue
        for f in e.p.functions.values():
            if f.module is not m:
                continue
            from ..facts import local_names
            loc = local_names(f)
            for node in walk_own(f.node):
                if isinstance(node, ast.Name) and node.id in shadow and \
                        isinstance(node.ctx, ast.Load) and \
                        node.id not in loc:
                    n += 1
                    rep.evaluations += 1
                    rep.functions.add(f.qname)
                    rep.bad('R1.10', f.qname,
                            'builtin `%s` used in a package that has a '
                            'submodule of that name' % node.id,
                            'once %s.%s has been imported, `%s` in %s is '
                            'that module, not the builtin: this call raises '
                            'TypeError. In Queue._attempt it sits in the '
                            'arm for sequence results: the attempt dies '
                            'before any disposition and the message stays '
                            'in flight (never retried, bounced or removed)'
                            % (m.name, node.id, node.id, f.qname),
                            loc=f.loc(node))
    if n == 0:
        rep.ok('R1.10', 'slimta.queue', 'no builtin shadowed by a '
               'submodule is used', reason='checked every Name load in '
               'the package __init__')


# ------------------------------------------------------------------- R1.14
# what deletes a stored message, per backend (receiver attribute, primitive)
RECORD_DELETERS = {
    'slimta.diskstorage.DiskStorage': [('ops', 'delete_env'),
                                       ('ops', 'delete_meta')],
    'slimta.redisstorage.RedisStorage': [('redis', 'delete'),
                                         ('redis', 'hdel')],
    'slimta.cloudstorage.CloudStorage': [('obj_store', 'delete_message')],
}


def r114(e: Engine, rep: Report, rule: str = 'R1.14'):
    """Who may delete a stored message: in every backend the record of a
    message is deleted by remove() (and its private helpers) only - the call
    the queue makes for a final disposition.  A scan, a getter or a cleanup
    that deletes records drops messages nobody disposed of."""
    rep.tables.add('c01.RECORD_DELETERS')
    from . import storeback
    n = 0
    for cq in sorted(e.p.subclasses(STORAGE)):
        c = e.p.classes[cq]
        prims = list(RECORD_DELETERS.get(cq, []))
        subs = storeback.substrate_attrs(e, cq)
        owners = common.owner_closure(e, cq, {'remove'})
        for mname, m in sorted(c.methods.items()):
            for x in walk_own(m.node):
                what = None
                if isinstance(x, ast.Attribute) and \
                        isinstance(x.ctx, ast.Load) and \
                        isinstance(x.value, ast.Attribute) and \
                        isinstance(x.value.value, ast.Name) and \
                        x.value.value.id == 'self' and \
                        (x.value.attr, x.attr) in prims:
                    what = 'self.%s.%s' % (x.value.attr, x.attr)
                elif isinstance(x, ast.Delete):
                    for t in x.targets:
                        if isinstance(t, ast.Subscript) and \
                                isinstance(t.value, ast.Attribute) and \
                                isinstance(t.value.value, ast.Name) and \
                                t.value.value.id == 'self' and \
                                t.value.attr in subs:
                            what = 'del self.%s[...]' % t.value.attr
                        elif isinstance(t, ast.Subscript) and \
                                isinstance(t.value, ast.Name):
                            al = common.loop_alias_attrs(m.node, t.value.id)
                            if al and any(a in subs for a in al):
                                what = 'del self.%s[...]' % '/'.join(al)
                                n += len(al) - 1     # one site per mapping
                elif isinstance(x, ast.Call) and \
                        isinstance(x.func, ast.Attribute) and \
                        x.func.attr in ('pop', 'popitem', 'clear') and \
                        isinstance(x.func.value, ast.Attribute) and \
                        isinstance(x.func.value.value, ast.Name) and \
                        x.func.value.value.id == 'self' and \
                        x.func.value.attr in subs:
                    what = 'self.%s.%s()' % (x.func.value.attr, x.func.attr)
                if what is None:
                    continue
                n += 1
                rep.evaluations += 1
                rep.functions.add(m.qname)
                rep.check(mname in owners, rule, m.qname,
                          'stored record deleted by `%s`' % what,
                          '%s deletes the stored record of a message '
                          'outside remove(): a message that was neither '
                          'delivered nor bounced (still being written, '
                          'queued or in flight) disappears from storage'
                          % m.qname, loc=m.loc(x),
                          reason='inside remove() / its private helpers')
    if n < 5:
        rep.error('anchor vanished: record deletion sites of the backends '
                  '(%d < 5)' % n)


# ------------------------------------------------------------------- R1.18
def r118(e: Engine, rep: Report, rule: str = 'R1.18'):
    """The queue decides by truthiness whether it has a relay at all (`if
    self.relay and ...` before the first attempt, `if not self.relay:
    return` in the scheduler).  A relay class that defines __len__ /
    __bool__ (a backlog counter, say) is falsy whenever that is 0: mail is
    accepted and stored, and never attempted."""
    rep.rule(rule, 'the collaborators the queue tests by truthiness '
             '(self.relay) have no __len__ / __bool__ in any relay class of '
             'the repository: "no relay configured" is None, not "idle"')
    from .c13 import truthiness_overloaded
    qc = common.merged_class(e, QUEUE)
    tests = []
    for mname, m in sorted(qc.methods.items()):
        for x in ast.walk(m.node):
            conds = []
            if isinstance(x, (ast.If, ast.While, ast.IfExp)):
                conds = [x.test]
            elif isinstance(x, ast.Assert):
                conds = [x.test]
            for c0 in conds:
                parts = [c0]
                while parts:
                    y = parts.pop()
                    if isinstance(y, ast.BoolOp):
                        parts += y.values
                    elif isinstance(y, ast.UnaryOp) and \
                            isinstance(y.op, ast.Not):
                        parts.append(y.operand)
                    elif isinstance(y, ast.Attribute) and \
                            ast.unparse(y) == 'self.relay':
                        tests.append((m, y))
    rep.evaluations += 1
    if not tests:
        rep.ok(rule, QUEUE, 'self.relay is not tested by truthiness',
               reason='identity tests only')
        return
    bad = []
    for cq in sorted(e.p.subclasses('slimta.relay.Relay')):
        k = truthiness_overloaded(e, cq)
        if k is not None:
            bad.append((cq, k))
    m, y = tests[0]
    rep.check(not bad, rule, m.qname,
              'truthiness of self.relay means "a relay is configured"',
              '%s tests self.relay by truthiness, and %s gets __len__ / '
              '__bool__ from %s: an idle relay counts as no relay - the '
              'first attempt is skipped and the scheduler loop ends, '
              'accepted mail stays in storage for ever' % (
                  m.name, bad[0][0] if bad else '', bad[0][1] if bad else ''),
              loc=m.loc(y), reason='%d truthiness tests; no relay class '
              'overloads truthiness' % len(tests))


# ------------------------------------------------------------------ R1.25
def r125(e: Engine, rep: Report):
    RERR = 'slimta.relay.RelayError'
    n = 0
    for f in sorted(e.p.functions.values(), key=lambda f: f.qname):
        mn = f.module.name
        if not (mn == 'slimta.relay' or mn.startswith('slimta.relay.')):
            continue
        for h in walk_own(f.node):
            if not (isinstance(h, ast.ExceptHandler) and h.name):
                continue
            handed = None
            for x in h.body:
                for y in ast.walk(x):
                    if isinstance(y, ast.Return) and \
                            isinstance(y.value, ast.Name) and \
                            y.value.id == h.name:
                        handed = y
                    elif isinstance(y, ast.Assign) and \
                            isinstance(y.value, ast.Name) and \
                            y.value.id == h.name and any(
                                isinstance(t, ast.Subscript)
                                for t in y.targets):
                        handed = y
            if handed is None:
                continue
            n += 1
            rep.evaluations += 1
            rep.functions.add(f.qname)
            ts = h.type.elts if isinstance(h.type, ast.Tuple) else (
                [h.type] if h.type is not None else [])
            bad = []
            for t in ts:
                q = e.p.resolve_expr_qname(f.module, t)
                if q is None or q not in e.p.classes or \
                        not e.p.is_subclass(q, RERR):
                    bad.append(ast.unparse(t))
            if h.type is None:
                bad.append('everything')
            rep.check(not bad, 'R1.25', f.qname,
                      '`%s` hands back relay errors only'
                      % ' '.join(ast.unparse(handed).split())[:40],
                      '%s catches %s and hands the exception back as the '
                      'outcome of the delivery (`%s`): in a per-recipient '
                      'result the queue looks for None / Reply / '
                      'PermanentRelayError / TransientRelayError only - a '
                      'recipient whose value is something else is not '
                      'marked delivered, not bounced and not kept for the '
                      'retry; when no other recipient failed transiently '
                      'the message is removed without having been delivered'
                      % (f.name, ', '.join(bad),
                         ' '.join(ast.unparse(handed).split())[:40]),
                      loc=f.loc(h), reason='except arm takes subclasses of '
                      'RelayError')
    if n < 1:
        rep.error('anchor vanished: no relay returns a caught exception as '
                  'a result')


# ------------------------------------------------------------------ R1.26
def r126(e: Engine, rep: Report):
    f = e.p.functions.get('slimta.logging.log_exception')
    if f is None:
        rep.error('anchor vanished: slimta.logging.log_exception')
        return
    rep.functions.add(f.qname)
    local = {x.id for x in walk_own(f.node) if isinstance(x, ast.Name) and
             isinstance(x.ctx, ast.Store)} | set(f.params)
    n = 0
    for x in walk_own(f.node):
        if not (isinstance(x, ast.Subscript) and isinstance(x.ctx, ast.Load)):
            continue
        if isinstance(x.slice, (ast.Constant, ast.Slice)):
            continue
        base = x.value
        while isinstance(base, ast.Attribute):
            base = base.value
        if isinstance(base, ast.Name) and base.id in local and \
                isinstance(x.value, ast.Name):
            continue           # a container the function built itself
        n += 1
        rep.evaluations += 1
        guarded = False
        for t in walk_own(f.node):
            if isinstance(t, ast.Try) and any(
                    x in ast.walk(b) for b in t.body):
                for h in t.handlers:
                    hs = ast.unparse(h.type) if h.type is not None else ''
                    if h.type is None or any(k in hs for k in (
                            'KeyError', 'LookupError', 'Exception')):
                        guarded = True
        rep.check(guarded, 'R1.26', f.qname,
                  '`%s` cannot raise out of the logging call'
                  % ' '.join(ast.unparse(x).split())[:40],
                  'log_exception looks `%s` up with a key taken from the '
                  'exception being logged: for a key the table does not '
                  'have (errno None of a socket.timeout or of an OSError '
                  'raised without a number) the KeyError replaces the '
                  'exception the catch-all arm of Queue._attempt was '
                  'handling - the arm is left before _retry_later, the '
                  'message stays stored and is neither retried nor bounced '
                  'until the next restart'
                  % ' '.join(ast.unparse(x).split())[:40],
                  loc=f.loc(x), reason='inside try/except KeyError')
    rep.evaluations += 1
    if n == 0:
        rep.ok('R1.26', f.qname, 'no look-up by a computed key in '
               'log_exception', reason='nothing that can raise KeyError',
               nontrivial=False)
